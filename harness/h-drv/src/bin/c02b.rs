//! C02 leg B - E-ASYNC on the real `Connection::router` + `RouterHandle::send_request`
//! (hook H-CONN-ROUTER): 2-3 caller futures, a scripted peer that answers any held request in any
//! order, whole or in chunks, callers dropped at any point, write coalescing off / yield / 1 ms.
//!
//! Every step the explorer picks one of: poll a woken task (router or a caller), start the next
//! caller, let the peer answer a held request (whole: free choice, so all response orders and all
//! submission/response interleavings at quiescent points are enumerated without spending the
//! deviation budget; split inside the header / after the header / inside the body: 1 deviation),
//! drop a caller's future (1 deviation), advance the 1 ms coalescing sleep. Polling a task other
//! than the lowest woken one, or doing any environment action while a task is still woken, costs 1
//! deviation. All choice sequences within the deviation bound are executed.
//!
//! Oracle: a caller that completes `Ok` holds exactly the frame the peer wrote for *its* request
//! (unique bodies, its stream); the peer never receives a request on a stream on which it still
//! holds an unanswered one (cancelled callers included); no caller gets an error (nothing is ever
//! faulted here; with a pre-filled id space only "no stream id" is admissible); once the peer has
//! completely written a caller's response and every task was polled to quiescence the caller is
//! complete; the connection never breaks.
use h_drv::router_harness::*;
use scylla::verif::conn as hook;
use serde_json::{Value, json};
use std::collections::BTreeSet;
use std::sync::Mutex;
use std::sync::atomic::{AtomicU64, Ordering};
use std::time::Duration;
use vcore::Report;
use vcore::dfs::{Chooser, DfsOpts, explore};

#[derive(Clone, Debug)]
struct Cfg {
    n: usize,
    coalescing: String,
    read_chunk: usize,
    capacity: usize,
    prefill: usize,
    bound: u32,
    /// > 0: caller 0's response body has this many bytes
    big: usize,
    /// the router has an event sender (control connection); the peer may interleave EVENT frames (stream -1) and a frame on stream -2
    events: bool,
    /// > 0: the stream accepts at most this many bytes per write call (short writes)
    write_chunk: usize,
    /// > 0: caller 1's request body is padded to this many bytes (larger than the 8 KiB write buffer)
    big_req: usize,
    /// split responses after EVERY header byte (else: after byte 1, after the header, mid-body)
    all_cuts: bool,
}

impl Cfg {
    fn to_json(&self, choices: &[usize]) -> Value {
        json!({"leg":"router-sched","n":self.n,"coalescing":self.coalescing,"read_chunk":self.read_chunk,"capacity":self.capacity,"prefill":self.prefill,"bound":self.bound,"big":self.big,"events":self.events,"write_chunk":self.write_chunk,"big_req":self.big_req,"all_cuts":self.all_cuts,"choices":choices})
    }
    fn from_json(v: &Value) -> Cfg {
        Cfg {
            n: v["n"].as_u64().unwrap_or(2) as usize,
            coalescing: v["coalescing"].as_str().unwrap_or("yield").to_string(),
            read_chunk: v["read_chunk"].as_u64().unwrap_or(0) as usize,
            capacity: v["capacity"].as_u64().unwrap_or(0) as usize,
            prefill: v["prefill"].as_u64().unwrap_or(0) as usize,
            bound: v["bound"].as_u64().unwrap_or(2) as u32,
            big: v["big"].as_u64().unwrap_or(0) as usize,
            events: v["events"].as_bool().unwrap_or(false),
            write_chunk: v["write_chunk"].as_u64().unwrap_or(0) as usize,
            big_req: v["big_req"].as_u64().unwrap_or(0) as usize,
            all_cuts: v["all_cuts"].as_bool().unwrap_or(false),
        }
    }
}

#[derive(Clone, Debug)]
enum Act {
    Poll(usize),
    Start,
    RespondWhole(usize),
    RespondSplit(usize, usize),
    DeliverRest,
    Cancel(usize),
    Advance,
    /// the peer writes a frame that answers nobody: an EVENT on stream -1 (first time) / a frame on stream -2 (second time)
    Unsolicited,
    /// more than the orphan age threshold (1 s) of virtual time passes after a caller was dropped with its response owed
    AdvanceSecond,
    /// 61 s of virtual time pass (the orphaner's 1 s ticks run) while an abandoned request is still unanswered
    AdvanceMinute,
}

#[derive(Default, Debug)]
struct Run {
    trace: Vec<String>,
    signature: String,
    cancel_while_owed_then_answered: bool,
    cancelled_unpolled_outcome: bool,
    coalesced: bool,
    orphan_answers: u64,
    refused: u64,
    splits: u64,
    unsolicited: u64,
    old_orphan: bool,
}

fn run_one(cfg: &Cfg, ch: &mut Chooser) -> (Result<(), String>, Run) {
    vasync::run(|| async move {
        let mut run = Run::default();
        let rcfg = hook::RouterCfg { write_coalescing_delay: coalescing_of(&cfg.coalescing), keepalive_interval: None, keepalive_timeout: None, submit_channel_capacity: cfg.capacity, prefill: cfg.prefill, event_channel_capacity: if cfg.events { 16 } else { 0 } };
        let mut w = World::new(rcfg, cfg.read_chunk);
        w.ctl.0.borrow_mut().max_write_chunk = cfg.write_chunk;
        let r = drive(cfg, ch, &mut w, &mut run).await;
        run.coalesced = w.max_frames_per_write >= 2;
        run.trace = w.finish_trace();
        drop(w);
        (r, run)
    })
}

/// where a response may be split: after every header byte (1..=8: inside version/flags/stream/opcode/length), after the
/// complete header, and in the middle of the body
fn cuts_for(len: usize, all: bool) -> Vec<usize> {
    let mut v: Vec<usize> = if all { (1..=8).collect() } else { vec![1] };
    if len > 9 {
        v.push(9);
    }
    if len >= 11 {
        v.push(9 + (len - 9) / 2);
    }
    v.retain(|&c| c < len);
    v.dedup();
    v
}

async fn drive(cfg: &Cfg, ch: &mut Chooser, w: &mut World, run: &mut Run) -> Result<(), String> {
    let mut next_start = 0usize;
    // (stream, caller, remaining bytes) of a response the peer has started to write
    let mut partial: Option<(i16, Option<usize>, Vec<u8>)> = None;
    let mut steps = 0;
    let mut advances = 0;
    let mut unsolicited_sent = 0u8;
    let mut second_advanced = false;
    let mut minute_advanced = false;
    loop {
        steps += 1;
        if steps > 400 {
            return Err("livelock|400 steps without reaching a terminal state".into());
        }
        w.ingest()?;
        w.drain_events();
        // newly completed callers
        for i in 0..w.callers.len() {
            if w.callers[i].checked || w.callers[i].cancelled {
                continue;
            }
            let out = w.callers[i].out.borrow().clone();
            if let Some(o) = out {
                w.callers[i].checked = true;
                let class = judge_completed(i, &w.callers[i], &o)?;
                w.log(format!("caller{i} -> {class}"));
                if let Err(e) = &o {
                    let admissible = e.kind == hook::SendErrorKind::UnableToAllocStreamId && cfg.prefill + cfg.n > 32768;
                    if !admissible {
                        return Err(format!("error-without-fault|caller{i} completed with {:?} ({}) although nothing was faulted and stream ids were available; its request was seen by the peer on stream {:?}, the peer's answer was complete: {}", e.kind, e.text, w.callers[i].stream, w.callers[i].answered_fully));
                    }
                    run.refused += 1;
                }
            }
        }
        w.poll_error_receiver()?;
        if let Some(e) = &w.error_seen {
            return Err(format!("connection-broken-without-fault|the router reported a connection error although the peer only ever sent well-formed answers to held requests: {e}"));
        }
        if w.router_done() {
            return Err("connection-broken-without-fault|the router future ended".into());
        }
        let woken = w.woken().await;
        let quiescent = woken.is_empty();
        if quiescent {
            for (i, c) in w.callers.iter().enumerate() {
                if c.answered_fully && !c.cancelled && c.out.borrow().is_none() {
                    return Err(format!("hang:answered-but-pending|the peer completely wrote the response to caller{i} (stream {:?}), every task was polled to quiescence, and the caller is still pending", c.stream));
                }
            }
        }
        let mut alts: Vec<(Act, u32)> = Vec::new();
        for (i, &t) in woken.iter().enumerate() {
            alts.push((Act::Poll(t), if i == 0 { 0 } else { 1 }));
        }
        let env = |base: u32| if quiescent { base } else { base.max(1) };
        if let Some(_p) = &partial {
            alts.push((Act::DeliverRest, env(0)));
        }
        let unwritten = w.callers.iter().any(|c| c.stream.is_none() && !c.checked && w.ex.polls(c.task) > 0);
        // (at most 3 advances in a row: the coalescing sleep is 1 ms, so after three 1 ms steps with nothing else happening
        // every write that was going to happen has happened; the counter restarts with every other action)
        if cfg.coalescing == "1ms" && unwritten && advances < 3 {
            alts.push((Act::Advance, env(0)));
        }
        if next_start < cfg.n {
            alts.push((Act::Start, env(0)));
        }
        if partial.is_none() {
            for pos in 0..w.held.len() {
                alts.push((Act::RespondWhole(pos), env(0)));
            }
            for pos in 0..w.held.len() {
                let len = w.response_frame(&w.held[pos]).encode().len();
                for cut in cuts_for(len, cfg.all_cuts) {
                    alts.push((Act::RespondSplit(pos, cut), env(1)));
                }
            }
        }
        if cfg.events && partial.is_none() && unsolicited_sent < 2 && (next_start > 0) {
            alts.push((Act::Unsolicited, env(1)));
        }
        let abandoned_and_owed = w.callers.iter().any(|c| c.cancelled_while_owed && !c.answered_fully);
        // the 1 s tick in the gap of a half-delivered response, or an orphan growing old
        if !second_advanced && (abandoned_and_owed || partial.is_some()) && cfg.big == 0 {
            alts.push((Act::AdvanceSecond, env(1)));
        }
        if !minute_advanced && abandoned_and_owed && cfg.prefill == 0 && cfg.big == 0 {
            alts.push((Act::AdvanceMinute, env(1)));
        }
        let has_free = alts.iter().any(|(_, c)| *c == 0);
        if !has_free {
            break; // nothing can happen any more without a cancellation: terminal
        }
        for i in 0..w.callers.len() {
            if !w.callers[i].cancelled && !w.ex.is_done(w.callers[i].task) {
                alts.push((Act::Cancel(i), env(1)));
            }
        }
        // the default (index 0) must be free: woken[0] if any, else the first environment action (all free when quiescent)
        let costs: Vec<u32> = alts.iter().map(|(_, c)| *c).collect();
        debug_assert_eq!(costs[0], 0);
        let pick = ch.choose_costed("step", &costs);
        if !matches!(alts[pick].0, Act::Advance) {
            advances = 0;
        }
        match alts[pick].0.clone() {
            Act::Poll(t) => w.poll_task(t).await,
            Act::Start => {
                let mut spec = if next_start == 0 && cfg.big > 0 { caller_spec_big(0, cfg.big) } else { caller_spec(next_start) };
                if next_start == 1 && cfg.big_req > 0 {
                    let pad = cfg.big_req.saturating_sub(spec.request_body.len());
                    spec.request_body.extend(std::iter::repeat_n(b'.', pad));
                }
                w.start_caller(spec);
                next_start += 1;
            }
            Act::Advance => {
                advances += 1;
                vasync::advance(MS).await;
                w.log("time +1ms".into());
            }
            Act::RespondWhole(pos) => {
                let h = w.held[pos].clone();
                let f = w.response_frame(&h).encode();
                if let Some(c) = h.caller {
                    w.callers[c].answer_started = true;
                    if w.callers[c].cancelled {
                        run.orphan_answers += 1;
                        if w.callers[c].cancelled_while_owed {
                            run.cancel_while_owed_then_answered = true;
                        }
                    }
                }
                w.mark_answered(pos);
                w.deliver(&f, &format!("whole response on stream {}", h.stream));
            }
            Act::RespondSplit(pos, cut) => {
                let h = w.held[pos].clone();
                let f = w.response_frame(&h).encode();
                if let Some(c) = h.caller {
                    w.callers[c].answer_started = true;
                }
                run.splits += 1;
                w.deliver(&f[..cut], &format!("first {cut} of {} bytes of the response on stream {}", f.len(), h.stream));
                partial = Some((h.stream, h.caller, f[cut..].to_vec()));
            }
            Act::DeliverRest => {
                let (stream, caller, rest) = partial.take().unwrap();
                let pos = w.held.iter().position(|h| h.stream == stream).unwrap();
                if let Some(c) = caller {
                    if w.callers[c].cancelled {
                        run.orphan_answers += 1;
                        if w.callers[c].cancelled_while_owed {
                            run.cancel_while_owed_then_answered = true;
                        }
                    }
                }
                w.mark_answered(pos);
                w.deliver(&rest, &format!("rest of the response on stream {stream}"));
            }
            Act::AdvanceSecond => {
                second_advanced = true;
                run.old_orphan = true;
                vasync::advance(hook::orphan_limits().1 + Duration::from_millis(100)).await;
                w.log("time +1.1s (the abandoned request's stream id is now an old orphan)".into());
            }
            Act::AdvanceMinute => {
                minute_advanced = true;
                run.old_orphan = true;
                vasync::advance(Duration::from_secs(61)).await;
                w.log("time +61s (the abandoned request has been unanswered for over a minute)".into());
            }
            Act::Unsolicited => {
                let f = if unsolicited_sent == 0 { event_frame(9) } else { Frame::response(-2, OP_RESULT, b"nobody") };
                unsolicited_sent += 1;
                run.unsolicited += 1;
                w.deliver(&f.encode(), &format!("a frame on stream {} that answers nobody", f.stream));
            }
            Act::Cancel(i) => {
                // "answered but not polled": the router has put the response into the caller's channel (the caller
                // task is woken) and the caller's future is dropped before it looks
                if w.callers[i].answered_fully && w.ex.is_woken(w.callers[i].task) && w.ex.polls(w.callers[i].task) > 0 {
                    run.cancelled_unpolled_outcome = true;
                }
                w.cancel_caller(i);
            }
        }
    }
    // terminal state: nothing woken, peer holds nothing it could answer, every caller started
    let mut sig = Vec::new();
    for (i, c) in w.callers.iter().enumerate() {
        if c.cancelled {
            sig.push("cancelled".to_string());
        } else {
            match c.out.borrow().as_ref() {
                Some(Ok(_)) => sig.push("ok".into()),
                Some(Err(e)) => sig.push(format!("err:{:?}", e.kind)),
                None => {
                    return Err(format!("hang:pending-at-end|caller{i} is still pending although nothing is woken, the peer holds no unanswered request and no timer can help (request seen by the peer: {:?}, answered completely: {})", c.stream, c.answered_fully));
                }
            }
        }
    }
    if !w.held.is_empty() || partial.is_some() {
        return Err("harness|terminal state with held requests".into());
    }
    run.signature = format!("{}|frames={}|writes={}", sig.join(","), w.frames_seen, w.writes_seen);
    Ok(())
}

fn configs(thorough: bool) -> Vec<Cfg> {
    let mut v = Vec::new();
    let b2 = if thorough { 4 } else { 3 };
    let b3 = if thorough { 3 } else { 2 };
    for co in ["yield", "off", "1ms"] {
        for read_chunk in [0usize, 1] {
            for capacity in [0usize, 1] {
                if !thorough && capacity == 1 && (read_chunk == 1 || co == "1ms") {
                    continue;
                }
                v.push(Cfg { n: 2, coalescing: co.into(), read_chunk, capacity, prefill: 0, bound: b2, big: 0, events: false, write_chunk: 0, big_req: 0, all_cuts: false });
                // (1 ms coalescing adds a free 'advance' alternative at most steps: one bound lower in the quick tier)
                v.push(Cfg { n: 3, coalescing: co.into(), read_chunk, capacity, prefill: 0, bound: if co == "1ms" && !thorough { b3 - 1 } else { b3 }, big: 0, events: false, write_chunk: 0, big_req: 0, all_cuts: false });
            }
        }
    }
    // response bodies around and above the reader's 32 KiB initial allocation: with 1 deviation the peer writes the next
    // response before the router has looked at the big one, i.e. both arrive back-to-back in one read
    for big in [32767usize, 32768, 32769, 40000, 65535, 65536, 65537, 100000] {
        for read_chunk in [0usize, 4096, 50_000] {
            if !thorough && read_chunk == 4096 && big % 2 == 0 {
                continue;
            }
            v.push(Cfg { n: 2, coalescing: "yield".into(), read_chunk, capacity: 0, prefill: 0, bound: if thorough { 2 } else { 1 }, big, events: false, write_chunk: 0, big_req: 0, all_cuts: false });
        }
    }
        // every header split offset, one deviation bound below the families above (those split after byte 1 / after the header / mid-body)
    for co in ["yield", "off"] {
        for read_chunk in [0usize, 1] {
            v.push(Cfg { n: 2, coalescing: co.into(), read_chunk, capacity: 0, prefill: 0, bound: if thorough { 3 } else { 2 }, big: 0, events: false, write_chunk: 0, big_req: 0, all_cuts: true });
            v.push(Cfg { n: 3, coalescing: co.into(), read_chunk, capacity: 0, prefill: 0, bound: if thorough { 2 } else { 1 }, big: 0, events: false, write_chunk: 0, big_req: 0, all_cuts: true });
        }
    }
    // a control connection: EVENT frames (stream -1) and a frame on stream -2 interleaved with the responses
    for co in ["yield", "off"] {
        v.push(Cfg { n: 2, coalescing: co.into(), read_chunk: 0, capacity: 0, prefill: 0, bound: if thorough { 3 } else { 2 }, big: 0, events: true, write_chunk: 0, big_req: 0, all_cuts: false });
        v.push(Cfg { n: 3, coalescing: co.into(), read_chunk: 0, capacity: 0, prefill: 0, bound: if thorough { 2 } else { 1 }, big: 0, events: true, write_chunk: 0, big_req: 0, all_cuts: false });
    }
    // short writes (7 bytes per write call) and a request larger than the 8 KiB write buffer
    for (write_chunk, big_req) in [(7usize, 0usize), (0, 20_000), (1000, 70_000)] {
        for co in ["yield", "off"] {
            v.push(Cfg { n: 3, coalescing: co.into(), read_chunk: 0, capacity: 0, prefill: 0, bound: if thorough { 2 } else { 1 }, big: 0, events: false, write_chunk, big_req, all_cuts: false });
        }
    }
    // stream ids around 255 / 2047 / 2048 / 4095 / 4096 on the wire (the ids below are taken by pre-filled handlers): the peer
    // answers on the id it read from the frame, so an id that is not carried intact never reaches its caller
    for p in if thorough { vec![255usize, 256, 2047, 2048, 4095, 4096, 16384] } else { vec![255usize, 2047, 2048, 4095, 4096] } {
        v.push(Cfg { n: 3, coalescing: "yield".into(), read_chunk: 0, capacity: 0, prefill: p, bound: 1, big: 0, events: false, write_chunk: 0, big_req: 0, all_cuts: false });
    }
    // exhaustion through the real writer path: the router's own map pre-filled by 32768-j real allocate calls
    for j in if thorough { vec![0usize, 1, 2] } else { vec![1usize] } {
        v.push(Cfg { n: 2, coalescing: "yield".into(), read_chunk: 0, capacity: 0, prefill: 32768 - j, bound: 2, big: 0, events: false, write_chunk: 0, big_req: 0, all_cuts: false });
        if thorough {
            v.push(Cfg { n: 3, coalescing: "yield".into(), read_chunk: 0, capacity: 0, prefill: 32768 - j, bound: 1, big: 0, events: false, write_chunk: 0, big_req: 0, all_cuts: false });
        }
    }
    v
}

fn main() {
    vcore::quiet_panics();
    unsafe {
        libc::mallopt(libc::M_MMAP_THRESHOLD, 1 << 30);
        libc::mallopt(libc::M_TRIM_THRESHOLD, i32::MAX);
    }
    let r = Report::new("C02", "router-sched", "model_checking", "E-ASYNC");
    if let Some(cj) = r.replay_case() {
        let cfg = Cfg::from_json(&cj);
        let choices: Vec<usize> = cj["choices"].as_array().map(|a| a.iter().filter_map(|x| x.as_u64()).map(|x| x as usize).collect()).unwrap_or_default();
        let mut ch = Chooser::new(choices);
        match vcore::catch(std::panic::AssertUnwindSafe(|| run_one(&cfg, &mut ch))) {
            Ok((verdict, run)) => {
                for l in &run.trace {
                    println!("  {l}");
                }
                println!("  signature: {}", run.signature);
                if let Err(wt) = verdict {
                    let (k, t) = split_key(&wt);
                    r.violation(&k, &t, cj.clone());
                }
            }
            Err(p) => {
                let (k, t) = split_key(&panic_complaint("replay", &p));
                r.violation(&k, &t, cj.clone());
            }
        }
        r.finish_replay();
    }
    let thorough = r.tier().is_thorough();
    let audit_every: u64 = if thorough { 32 } else { 8 };
    let signatures: Mutex<BTreeSet<String>> = Mutex::new(BTreeSet::new());
    let divergences: Mutex<Vec<String>> = Mutex::new(Vec::new());
    let mut per_cfg = Vec::new();
    let mut all_complete = true;
    for cfg in configs(thorough) {
        let t0 = std::time::Instant::now();
        let execs = AtomicU64::new(0);
        let nontrivial = AtomicU64::new(0);
        let r_ref = &r;
        let res = explore(&DfsOpts { bound: cfg.bound, jobs: r.args.jobs, max_executions: 30_000_000, wall: Duration::from_secs(if thorough { 1500 } else { 45 }), stop_at_first: false }, |ch| {
            let out = vcore::catch(std::panic::AssertUnwindSafe(|| run_one(&cfg, ch)));
            let (verdict, run) = match out {
                Ok(x) => x,
                Err(p) => (Err(panic_complaint("one execution of the router harness", &p)), Run::default()),
            };
            execs.fetch_add(1, Ordering::Relaxed);
            if run.cancel_while_owed_then_answered {
                nontrivial.fetch_add(1, Ordering::Relaxed);
            }
            if run.cancelled_unpolled_outcome {
                r_ref.counters.add("executions_cancel_after_response_before_caller_polled", 1);
            }
            if run.coalesced {
                r_ref.counters.add("executions_with_coalesced_write(>=2 frames in one write)", 1);
            }
            r_ref.counters.add("responses_to_cancelled_callers", run.orphan_answers);
            r_ref.counters.add("callers_refused_no_stream_id", run.refused);
            r_ref.counters.add("split_responses", run.splits);
            if run.old_orphan {
                r_ref.counters.add("executions_with_an_old_orphan(clock +1.1s after an abandonment)", 1);
            }
            r_ref.counters.add("event_or_negative_stream_frames_interleaved", run.unsolicited);
            if !run.signature.is_empty() {
                signatures.lock().unwrap().insert(run.signature.clone());
            }
            let choices = ch.choices();
            let h = vcore::fnv64(format!("{cfg:?}{choices:?}").as_bytes());
            let mut verdict = verdict;
            if ch.diverged.is_none() && (verdict.is_err() || h % audit_every == 0) {
                let rerun = || -> Option<(Result<(), String>, Vec<String>)> {
                    let mut ch2 = Chooser::new(choices.clone());
                    match vcore::catch(std::panic::AssertUnwindSafe(|| run_one(&cfg, &mut ch2))) {
                        Ok((v2, run2)) if ch2.diverged.is_none() => Some((v2, run2.trace)),
                        Ok(_) => Some((Ok(()), vec!["<choice sequence did not replay>".into()])),
                        Err(_) => None,
                    }
                };
                match audit(&verdict, &run.trace, &rerun) {
                    Audit::Stable => {}
                    Audit::FlakyViolation { what, violating_runs, runs } => {
                        r_ref.counters.add("violations_depending_on_unowned_randomness", 1);
                        verdict = Err(format!("{what} (violates in {violating_runs} of {runs} runs of this choice sequence: the outcome depends on randomness inside the driver, e.g. hash order; replay may need several attempts)"));
                    }
                    Audit::Diverged(d) => {
                        divergences.lock().unwrap().push(format!("{d}; cfg {cfg:?} choices {choices:?}"));
                        // a violation that never shows again is not reported as one (it counts as a divergence only)
                        if verdict.is_err() {
                            verdict = Ok(());
                        }
                    }
                }
                r_ref.traces_validated.fetch_add(1, Ordering::Relaxed);
            }
            if let Err(wt) = &verdict {
                let (k, t) = split_key(wt);
                r_ref.violation(&k, &format!("{t} [n={} coalescing={} read_chunk={} capacity={} prefill={}; {} choices]", cfg.n, cfg.coalescing, cfg.read_chunk, cfg.capacity, cfg.prefill, choices.len()), cfg.to_json(&choices));
            }
            verdict.map(|_| ())
        });
        for d in &res.divergences {
            divergences.lock().unwrap().push(format!("prefix replay: {d} in {cfg:?}"));
        }
        if res.capped.is_some() {
            all_complete = false;
        }
        let n_exec = execs.load(Ordering::Relaxed);
        r.eval(n_exec);
        r.transitions.fetch_add(n_exec, Ordering::Relaxed);
        r.nontrivial(nontrivial.load(Ordering::Relaxed));
        println!("cfg n={} ev={} wchunk={} bigreq={} big={:<6} coalescing={:<5} read_chunk={} capacity={} prefill={:<5} bound={} executions={} max_points={} violations={} capped={:?} wall={:.1}s", cfg.n, cfg.events as u8, cfg.write_chunk, cfg.big_req, cfg.big, cfg.coalescing, cfg.read_chunk, cfg.capacity, cfg.prefill, cfg.bound, n_exec, res.max_points, res.violations.len(), res.capped, t0.elapsed().as_secs_f64());
        per_cfg.push(json!({"n":cfg.n,"big_body":cfg.big,"events":cfg.events,"write_chunk":cfg.write_chunk,"big_request":cfg.big_req,"coalescing":cfg.coalescing,"read_chunk":cfg.read_chunk,"capacity":cfg.capacity,"prefill":cfg.prefill,"bound_completed":if res.capped.is_none() { json!(cfg.bound) } else { json!(null) },"executions":n_exec,"max_choice_points":res.max_points,"capped":res.capped}));
        if let Some(t) = res.sample_traces.last() {
            r.sample(cfg.to_json(t));
        }
        if r.violation_count() > 0 && !thorough {
            break; // simplest configuration first: stop at the first configuration that fails
        }
    }
    let div = divergences.into_inner().unwrap();
    // Verdict policy: replays that disagree (two passing runs with different traces, or a violation that never shows again)
    // mean the outcome depends on randomness the harness does not own (tokio's select! start branch, hash order). If at the
    // same time a violation WAS reproduced, that is a real execution of the real code: report it (exit 1) and mention the
    // RNG dependence. Without any reproduced violation the divergences are a machinery error (exit 2), never a verdict.
    if !div.is_empty() {
        r.counters.add("replay_divergences(outcome depends on unowned randomness)", div.len() as u64);
        r.note("replay_divergence_samples", json!(div.iter().take(3).collect::<Vec<_>>()));
        if r.violation_count() == 0 {
            vcore::machinery_error(&format!("determinism audit failed ({} divergences) and no violation was reproduced, first: {}", div.len(), div[0]));
        }
        println!("NOTE: {} replayed executions diverged (the schedule depends on randomness inside the driver, e.g. tokio's select! start branch); the violations below were each reproduced at least once", div.len());
    }
    let sigs = signatures.into_inner().unwrap();
    r.counters.add("distinct_outcome_signatures", sigs.len() as u64);
    r.note("configurations", json!(per_cfg));
    r.note("outcome_signatures", json!(sigs.iter().take(40).collect::<Vec<_>>()));
    r.set_exhaustive(all_complete);
    if sigs.len() < 2 && r.violation_count() == 0 {
        vcore::machinery_error("vacuous: fewer than 2 distinct outcome signatures");
    }
    r.set_rule("E-ASYNC/E-DFS on the real Connection::router with real send_request callers over a scripted stream. Per configuration (n callers x write coalescing off/yield/1ms x short reads x submit-channel capacity x pre-filled id space x a 32767..100000-byte response body for caller 0) every choice sequence within the deviation bound is executed; free choices: which woken task is lowest (default), start next caller / answer any held request whole at a quiescent point (so all response orders and all submission-response interleavings are covered at bound 0); 1 deviation each: poll another woken task, any environment action while a task is woken, split a response (after every header byte 1..8 / after the header / inside the body), interleave an EVENT or a negative-stream frame (control-connection configurations), drop a caller's future, let 1.1 s of virtual time pass after an abandonment or in the gap of a half-delivered response, let 61 s pass after an abandonment (the orphaner's ticks run). evaluations = executions (also reported as transitions). distinct_nontrivial = executions in which a caller was dropped while the peer owed its response and the peer answered that stream afterwards (cancellation notice and response in flight for the same stream). traces_validated_against_impl = executions replayed a second time with the full observation trace compared (determinism audit of select!-branch randomness), plus every violation.");
    r.assume("the default schedule polls the lowest woken task id (router first); every other order costs deviations, so coverage is 'all schedules within the bound', not all schedules");
    r.finish();
}
