//! C10 leg A - fault enumeration on the real `Connection::router` under E-ASYNC (hook H-CONN-ROUTER).
//!
//! 1..3 requests in flight (QUERY / PREPARE / EXECUTE shaped, different sizes), the peer has written
//! the responses to an ordered subset of them, and the response stream then
//!   * is cut at EVERY byte offset (each of the 9 header bytes, every body byte, exactly between
//!     frames) by {EOF, read error, write error}, or goes silent there with keep-alive configured and
//!     virtual time advanced past interval + timeout;
//!   * or continues after any whole number of frames with {garbage header, protocol version 3,
//!     client-direction bit, unknown opcode, a frame on a stream nobody waits on, a second answer on
//!     an already answered stream, a negative stream, an event frame}.
//! Oracle: every caller future completes (no time advance needed unless the fault *is* silence);
//! `Ok` only with exactly the body the peer wrote completely for that caller's request; everyone
//! else an error; the connection error receiver fired; the router future ended; no deadlock.
//! Scheduling around the fault is explored by E-DFS with a deviation bound (1 quick, 2 thorough).
use h_drv::router_harness::*;
use scylla::verif::conn as hook;
use serde_json::{Value, json};
use std::collections::BTreeSet;
use std::sync::Mutex;
use std::sync::atomic::{AtomicU64, Ordering};
use std::time::Duration;
use vcore::Report;
use vcore::dfs::{Chooser, DfsOpts, explore};

const KEEPALIVE_INTERVAL_MS: u64 = 300;
const KEEPALIVE_TIMEOUT_MS: u64 = 200;
const QUANTUM_MS: u64 = 100;
const BIG_BODIES: [usize; 8] = [32767, 32768, 32769, 40000, 65535, 65536, 65537, 100000];

#[derive(Clone, Debug, PartialEq, Eq)]
struct Case {
    n: usize,
    /// callers whose responses the peer writes, in this order
    answer: Vec<usize>,
    kind: String,
    /// byte offset of the cut (cut kinds) / number of whole frames before the bad frame (continue kinds)
    cut: usize,
    late: bool,
    coalescing: String,
    read_chunk: usize,
    keepalive_everywhere: bool,
    /// the router's own handler map is pre-filled by this many real `allocate` calls (stream-id exhaustion); `answer`
    /// then indexes the callers that did get a stream id, in the order the peer saw them
    prefill: usize,
    /// > 0: caller 0's response body has this many bytes (larger than the reader's initial 32 KiB allocation)
    big: usize,
    /// >= 0: the peer stops reading - the stream accepts this many request bytes in total, then writes stay pending
    wblock: i64,
    /// capacity of the submit channel (0 = what `Connection::new` uses)
    capacity: usize,
    /// the router has an event sender (control connection); the harness drains the channel
    events: bool,
    /// io::ErrorKind of the read / write error ("" = ConnectionReset / BrokenPipe)
    err_kind: String,
    /// this many further requests were written and then abandoned by their callers before the fault: their stream ids are
    /// orphaned (the peer still owes the responses) when the fault strikes
    orphans: usize,
}

const CUT_KINDS: [&str; 7] = ["eof", "read-error", "write-error", "silence", "silence-after-keepalive", "silence-busy", "silence-hinted"];
/// the driver itself gives the connection up: more than 1024 stream ids orphaned for longer than a second
const ORPHAN_OVERFLOW: &str = "orphan-overflow";
const ORPHANS_AT_THRESHOLD: &str = "orphans-at-threshold";
const BAD_KINDS: [&str; 8] = ["garbage-header", "version-3", "client-direction", "unknown-opcode", "unsolicited-stream", "duplicate-response", "negative-stream", "event-stream"];
/// only with an event sender configured: a frame on stream -1 that is not a decodable EVENT costs the connection
const EVENT_BAD_KINDS: [&str; 2] = ["event-malformed", "result-on-event-stream"];

fn is_cut_kind(k: &str) -> bool {
    CUT_KINDS.contains(&k)
}
fn is_silence(k: &str) -> bool {
    matches!(k, "silence" | "silence-after-keepalive" | "silence-busy" | "silence-hinted")
}
fn breaks_connection(k: &str) -> bool {
    !matches!(k, "negative-stream" | "event-stream" | "orphans-at-threshold" | "orphan-late-response")
}

impl Case {
    fn to_json(&self, choices: &[usize]) -> Value {
        json!({"leg":"router-faults","n":self.n,"answer":self.answer,"kind":self.kind,"cut":self.cut,"late":self.late,"coalescing":self.coalescing,"read_chunk":self.read_chunk,"keepalive_everywhere":self.keepalive_everywhere,"prefill":self.prefill,"big":self.big,"wblock":self.wblock,"capacity":self.capacity,"events":self.events,"err_kind":self.err_kind,"orphans":self.orphans,"choices":choices})
    }
    fn from_json(v: &Value) -> Case {
        Case {
            n: v["n"].as_u64().unwrap_or(1) as usize,
            answer: v["answer"].as_array().map(|a| a.iter().filter_map(|x| x.as_u64()).map(|x| x as usize).collect()).unwrap_or_default(),
            kind: v["kind"].as_str().unwrap_or("eof").to_string(),
            cut: v["cut"].as_u64().unwrap_or(0) as usize,
            late: v["late"].as_bool().unwrap_or(false),
            coalescing: v["coalescing"].as_str().unwrap_or("yield").to_string(),
            read_chunk: v["read_chunk"].as_u64().unwrap_or(0) as usize,
            keepalive_everywhere: v["keepalive_everywhere"].as_bool().unwrap_or(false),
            prefill: v["prefill"].as_u64().unwrap_or(0) as usize,
            big: v["big"].as_u64().unwrap_or(0) as usize,
            wblock: v["wblock"].as_i64().unwrap_or(-1),
            capacity: v["capacity"].as_u64().unwrap_or(0) as usize,
            events: v["events"].as_bool().unwrap_or(false),
            err_kind: v["err_kind"].as_str().unwrap_or("").to_string(),
            orphans: v["orphans"].as_u64().unwrap_or(0) as usize,
        }
    }
}

#[derive(Default, Debug)]
struct Run {
    trace: Vec<String>,
    /// outcome class per caller + connection-level observations
    signature: String,
    ok_after_full_delivery: u64,
    err_after_full_delivery: u64,
    mixed: bool,
    cut_class: &'static str,
}

/// One execution of one case under one choice sequence.
fn run_case(case: &Case, ch: &mut Chooser) -> (Result<(), String>, Run) {
    vasync::run(|| async move {
        let mut run = Run::default();
        let with_keepalive = is_silence(&case.kind) || case.keepalive_everywhere;
        let cfg = hook::RouterCfg {
            write_coalescing_delay: coalescing_of(&case.coalescing),
            keepalive_interval: if with_keepalive { Some(Duration::from_millis(KEEPALIVE_INTERVAL_MS)) } else { None },
            keepalive_timeout: if with_keepalive { Some(Duration::from_millis(KEEPALIVE_TIMEOUT_MS)) } else { None },
            submit_channel_capacity: case.capacity,
            prefill: case.prefill,
            event_channel_capacity: if case.events { 16 } else { 0 },
        };
        let mut w = World::new(cfg, case.read_chunk);
        if case.wblock >= 0 {
            w.ctl.set_write_budget(Some(case.wblock as usize));
        }
        let r = drive(case, ch, &mut w, &mut run).await;
        run.trace = w.finish_trace();
        drop(w);
        (r, run)
    })
}

async fn drive(case: &Case, ch: &mut Chooser, w: &mut World, run: &mut Run) -> Result<(), String> {
    for i in 0..case.n {
        // (spec 3 is the late caller's; a crowd of callers uses specs 13..)
        w.start_caller(if i == 0 && case.big > 0 { caller_spec_big(0, case.big) } else if i < 3 { caller_spec(i) } else { caller_spec(10 + i) });
    }
    w.quiesce(ch, 400 + 20 * case.n).await?;
    w.ingest()?;
    if case.coalescing == "1ms" {
        // the writer sleeps 1ms before it flushes: let virtual time pass until every request is on the wire
        for _ in 0..8 {
            if w.held.len() >= case.n {
                break;
            }
            vasync::advance(MS).await;
            w.log("time +1ms (write coalescing sleep)".into());
            w.quiesce(ch, 400 + 20 * w.callers.len()).await?;
            w.ingest()?;
        }
    }
    let in_flight: Vec<usize> = w.held.iter().filter_map(|h| h.caller).collect();
    let expect_in_flight = if case.prefill > 0 { case.n.min(32768 - case.prefill) } else { case.n };
    if case.wblock >= 0 {
        // the peer stopped reading: it has whatever complete frames fit into the accepted bytes; the rest sits unflushed
        // (or half-written) on the driver's side
        w.log(format!("peer stopped reading after {} bytes: {} of {} requests reached it", case.wblock, in_flight.len(), case.n));
    } else if in_flight.len() != expect_in_flight {
        return Err(format!("harness|{} of {} requests reached the peer before the fault, expected {}", in_flight.len(), case.n, expect_in_flight));
    }
    // with a pre-filled id space the callers beyond the free ids were refused at once; `answer` indexes the others
    let answer: Vec<usize> = if case.wblock >= 0 {
        // the peer can only answer what it received (which requests those are depends on the schedule)
        case.answer.iter().filter_map(|&a| in_flight.get(a).copied()).collect()
    } else if case.prefill > 0 {
        let mut v = Vec::new();
        for &a in &case.answer {
            match in_flight.get(a) {
                Some(&c) => v.push(c),
                None => return Err(format!("harness|answer index {a} but only {} requests are in flight", in_flight.len())),
            }
        }
        v
    } else {
        case.answer.clone()
    };
    // requests written and then abandoned: their stream ids are orphaned (marked, still reserved) when the fault strikes
    let mut orphan_streams: Vec<i16> = Vec::new();
    if case.orphans > 0 {
        let first = w.callers.len();
        for k in 0..case.orphans {
            w.start_caller(caller_spec(30 + k));
        }
        w.quiesce(ch, 400 + 20 * w.callers.len()).await?;
        w.ingest()?;
        for i in first..first + case.orphans {
            match w.callers[i].stream {
                Some(s) => orphan_streams.push(s),
                None => return Err(format!("harness|the request of the caller to be abandoned (#{i}) did not reach the peer")),
            }
            w.cancel_caller(i);
        }
        w.quiesce(ch, 400 + 20 * w.callers.len()).await?;
    }
    // the byte stream the peer writes
    let mut frames: Vec<(usize, Vec<u8>)> = Vec::new();
    for &c in &answer {
        let h = w.held.iter().find(|h| h.caller == Some(c)).unwrap().clone();
        frames.push((c, w.response_frame(&h).encode()));
    }
    let breaking = breaks_connection(&case.kind);
    if case.kind == ORPHAN_OVERFLOW || case.kind == ORPHANS_AT_THRESHOLD {
        // the limit comes from the driver's own constants: the connection is given up when MORE than `limit` stream ids have
        // been orphaned for longer than a second - exactly `limit` must be survived, `limit + 1` must not
        #[allow(non_snake_case)]
        let ORPHANS = hook::orphan_limits().0 + if case.kind == ORPHAN_OVERFLOW { 1 } else { 0 };
        // ORPHANS further requests are written and then abandoned by their callers; the peer never answers them
        let first = w.callers.len();
        for k in 0..ORPHANS {
            w.start_caller(caller_spec(10 + k));
        }
        w.quiesce_default(20 * ORPHANS).await?;
        w.ingest()?;
        if w.held.len() != case.n + ORPHANS {
            return Err(format!("harness|peer holds {} requests, expected {}", w.held.len(), case.n + ORPHANS));
        }
        for i in first..first + ORPHANS {
            w.cancel_caller(i);
        }
        w.quiesce_default(20 * ORPHANS).await?;
        // the peer answers the chosen subset completely
        let mut bytes = Vec::new();
        for (c, b) in &frames {
            bytes.extend_from_slice(b);
            let p = w.held.iter().position(|h| h.caller == Some(*c)).unwrap();
            w.callers[*c].answer_started = true;
            w.mark_answered(p);
        }
        run.mixed = !frames.is_empty();
        run.cut_class = "between-frames";
        if !bytes.is_empty() {
            w.deliver(&bytes, "answers to the chosen subset");
        }
        w.quiesce(ch, 400 + 20 * w.callers.len()).await?;
        // the orphans grow old (threshold 1 s); the orphaner's next 1 s tick must give the connection up
        for _ in 0..3 {
            vasync::advance(Duration::from_millis(700)).await;
            w.log("time +700ms".into());
            w.quiesce(ch, 400 + 20 * w.callers.len()).await?;
        }
    } else if is_cut_kind(&case.kind) {
        let all: Vec<u8> = frames.iter().flat_map(|(_, b)| b.iter().copied()).collect();
        let cut = case.cut.min(all.len());
        let mut pos = 0;
        let mut any_full = false;
        let mut any_partial = false;
        run.cut_class = "between-frames";
        for (c, b) in &frames {
            let (start, end) = (pos, pos + b.len());
            pos = end;
            if end <= cut {
                let p = w.held.iter().position(|h| h.caller == Some(*c)).unwrap();
                w.callers[*c].answer_started = true;
                w.mark_answered(p);
                any_full = true;
            } else if start < cut {
                w.callers[*c].answer_started = true;
                any_partial = true;
                run.cut_class = if cut - start < 9 { "inside-header" } else { "inside-body" };
            }
        }
        run.mixed = any_full || any_partial;
        if cut > 0 {
            w.deliver(&all[..cut], &format!("responses up to the cut at offset {cut} of {}", all.len()));
        }
        if !is_silence(&case.kind) {
            // default: the router sees the bytes first and the fault afterwards; deviation: both at once
            let at_once = ch.choose("fault-timing", 2) == 1;
            if !at_once {
                w.quiesce(ch, 400 + 20 * w.callers.len()).await?;
            }
            match case.kind.as_str() {
                "eof" => w.ctl.set_eof(),
                "read-error" => w.ctl.set_read_error(io_kind(&case.err_kind, std::io::ErrorKind::ConnectionReset)),
                "write-error" => w.ctl.set_write_error(io_kind(&case.err_kind, std::io::ErrorKind::BrokenPipe)),
                _ => unreachable!(),
            }
            w.log(format!("fault {} injected ({})", case.kind, if at_once { "together with the bytes" } else { "after the router consumed the bytes" }));
        }
    } else {
        let k = case.cut.min(frames.len());
        let mut bytes = Vec::new();
        for (c, b) in &frames[..k] {
            bytes.extend_from_slice(b);
            let p = w.held.iter().position(|h| h.caller == Some(*c)).unwrap();
            w.callers[*c].answer_started = true;
            w.mark_answered(p);
        }
        run.mixed = k > 0;
        run.cut_class = "between-frames";
        let free_stream = (0..).find(|s| !w.held.iter().any(|h| h.stream == *s) && !w.callers.iter().any(|c| c.stream == Some(*s))).unwrap();
        let bad: Vec<u8> = match case.kind.as_str() {
            "garbage-header" => vec![0xde, 0xad, 0xbe, 0xef, 0x13, 0x00, 0x00, 0x00, 0x02, 0x55, 0x55],
            "version-3" => Frame { version: 0x83, flags: 0, stream: w.held.first().map(|h| h.stream).unwrap_or(0), opcode: OP_RESULT, body: b"v3".to_vec() }.encode(),
            "client-direction" => Frame { version: 0x04, flags: 0, stream: w.held.first().map(|h| h.stream).unwrap_or(0), opcode: OP_RESULT, body: b"cd".to_vec() }.encode(),
            "unknown-opcode" => Frame { version: 0x84, flags: 0, stream: w.held.first().map(|h| h.stream).unwrap_or(0), opcode: 0x7f, body: b"uo".to_vec() }.encode(),
            "unsolicited-stream" => Frame::response(free_stream + 1000, OP_RESULT, b"nobody-waits").encode(),
            "duplicate-response" => {
                // a second answer on a stream that was just answered (or, with no answered frame, on a never-used stream)
                let s = frames[..k].last().map(|(c, _)| w.callers[*c].stream.unwrap()).unwrap_or(free_stream);
                Frame::response(s, OP_RESULT, b"second-answer").encode()
            }
            "orphan-late-response" => {
                // the late answer to an abandoned request: must be swallowed, nothing else happens
                let s = *orphan_streams.first().ok_or("harness|orphan-late-response without an orphan")?;
                let p = w.held.iter().position(|h| h.stream == s).ok_or("harness|the peer does not hold the abandoned request")?;
                let f = w.response_frame(&w.held[p].clone()).encode();
                w.mark_answered(p);
                f
            }
            "negative-stream" => Frame::response(-2, OP_RESULT, b"neg").encode(),
            "event-stream" if case.events => event_frame(7).encode(),
            "event-stream" => Frame::response(-1, 0x0C, b"\x00\x0fTOPOLOGY_CHANGE").encode(),
            "event-malformed" => Frame::response(-1, 0x0C, b"\x00\x0fTOPOLOGY_CHANGE").encode(),
            "result-on-event-stream" => Frame::response(-1, OP_RESULT, b"\x00\x00\x00\x01").encode(),
            other => return Err(format!("harness|unknown kind {other}")),
        };
        bytes.extend_from_slice(&bad);
        for (c, b) in &frames[k..] {
            // the peer does write these completely; a driver that broke the connection at the bad frame never reads
            // them (its callers then hold errors), one that reads on is caught by the error-receiver / hang oracle
            bytes.extend_from_slice(b);
            w.callers[*c].answer_started = true;
            let p = w.held.iter().position(|h| h.caller == Some(*c)).unwrap();
            w.mark_answered(p);
        }
        w.deliver(&bytes, &format!("{k} whole frames, then {}, then {} more frames", case.kind, frames.len() - k));
    }
    if case.late {
        w.start_caller(caller_spec(3));
    }
    w.quiesce(ch, 600 + 20 * w.callers.len()).await?;
    w.ingest()?;
    if case.coalescing == "1ms" && !is_silence(&case.kind) {
        // a late request's write (and with it a write error) waits for the coalescing sleep: that is a
        // delay the configuration asks for, not a hang
        for _ in 0..3 {
            vasync::advance(MS).await;
            w.log("time +1ms (write coalescing sleep)".into());
            w.quiesce(ch, 400 + 20 * w.callers.len()).await?;
            w.ingest()?;
        }
    }
    w.poll_error_receiver()?;

    if !breaking {
        // the connection must have survived: the peer now answers everything it still holds, in order
        if w.router_done() || w.error_seen.is_some() {
            return Err(format!("spurious-break|{} must not cost the connection, but it broke: {:?}", if case.kind == ORPHANS_AT_THRESHOLD { "exactly the tolerated number of old orphaned stream ids" } else { "a frame on a negative stream / a well-formed event / the late answer to an abandoned request" }, w.error_seen));
        }
        let mut guard = 0;
        while let Some(pos0) = w.held.iter().position(|h| h.caller.map(|c| !w.callers[c].cancelled).unwrap_or(true)) {
            if pos0 != 0 {
                let h = w.held.remove(pos0);
                w.held.insert(0, h);
            }
            let h = w.held[0].clone();
            let f = w.response_frame(&h).encode();
            if let Some(c) = h.caller {
                w.callers[c].answer_started = true;
            }
            w.mark_answered(0);
            w.deliver(&f, "answer to a still held request");
            w.quiesce(ch, 400 + 20 * w.callers.len()).await?;
            w.ingest()?;
            guard += 1;
            if guard > 8 {
                return Err("harness|peer keeps holding requests".into());
            }
        }
    } else if is_silence(&case.kind) {
        // nothing happens until the keep-alive machinery notices: advance virtual time in quanta
        let mut answer_keepalives = if case.kind == "silence-after-keepalive" { 1 } else { 0 };
        if case.kind == "silence-hinted" {
            // the application asks for an immediate probe (Connection::trigger_keepalive)
            w.handle.trigger_keepalive();
            w.log("keep-alive hint".into());
            w.quiesce(ch, 400 + 20 * w.callers.len()).await?;
            w.ingest()?;
        }
        let mut busy_idx = 0usize;
        let horizon = silence_horizon_ms(&case.kind);
        let mut elapsed = 0;
        while elapsed < horizon {
            vasync::advance(Duration::from_millis(QUANTUM_MS)).await;
            elapsed += QUANTUM_MS;
            w.log(format!("time +{QUANTUM_MS}ms (t={elapsed}ms)"));
            if case.kind == "silence-busy" {
                // the application keeps submitting requests the whole time
                w.start_caller(caller_spec(40 + busy_idx));
                busy_idx += 1;
            }
            w.quiesce(ch, 400 + 20 * w.callers.len()).await?;
            w.ingest()?;
            if answer_keepalives > 0 {
                if let Some(pos) = w.held.iter().position(|h| h.caller.is_none()) {
                    // the peer still answers this one keep-alive (and nothing else), then falls silent for good
                    answer_keepalives -= 1;
                    let f = w.response_frame(&w.held[pos].clone()).encode();
                    w.mark_answered(pos);
                    if partial_frame_pending(w) {
                        // a response frame is half-written: the keep-alive answer cannot be put on the wire before its rest
                    } else {
                        w.deliver(&f, "answer to the first keep-alive");
                        w.quiesce(ch, 400 + 20 * w.callers.len()).await?;
                    }
                }
            }
            w.poll_error_receiver()?;
        }
    }
    w.poll_error_receiver()?;
    w.drain_events();

    // ---- oracle
    let mut sig = Vec::new();
    let mut sig_cancelled = 0usize;
    let mut pending = Vec::new();
    for i in 0..w.callers.len() {
        if w.callers[i].cancelled {
            sig_cancelled += 1;
            continue;
        }
        let out = w.callers[i].out.borrow_mut().take();
        match out {
            None => {
                pending.push(i);
                sig.push("PENDING".to_string());
            }
            Some(o) => {
                let class = judge_completed(i, &w.callers[i], &o)?;
                if w.callers[i].answered_fully {
                    if class == "ok" {
                        run.ok_after_full_delivery += 1;
                    } else {
                        run.err_after_full_delivery += 1;
                    }
                }
                w.log(format!("caller{i} -> {class}"));
                sig.push(class);
            }
        }
    }
    let err_class = w.error_seen.as_ref().map(|e| classify_error(e)).unwrap_or_else(|| "none".into());
    run.signature = format!("{}|abandoned={}|router_done={}|error={}|events={}", sig.join(","), sig_cancelled, w.router_done(), err_class, w.events_received);
    if !pending.is_empty() {
        // does it at least complete later? (only to make the report more useful; it is a violation either way)
        let before = pending.len();
        for _ in 0..30 {
            vasync::advance(Duration::from_millis(QUANTUM_MS)).await;
            w.quiesce_default(400 + 20 * w.callers.len()).await?;
        }
        let still: Vec<usize> = pending.iter().copied().filter(|&i| w.callers[i].out.borrow().is_none()).collect();
        return Err(format!(
            "hang|after the fault and polling every task to quiescence{} {} caller(s) are still pending (first: {:?}; peer had completely answered those: {:?}); after 3 more seconds of virtual time {} of them are still pending; error receiver: {}",
            if is_silence(&case.kind) { format!(" and {}ms of virtual time (interval {KEEPALIVE_INTERVAL_MS} + timeout {KEEPALIVE_TIMEOUT_MS})", silence_horizon_ms(&case.kind)) } else { String::new() },
            before,
            pending.iter().take(8).collect::<Vec<_>>(),
            pending.iter().take(8).map(|&i| w.callers[i].answered_fully).collect::<Vec<_>>(),
            still.len(),
            err_class
        ));
    }
    if breaking && case.prefill > 0 {
        // the pre-filled handlers are in-flight requests of this connection too: each must have been failed
        let mut waiting = 0usize;
        let mut first = None;
        for i in 0..case.prefill {
            match w.handle.prefilled(i) {
                Some((_, hook::RxPoll::Error(_))) => {}
                Some((s, other)) => {
                    waiting += 1;
                    first.get_or_insert((s, format!("{other:?}")));
                }
                None => return Err(format!("harness|pre-filled handler {i} is not observable")),
            }
        }
        if waiting > 0 {
            return Err(format!("hang-prefilled|{waiting} of the {} requests that occupy the pre-filled stream ids were not failed after the connection died (first: stream {:?}); error receiver: {err_class}; router ended: {}", case.prefill, first, w.router_done()));
        }
    }
    if breaking {
        if w.error_seen.is_none() {
            return Err("error-receiver:not-fired|every caller completed but the connection error receiver (what the pool listens on) never fired".into());
        }
        if !w.router_done() {
            return Err("router-alive-after-break|the connection error was reported but the router future has not ended".into());
        }
        // callers the peer never completely answered must hold an error (judge_completed already rejected Ok for them)
    } else {
        for (i, s) in sig.iter().enumerate() {
            if s != "ok" {
                return Err(format!("spurious-failure|the connection did not break, the peer answered every request completely, yet live caller #{i} holds {s}"));
            }
        }
    }
    Ok(())
}

const IO_KINDS: [&str; 10] = ["ConnectionReset", "ConnectionAborted", "BrokenPipe", "NotConnected", "TimedOut", "Interrupted", "WouldBlock", "UnexpectedEof", "InvalidData", "Other"];
fn io_kind(name: &str, default: std::io::ErrorKind) -> std::io::ErrorKind {
    use std::io::ErrorKind::*;
    match name {
        "" => default,
        "ConnectionReset" => ConnectionReset,
        "ConnectionAborted" => ConnectionAborted,
        "BrokenPipe" => BrokenPipe,
        "NotConnected" => NotConnected,
        "TimedOut" => TimedOut,
        "Interrupted" => Interrupted,
        "WouldBlock" => WouldBlock,
        "UnexpectedEof" => UnexpectedEof,
        "InvalidData" => InvalidData,
        _ => Other,
    }
}

fn silence_horizon_ms(kind: &str) -> u64 {
    let once = KEEPALIVE_INTERVAL_MS + KEEPALIVE_TIMEOUT_MS;
    if kind == "silence-after-keepalive" { 2 * once + 2 * QUANTUM_MS } else { once + 2 * QUANTUM_MS }
}

/// the cut left a response frame half-written on the wire
fn partial_frame_pending(w: &World) -> bool {
    w.callers.iter().any(|c| c.answer_started && !c.answered_fully)
}

fn classify_error(e: &str) -> String {
    for k in ["KeepaliveTimeout", "KeepaliveRequestError", "UnexpectedStreamId", "WriteError", "ConnectionClosed", "HeaderIoError", "BodyChunkIoError", "FrameFromClient", "VersionNotSupported", "TryFromPrimitiveError", "ChannelError", "TooManyOrphanedStreamIds"] {
        if e.contains(k) {
            return k.to_string();
        }
    }
    "other".into()
}

fn answer_sequences(n: usize, thorough: bool) -> Vec<Vec<usize>> {
    // every ordered subset (thorough) / a covering family (quick)
    let mut all = vec![vec![]];
    fn rec(n: usize, cur: &mut Vec<usize>, out: &mut Vec<Vec<usize>>) {
        for c in 0..n {
            if !cur.contains(&c) {
                cur.push(c);
                out.push(cur.clone());
                rec(n, cur, out);
                cur.pop();
            }
        }
    }
    rec(n, &mut vec![], &mut all);
    let _ = thorough;
    all
}

/// capacity of the submit channel as the seam (mirroring `Connection::new`) creates it
fn real_submit_capacity() -> usize {
    vasync::run(|| async {
        let w = World::new(hook::RouterCfg::default(), 0);
        w.handle.submit_capacity()
    })
}

fn frame_len(c: usize) -> usize {
    9 + caller_spec(c).response_body.len()
}

fn cases(thorough: bool) -> Vec<Case> {
    let mut v = Vec::new();
    let coalescings: Vec<&str> = if thorough { vec!["yield", "off", "1ms"] } else { vec!["yield", "off"] };
    for n in 1..=3usize {
        for answer in answer_sequences(n, thorough) {
            let total: usize = answer.iter().map(|&c| frame_len(c)).sum();
            for &co in &coalescings {
                for kind in CUT_KINDS {
                    if matches!(kind, "silence-busy" | "silence-hinted") && co != "yield" {
                        continue;
                    }
                    for cut in 0..=total {
                        let lates: Vec<bool> = if kind == "write-error" { vec![true] } else { vec![false, true] };
                        for late in lates {
                            let chunks: Vec<usize> = if matches!(kind, "silence-busy" | "silence-hinted") { vec![0] } else { vec![0, 1] };
                            for read_chunk in chunks {
                                v.push(Case { n, answer: answer.clone(), kind: kind.to_string(), cut, late, coalescing: co.to_string(), read_chunk, keepalive_everywhere: false, prefill: 0, big: 0, wblock: -1, capacity: 0, events: false, err_kind: String::new(), orphans: 0 });
                                if thorough && !is_silence(kind) && read_chunk == 0 {
                                    // the same fault with the keep-aliver armed (its select! and timers are then part of the joined router)
                                    v.push(Case { n, answer: answer.clone(), kind: kind.to_string(), cut, late, coalescing: co.to_string(), read_chunk, keepalive_everywhere: true, prefill: 0, big: 0, wblock: -1, capacity: 0, events: false, err_kind: String::new(), orphans: 0 });
                                }
                            }
                        }
                    }
                }
                if co == "yield" {
                    for late in [false, true] {
                        v.push(Case { n, answer: answer.clone(), kind: ORPHAN_OVERFLOW.to_string(), cut: 0, late, coalescing: co.to_string(), read_chunk: 0, keepalive_everywhere: false, prefill: 0, big: 0, wblock: -1, capacity: 0, events: false, err_kind: String::new(), orphans: 0 });
                        if n <= 2 {
                            v.push(Case { n, answer: answer.clone(), kind: ORPHANS_AT_THRESHOLD.to_string(), cut: 0, late, coalescing: co.to_string(), read_chunk: 0, keepalive_everywhere: false, prefill: 0, big: 0, wblock: -1, capacity: 0, events: false, err_kind: String::new(), orphans: 0 });
                        }
                    }
                }
                for kind in BAD_KINDS {
                    for k in 0..=answer.len() {
                        for late in [false, true] {
                            v.push(Case { n, answer: answer.clone(), kind: kind.to_string(), cut: k, late, coalescing: co.to_string(), read_chunk: 0, keepalive_everywhere: false, prefill: 0, big: 0, wblock: -1, capacity: 0, events: false, err_kind: String::new(), orphans: 0 });
                        }
                    }
                }
            }
        }
    }
    // response bodies around and above the reader's 32 KiB initial allocation, written back-to-back with the next response
    // in ONE delivery (also with short reads), then the stream dies / a negative-stream frame follows: the big body's
    // caller must hold exactly its bytes, the following frame must still be parsed at its own header
    for big in BIG_BODIES {
        for read_chunk in [0usize, 4096, 50_000] {
            for (kind, cut) in [("eof", usize::MAX), ("read-error", usize::MAX), ("negative-stream", 2), ("eof", 9 + big / 2)] {
                for answer in [vec![0usize, 1], vec![1, 0]] {
                    if !thorough && (read_chunk == 4096 || kind == "read-error") && big % 2 == 0 {
                        continue;
                    }
                    v.push(Case { n: 2, answer, kind: kind.to_string(), cut, late: false, coalescing: "yield".into(), read_chunk, keepalive_everywhere: false, prefill: 0, big, wblock: -1, capacity: 0, events: false, err_kind: String::new(), orphans: 0 });
                }
            }
        }
    }
    // the peer stays connected but STOPS READING: the stream accepts k request bytes in total (nothing / mid first frame /
    // exactly the first frame / mid second frame), further writes stay pending, requests sit queued or half-written on the
    // driver's side - and then the connection dies on the read side or by keep-alive timeout
    {
        let f0 = 9 + caller_spec(0).request_body.len();
        for n in 1..=2usize {
            let ks: Vec<usize> = if n == 1 { vec![0, 5, f0] } else { vec![0, 5, f0, f0 + 5] };
            for k in ks {
                for co in ["yield", "off"] {
                    for kind in ["silence", "eof", "read-error", "garbage-header", "unsolicited-stream"] {
                        let mut answers: Vec<(Vec<usize>, usize)> = vec![(vec![], 0)];
                        if k >= f0 {
                            // the request that got through is answered completely before the fault
                            answers.push((vec![0], if is_cut_kind(kind) { usize::MAX } else { 1 }));
                        }
                        for (answer, cut) in answers {
                            for late in [false, true] {
                                v.push(Case { n, answer: answer.clone(), kind: kind.to_string(), cut, late, coalescing: co.to_string(), read_chunk: 0, keepalive_everywhere: kind != "silence" && late, prefill: 0, big: 0, wblock: k as i64, capacity: 0, events: false, err_kind: String::new(), orphans: 0 });
                            }
                        }
                    }
                }
            }
        }
    }
    // abandoned requests (orphaned stream ids) present when the fault strikes: a frame on an id that is neither registered
    // nor orphaned (never used / already answered) must still tear the connection down and fail everyone, the late answer
    // to the orphaned id itself must be tolerated, and the cut kinds must fail everyone as before
    for n in 1..=(if thorough { 3usize } else { 2 }) {
        for answer in answer_sequences(n, thorough) {
            let total: usize = answer.iter().map(|&c| frame_len(c)).sum();
            for orphans in [1usize, 2] {
                for late in [false, true] {
                    for k in 0..=answer.len() {
                        for kind in ["unsolicited-stream", "duplicate-response", "orphan-late-response", "garbage-header", "negative-stream"] {
                            v.push(Case { n, answer: answer.clone(), kind: kind.to_string(), cut: k, late, coalescing: "yield".into(), read_chunk: 0, keepalive_everywhere: false, prefill: 0, big: 0, wblock: -1, capacity: 0, events: false, err_kind: String::new(), orphans });
                        }
                    }
                    let mut cuts = vec![0usize, 4.min(total), total];
                    cuts.dedup();
                    for cut in cuts {
                        for kind in ["eof", "read-error", "silence"] {
                            v.push(Case { n, answer: answer.clone(), kind: kind.to_string(), cut, late, coalescing: "yield".into(), read_chunk: 0, keepalive_everywhere: false, prefill: 0, big: 0, wblock: -1, capacity: 0, events: false, err_kind: String::new(), orphans });
                        }
                    }
                }
            }
        }
    }
    // a control connection (event sender configured): well-formed events are handed to the consumer and change nothing,
    // anything else on stream -1 costs the connection
    for n in 1..=2usize {
        for answer in answer_sequences(n, thorough) {
            for k in 0..=answer.len() {
                for late in [false, true] {
                    for kind in ["event-stream", EVENT_BAD_KINDS[0], EVENT_BAD_KINDS[1], "negative-stream", "unsolicited-stream"] {
                        v.push(Case { n, answer: answer.clone(), kind: kind.to_string(), cut: k, late, coalescing: "yield".into(), read_chunk: 0, keepalive_everywhere: false, prefill: 0, big: 0, wblock: -1, capacity: 0, events: true, err_kind: String::new(), orphans: 0 });
                    }
                }
            }
        }
    }
    // every io::ErrorKind a socket read / write can plausibly report (code could branch on the kind, e.g. retry on
    // Interrupted / WouldBlock / TimedOut): before anything, inside a header, after the answered frames
    for n in 1..=2usize {
        for answer in answer_sequences(n, thorough) {
            let total: usize = answer.iter().map(|&c| frame_len(c)).sum();
            let mut cuts = vec![0usize, 4.min(total), total];
            cuts.dedup();
            for cut in cuts {
                for ek in IO_KINDS {
                    for (kind, late) in [("read-error", false), ("read-error", true), ("write-error", true)] {
                        v.push(Case { n, answer: answer.clone(), kind: kind.to_string(), cut, late, coalescing: "yield".into(), read_chunk: 0, keepalive_everywhere: false, prefill: 0, big: 0, wblock: -1, capacity: 0, events: false, err_kind: ek.to_string(), orphans: 0 });
                    }
                }
            }
        }
    }
    // the peer goes silent AND stops reading while the submit queue is FULL at the keep-alive tick: the writer is blocked,
    // the queue holds `capacity` tasks, further callers (and the keep-aliver's own OPTIONS) wait for a slot
    {
        let f0 = 9 + caller_spec(0).request_body.len();
        for co in ["yield", "off"] {
            for k in [0usize, 5, f0] {
                for n in [2usize, 3, 4] {
                    for late in [false, true] {
                        for kind in ["silence", "silence-after-keepalive"] {
                            v.push(Case { n, answer: vec![], kind: kind.to_string(), cut: 0, late, coalescing: co.to_string(), read_chunk: 0, keepalive_everywhere: false, prefill: 0, big: 0, wblock: k as i64, capacity: 1, events: false, err_kind: String::new(), orphans: 0 });
                        }
                    }
                }
            }
            // the same with the channel exactly as Connection::new makes it: its real capacity (read back through the hook) + 8 callers
            let real = real_submit_capacity();
            for k in [0usize, f0] {
                v.push(Case { n: real + 8, answer: vec![], kind: "silence".to_string(), cut: 0, late: true, coalescing: co.to_string(), read_chunk: 0, keepalive_everywhere: false, prefill: 0, big: 0, wblock: k as i64, capacity: 0, events: false, err_kind: String::new(), orphans: 0 });
            }
        }
    }
    // stream-id exhaustion x silent stall x keep-alive: the id space pre-filled with 32768-j real allocate calls, so that
    // (j = free ids) the callers take the last ids, are refused, or leave exactly one for the keep-alive itself
    for j in 0..=2usize {
        for n in 1..=2usize {
            let in_flight = n.min(j);
            let mut answers: Vec<(Vec<usize>, Vec<usize>)> = vec![(vec![], vec![0])];
            if in_flight >= 1 {
                let total = frame_len(0);
                answers.push((vec![0], if thorough { (0..=total).collect() } else { vec![4, total] }));
            }
            for (answer, cuts) in answers {
                for cut in cuts {
                    for kind in ["silence", "silence-after-keepalive"] {
                        for late in [false, true] {
                            v.push(Case { n, answer: answer.clone(), kind: kind.to_string(), cut, late, coalescing: "yield".into(), read_chunk: 0, keepalive_everywhere: false, prefill: 32768 - j, big: 0, wblock: -1, capacity: 0, events: false, err_kind: String::new(), orphans: 0 });
                        }
                    }
                }
            }
        }
    }
    v
}

fn main() {
    vcore::quiet_panics();
    // the exhaustion cases build and drop 32768 channels per execution; keep glibc from returning that memory each time
    unsafe {
        libc::mallopt(libc::M_MMAP_THRESHOLD, 1 << 30);
        libc::mallopt(libc::M_TRIM_THRESHOLD, i32::MAX);
    }
    let r = Report::new("C10", "router-faults", "fault_enumeration", "E-ASYNC");
    if let Some(cj) = r.replay_case() {
        let case = Case::from_json(&cj);
        let choices: Vec<usize> = cj["choices"].as_array().map(|a| a.iter().filter_map(|x| x.as_u64()).map(|x| x as usize).collect()).unwrap_or_default();
        let mut ch = Chooser::new(choices.clone());
        let res = vcore::catch(std::panic::AssertUnwindSafe(|| run_case(&case, &mut ch)));
        match res {
            Ok((verdict, run)) => {
                for l in &run.trace {
                    println!("  {l}");
                }
                println!("  signature: {}", run.signature);
                if let Err(wt) = verdict {
                    let (k, t) = split_key(&wt);
                    r.violation(&format!("{k}:{}", case.kind), &t, cj.clone());
                }
            }
            Err(p) => {
                let (k, t) = split_key(&panic_complaint("replay", &p));
                r.violation(&format!("{k}:{}", case.kind), &t, cj.clone());
            }
        }
        r.finish_replay();
    }
    let thorough = r.tier().is_thorough();
    let forced_bound: Option<u32> = r.args.extra_value("--bound").and_then(|s| s.parse().ok());
    // quick: bound 2 for n<=2 and bound 1 for n=3; thorough: bound 3 throughout
    let bound_for = |c: &Case| -> u32 { if c.kind == ORPHAN_OVERFLOW || c.kind == ORPHANS_AT_THRESHOLD || c.prefill > 0 { return if thorough { 1 } else { 0 }; } if c.big > 0 { return 1; } if c.n > 8 { return 0; } if c.wblock >= 0 { return if thorough { 2 } else { 1 }; } forced_bound.unwrap_or(if thorough { 3 } else if c.n <= 2 { 2 } else { 1 }) };
    let bound = forced_bound.unwrap_or(if thorough { 3 } else { 1 });
    let audit_every: u64 = if thorough { 16 } else { 4 };
    let all = cases(thorough);
    let signatures: Mutex<BTreeSet<String>> = Mutex::new(BTreeSet::new());
    let divergences: Mutex<Vec<String>> = Mutex::new(Vec::new());
    let executions = AtomicU64::new(0);
    let max_points = AtomicU64::new(0);
    let nontrivial_cases = AtomicU64::new(0);
    let r_ref = &r;
    vcore::par::for_each(r.args.jobs, 4, all.iter(), |case| {
        let case_mixed = std::sync::atomic::AtomicBool::new(false);
        let res = explore(&DfsOpts { bound: bound_for(case), jobs: 1, max_executions: 2_000_000, wall: Duration::from_secs(3000), stop_at_first: false }, |ch| {
            let out = vcore::catch(std::panic::AssertUnwindSafe(|| run_case(case, ch)));
            let (verdict, run) = match out {
                Ok(x) => x,
                Err(p) => (Err(panic_complaint("one execution of the router harness", &p)), Run::default()),
            };
            executions.fetch_add(1, Ordering::Relaxed);
            if run.mixed {
                case_mixed.store(true, Ordering::Relaxed);
            }
            r_ref.counters.add(&format!("executions_kind_{}", case.kind), 1);
            if case.orphans > 0 {
                r_ref.counters.add("executions_with_orphaned_ids_present_at_the_fault", 1);
            }
            if case.prefill > 0 {
                r_ref.counters.add("executions_with_stream_ids_exhausted_or_nearly(prefill 32768-j)", 1);
            }
            if case.wblock >= 0 {
                r_ref.counters.add("executions_peer_stopped_reading(writes pending after k bytes)", 1);
            }
            if case.wblock >= 0 && (case.capacity == 1 || case.n > 8) {
                r_ref.counters.add("executions_submit_queue_full_at_keepalive_tick(capacity 1 or capacity+8 callers)", 1);
            }
            if !run.cut_class.is_empty() {
                r_ref.counters.add(&format!("executions_cut_{}", run.cut_class), 1);
            }
            r_ref.counters.add("callers_ok_after_complete_response", run.ok_after_full_delivery);
            r_ref.counters.add("callers_failed_although_response_complete", run.err_after_full_delivery);
            if !run.signature.is_empty() {
                signatures.lock().unwrap().insert(format!("{}|{}", case.kind, run.signature));
            }
            // determinism audit: replay a deterministic subset (and every violation) and compare the full observation trace
            let choices = ch.choices();
            let h = vcore::fnv64(format!("{case:?}{choices:?}").as_bytes());
            let mut verdict = verdict;
            if ch.diverged.is_none() && (verdict.is_err() || h % audit_every == 0) {
                let rerun = || -> Option<(Result<(), String>, Vec<String>)> {
                    let mut ch2 = Chooser::new(choices.clone());
                    match vcore::catch(std::panic::AssertUnwindSafe(|| run_case(case, &mut ch2))) {
                        Ok((v2, run2)) if ch2.diverged.is_none() => Some((v2, run2.trace)),
                        Ok(_) => Some((Ok(()), vec!["<choice sequence did not replay>".into()])),
                        Err(_) => None,
                    }
                };
                match audit(&verdict, &run.trace, &rerun) {
                    Audit::Stable => {}
                    Audit::FlakyViolation { what, violating_runs, runs } => {
                        r_ref.counters.add("violations_depending_on_unowned_randomness", 1);
                        verdict = Err(format!("{what} (violates in {violating_runs} of {runs} runs of this choice sequence: the outcome depends on randomness inside the driver, e.g. hash order; replay may need several attempts)"));
                    }
                    Audit::Diverged(d) => {
                        divergences.lock().unwrap().push(format!("{d}; case {:?} choices {:?}", case, choices));
                        // a violation that never shows again is not reported as one (it counts as a divergence only)
                        if verdict.is_err() {
                            verdict = Ok(());
                        }
                    }
                }
                r_ref.traces_validated.fetch_add(1, Ordering::Relaxed);
            }
            if let Err(wt) = &verdict {
                let (k, t) = split_key(wt);
                r_ref.violation(&format!("{k}:{}", case.kind), &format!("{t} [case: n={} answered={:?} kind={} cut={} late={} coalescing={} read_chunk={}{}{}{}]", case.n, case.answer, case.kind, if case.cut == usize::MAX { "end".to_string() } else { case.cut.to_string() }, case.late, case.coalescing, case.read_chunk, if case.wblock >= 0 { format!(" peer-stops-reading-after={}B submit-capacity={}", case.wblock, if case.capacity == 0 { "default".to_string() } else { case.capacity.to_string() }) } else { String::new() }, if case.prefill > 0 { format!(" prefilled-ids={}", case.prefill) } else { String::new() }, format!("{}{}{}", if case.big > 0 { format!(" big-body={}", case.big) } else { String::new() }, if case.events { " event-sender" } else { "" }, if case.err_kind.is_empty() { String::new() } else { format!(" io-kind={}", case.err_kind) }) + &if case.orphans > 0 { format!(" orphaned-ids-present={}", case.orphans) } else { String::new() }), case.to_json(&choices));
            }
            verdict.map(|_| ())
        });
        max_points.fetch_max(res.max_points as u64, Ordering::Relaxed);
        if let Some(c) = res.capped {
            r_ref.counters.add("capped_cases", 1);
            let _ = c;
        }
        for d in res.divergences {
            divergences.lock().unwrap().push(format!("prefix replay: {d} in case {case:?}"));
        }
        if case_mixed.load(Ordering::Relaxed) {
            nontrivial_cases.fetch_add(1, Ordering::Relaxed);
        }
    });
    let div = divergences.into_inner().unwrap();
    // Verdict policy: replays that disagree (two passing runs with different traces, or a violation that never shows again)
    // mean the outcome depends on randomness the harness does not own (tokio's select! start branch, hash order). If at the
    // same time a violation WAS reproduced, that is a real execution of the real code: report it (exit 1) and mention the
    // RNG dependence. Without any reproduced violation the divergences are a machinery error (exit 2), never a verdict.
    if !div.is_empty() {
        r.counters.add("replay_divergences(outcome depends on unowned randomness)", div.len() as u64);
        r.note("replay_divergence_samples", json!(div.iter().take(3).collect::<Vec<_>>()));
        if r.violation_count() == 0 {
            vcore::machinery_error(&format!("determinism audit failed ({} divergences) and no violation was reproduced, first: {}", div.len(), div[0]));
        }
        println!("NOTE: {} replayed executions diverged (the schedule depends on randomness inside the driver, e.g. tokio's select! start branch); the violations below were each reproduced at least once", div.len());
    }
    let sigs = signatures.into_inner().unwrap();
    r.eval(executions.load(Ordering::Relaxed));
    r.nontrivial(nontrivial_cases.load(Ordering::Relaxed));
    r.counters.add("cases", all.len() as u64);
    r.counters.add("distinct_outcome_signatures", sigs.len() as u64);
    r.note("deviation_bound_completed", json!({"n<=2": bound_for(&Case { n: 1, ..all[0].clone() }), "n=3": bound_for(&Case { n: 3, ..all[0].clone() })}));
    r.note("max_choice_points", json!(max_points.load(Ordering::Relaxed)));
    r.note("replayed_for_determinism_audit", json!(r.traces_validated.load(Ordering::Relaxed)));
    r.note("outcome_signatures", json!(sigs.iter().take(40).collect::<Vec<_>>()));
    r.set_exhaustive(r.counters.get("capped_cases") == 0);
    if sigs.len() < 2 {
        vcore::machinery_error("vacuous: fewer than 2 distinct outcome signatures");
    }
    for c in all.iter().filter(|c| c.n == 3 && c.answer.len() == 2).take(2) {
        r.sample(c.to_json(&[]));
    }
    r.set_rule(&format!("E-ASYNC fault enumeration on the real Connection::router: n=1..3 requests in flight x ordered subsets of answered requests ({}) x EVERY cut offset 0..=len of the response byte stream x {{eof, read-error, write-error(+a later request), silence with keep-alive {KEEPALIVE_INTERVAL_MS}/{KEEPALIVE_TIMEOUT_MS}ms and virtual time advanced past both, silence after one answered keep-alive}} and, after every whole number of frames, x {{garbage header, version 3, client-direction bit, unknown opcode, frame on a stream nobody waits on, second answer on an answered stream, negative stream, event frame}}; plus the driver's own give-up (1030 abandoned requests unanswered for over a second) per answered subset; plus response bodies of 32767/32768/32769/40000/65535/65536/65537/100000 bytes written back-to-back with the next response in one delivery (unlimited / 4096 / 50000-byte reads) before the fault; plus 1..2 abandoned requests (orphaned ids) present at the fault x (frame on a never-used id, second answer on an answered id, late answer to the orphaned id itself - which must be tolerated -, garbage header, negative stream, eof, read error, silence); plus every io::ErrorKind in (ConnectionReset, ConnectionAborted, BrokenPipe, NotConnected, TimedOut, Interrupted, WouldBlock, UnexpectedEof, InvalidData, Other) for read and write errors; silence while the application keeps submitting a request every 100 ms, silence with an explicit keep-alive hint; a control connection (event sender) receiving well-formed events / a malformed event / a non-event on stream -1; exactly the tolerated number of old orphans (must survive) and one more (must give up); plus a FULL submit queue at the keep-alive tick (peer silent and not reading; submit-channel capacity 1 with 2..4 callers, and the real capacity read back through the hook + 8 callers); plus 'peer stops reading' (the stream accepts 0 / 5 / one frame / one frame + 5 request bytes, then writes stay pending; 1..2 callers with requests queued, unflushed or half-written; coalescing yield/off) x {{silence + keep-alive timeout, EOF, read error, garbage header, unsolicited stream}}; plus stream-id exhaustion x silent stall x keep-alive (router map pre-filled by 32768-j real allocate calls, j=0,1,2, 1..2 callers, every pre-filled handler must be failed too); x a late request after the fault; every case explored by E-DFS over task scheduling and fault timing (fault together with / after the bytes) up to deviation bound {bound} (n=3) / {} (n<=2). evaluations = executions; distinct_nontrivial = distinct cases in which at the fault some request was completely or partially answered while another (or the same) was still owed. replays for the determinism audit: 1 in {audit_every} executions, full observation trace compared.", "all 1+2+5+16 of them; write coalescing yield/off (thorough: +1ms, + keep-aliver armed during the other faults)", if thorough { bound } else { bound + 1 }));
    r.assume("write error alone is invisible to a router that has nothing to write: that kind always adds a later request, which must make the router notice");
    r.assume("select!-branch randomness inside the router is audited by trace-equal replays, not owned");
    r.finish();
}
