//! C02 leg A - E-BFS to a fixpoint on the real `ResponseHandlerMap` / `StreamIdSet` /
//! `OrphanageTracker` (hook H-CONN-MAP).
//!
//! The only model is the *environment*: the peer (which requests it holds, in which order it
//! answers) and the callers (when they go away, when their orphan notice reaches the router).
//! Every transition is applied to the real map through the hook and compared with what the
//! property demands:
//!   (i)   `allocate` never hands out a stream id the server still owes a response on
//!         (including ids whose caller was cancelled / orphaned);
//!   (ii)  `lookup` for the response to r gives r's own handler (the response sent through it
//!         arrives at r's receiver and nowhere else), or `Orphaned` iff r's notice was delivered
//!         while r was written-and-unanswered; never `Missing`, never another request's handler;
//!   (iii) after a break exactly the written, unanswered, un-orphaned requests' handlers come
//!         out, and every such caller that is still there holds an error;
//!   (iv)  a notice that arrives after the response (or for a request the map never saw) changes nothing.
//! Scenarios: empty map with at most K requests alive at once; and the map pre-filled with
//! 32768-j real `allocate` calls (j = 0,1,2) where the server may also answer a few chosen
//! background requests (ids 0, 63, 64, 32767, ...) so that refusal, free-then-reallocate of the
//! last ids and bitmap block boundaries are all inside the explored set.
use scylla::verif::conn as hook;
use serde_json::{Value, json};
use std::collections::BTreeSet;
use std::sync::atomic::{AtomicU64, Ordering};
use vcore::Report;
use h_drv::bfs_reuse::bfs;
use vcore::bfs::{BfsOpts, Model};

const BG_BASE: u64 = 1 << 40;
const RESULT: u8 = 0x08;

#[derive(Clone, Debug, PartialEq, Eq, Hash)]
enum Ev {
    Submit,
    Write(u64),
    Respond(u64),
    Cancel(u64),
    Notice(u64),
    Consume(u64),
    /// an orphan notice for a request id the map never saw (caller gone before enqueue)
    StrayNotice,
    /// virtual time passes: every stream id orphaned so far is now orphaned for longer than the driver's age threshold
    Clock,
    /// 61 s of virtual time pass: every orphan so far is now over a minute old
    ClockMinute,
    /// the server answers the background request on this stream (pre-filled scenarios)
    RespondBg(i16),
    /// a frame on a stream the server holds no request on; the router then breaks the connection
    Unsolicited(i16),
    Break,
}

impl Ev {
    fn to_s(&self) -> String {
        match self {
            Ev::Submit => "submit".into(),
            Ev::Write(r) => format!("write:{r}"),
            Ev::Respond(r) => format!("respond:{r}"),
            Ev::Cancel(r) => format!("cancel:{r}"),
            Ev::Notice(r) => format!("notice:{r}"),
            Ev::Consume(r) => format!("consume:{r}"),
            Ev::StrayNotice => "stray-notice".into(),
            Ev::Clock => "clock+1.1s".into(),
            Ev::ClockMinute => "clock+61s".into(),
            Ev::RespondBg(s) => format!("respond-bg:{s}"),
            Ev::Unsolicited(s) => format!("unsolicited:{s}"),
            Ev::Break => "break".into(),
        }
    }
    fn parse(s: &str) -> Option<Ev> {
        let (a, b) = s.split_once(':').unwrap_or((s, ""));
        Some(match a {
            "submit" => Ev::Submit,
            "write" => Ev::Write(b.parse().ok()?),
            "respond" => Ev::Respond(b.parse().ok()?),
            "cancel" => Ev::Cancel(b.parse().ok()?),
            "notice" => Ev::Notice(b.parse().ok()?),
            "consume" => Ev::Consume(b.parse().ok()?),
            "stray-notice" => Ev::StrayNotice,
            "clock+1.1s" => Ev::Clock,
            "clock+61s" => Ev::ClockMinute,
            "respond-bg" => Ev::RespondBg(b.parse().ok()?),
            "unsolicited" => Ev::Unsolicited(b.parse().ok()?),
            "break" => Ev::Break,
            _ => return None,
        })
    }
}

#[derive(Clone, Copy, Debug, PartialEq, Eq)]
enum Phase {
    Queued,
    Written,
    Answered,
    Refused,
}
#[derive(Clone, Copy, Debug, PartialEq, Eq)]
enum Caller {
    Live,
    /// future dropped, notice in flight
    Cancelled,
    /// notice reached the router
    Noticed,
}

struct Req {
    rid: u64,
    phase: Phase,
    caller: Caller,
    stream: Option<i16>,
    /// the notice was delivered while the request was written and unanswered
    orphaned: bool,
    /// ... and that was more than the age threshold ago
    orphan_old: bool,
    /// ... more than a minute ago
    orphan_ancient: bool,
    rx: Option<hook::HandlerRx>,
}

struct Obj {
    map: Option<Box<dyn hook::MapOps>>,
    bg: Option<Box<dyn hook::PrefillOps>>,
    /// background streams the server has answered
    bg_answered: BTreeSet<i16>,
    reqs: Vec<Req>,
    next_rid: u64,
    /// streams on which the server holds an unanswered request (the reference for invariant (i))
    owed: Vec<bool>,
    owed_count: usize,
    broken: bool,
    steps_nontrivial: bool,
    /// read-back of the map after the last transition
    snap: Option<hook::MapSnapshot>,
    /// the pre-fill itself went wrong (driver panic, an owed id handed out twice): reported by `check`/`apply`
    init_error: Option<String>,
    /// stream id -> index of the pre-filled background request written on it (-1: none)
    bg_index: Vec<i32>,
    /// paused tokio clock: `OrphanageTracker` stamps orphans with `tokio::time::Instant::now()`, which follows this
    /// runtime's virtual time whenever the runtime is entered
    rt: std::rc::Rc<tokio::runtime::Runtime>,
    /// the map's own `old_orphans_count()` after the last transition (kept in the canonical form)
    old_orphans: usize,
}

struct M {
    k: usize,
    prefill: usize,
    bg_candidates: Vec<i16>,
    bg_budget: usize,
    /// explore break / unsolicited-frame events (terminal; each costs a full into_handlers of the map)
    with_break: bool,
    /// lean alphabet (quick tier, pre-filled scenarios, where every transition costs a 32768-allocate rebuild): callers
    /// are dropped only while their request is written-and-unanswered, and an answered/refused request whose caller is
    /// still there is consumed at once. The dropped orders are explored by the empty scenario (and by the thorough tier).
    lean: bool,
    replays: AtomicU64,
    refusals: AtomicU64,
    clock_advances: AtomicU64,
    max_old_orphans: AtomicU64,
    old_count_disagreements: AtomicU64,
    spurious_refusals: AtomicU64,
    nontrivial: std::sync::Mutex<std::collections::HashSet<u64>>,
    orphaned_lookups: AtomicU64,
    handler_lookups: AtomicU64,
    dead_receiver_sends: AtomicU64,
    late_notices: AtomicU64,
    early_notices: AtomicU64,
    breaks: AtomicU64,
    max_stream: AtomicU64,
}

fn token(rid: u64) -> Vec<u8> {
    format!("response-for-request-{rid}").into_bytes()
}
fn response(stream: i16, rid: u64) -> hook::RawResponse {
    hook::RawResponse { version: 0x84, flags: 0, stream, opcode: RESULT, body: token(rid) }
}

impl M {
    fn new(k: usize, prefill: usize, bg_candidates: Vec<i16>, bg_budget: usize, with_break: bool, lean: bool) -> M {
        M {
            with_break,
            lean,
            k,
            prefill,
            bg_candidates,
            bg_budget,
            replays: AtomicU64::new(0),
            refusals: AtomicU64::new(0),
            clock_advances: AtomicU64::new(0),
            max_old_orphans: AtomicU64::new(0),
            old_count_disagreements: AtomicU64::new(0),
            spurious_refusals: AtomicU64::new(0),
            nontrivial: Default::default(),
            orphaned_lookups: AtomicU64::new(0),
            handler_lookups: AtomicU64::new(0),
            dead_receiver_sends: AtomicU64::new(0),
            late_notices: AtomicU64::new(0),
            early_notices: AtomicU64::new(0),
            breaks: AtomicU64::new(0),
            max_stream: AtomicU64::new(0),
        }
    }

    /// the read-back taken at the end of the last transition (nothing touches the map between transitions)
    fn snapshot_fg(&self, o: &Obj) -> Option<hook::MapSnapshot> {
        o.snap.clone()
    }
    /// read the map's collections back through the hook now
    fn fresh(&self, o: &Obj) -> Option<hook::MapSnapshot> {
        o.map.as_ref().map(|m| m.snapshot(self.listing(), BG_BASE))
    }
    /// how many ids the read-back lists individually (the allocated ones for small pre-fills, the free ones for (nearly) full maps)
    fn listing(&self) -> usize {
        if self.prefill <= 2048 { 4096 } else { 64 }
    }

    /// every other receiver must be untouched by an event that concerns request `except`
    fn others_untouched(&self, o: &mut Obj, except: Option<u64>) -> Result<(), String> {
        for q in o.reqs.iter_mut() {
            if Some(q.rid) == except {
                continue;
            }
            if let Some(rx) = q.rx.as_mut() {
                if q.phase == Phase::Queued || q.phase == Phase::Written {
                    match rx.poll() {
                        hook::RxPoll::Empty => {}
                        other => return Err(format!("misdelivery:unanswered-caller-got-something|caller of request {} (unanswered by the server) found {:?} in its receiver", q.rid, other)),
                    }
                }
            }
        }
        Ok(())
    }
}

impl Model for M {
    type Event = Ev;
    type Obj = Obj;

    fn init(&self) -> Obj {
        self.replays.fetch_add(1, Ordering::Relaxed);
        let rt = std::rc::Rc::new(tokio::runtime::Builder::new_current_thread().enable_time().start_paused(true).build().expect("runtime"));
        let _clock = rt.enter();
        let mut map = hook::new_map();
        let mut owed = vec![false; 32768];
        let mut owed_count = 0;
        let mut init_error = None;
        let mut bg_index = vec![-1i32; 32768];
        let bg = if self.prefill > 0 {
            match vcore::catch(std::panic::AssertUnwindSafe(|| map.prefill(self.prefill, BG_BASE))) {
                Ok(p) => {
                    for i in 0..p.len() {
                        let s = p.stream(i);
                        if s < 0 {
                            init_error.get_or_insert(format!("allocate:negative-id|allocate call {} of the pre-fill returned stream id {s}", i + 1));
                            continue;
                        }
                        if owed[s as usize] {
                            init_error.get_or_insert(format!("allocate:id-still-owed|allocate call {} of the pre-fill returned stream id {s}, which an earlier still unanswered request already carries", i + 1));
                            continue;
                        }
                        owed[s as usize] = true;
                        bg_index[s as usize] = i as i32;
                        owed_count += 1;
                    }
                    if p.len() < self.prefill && init_error.is_none() {
                        init_error = Some(format!("PRECONDITION|the pre-fill stopped after {} of {} allocate calls although ids are free (spurious refusal; the scenario cannot be set up)", p.len(), self.prefill));
                    }
                    Some(p)
                }
                Err(p) => {
                    init_error = Some(h_drv::router_harness::panic_complaint(&format!("pre-filling the map with {} allocate calls", self.prefill), &p));
                    // the map may be half-updated: continue with a fresh one, the error is reported at once
                    map = hook::new_map();
                    None
                }
            }
        } else {
            None
        };
        let snap = Some(map.snapshot(self.listing(), BG_BASE));
        Obj { map: Some(map), bg, bg_answered: BTreeSet::new(), reqs: Vec::new(), next_rid: 0, owed, owed_count, broken: false, steps_nontrivial: false, snap, init_error, bg_index, rt: rt.clone(), old_orphans: 0 }
    }

    fn enabled(&self, o: &Obj) -> Vec<Ev> {
        let mut v = Vec::new();
        if o.broken {
            return v;
        }
        if o.reqs.len() < self.k {
            v.push(Ev::Submit);
        }
        for q in &o.reqs {
            match q.phase {
                Phase::Queued => v.push(Ev::Write(q.rid)),
                Phase::Written => v.push(Ev::Respond(q.rid)),
                Phase::Answered | Phase::Refused => {
                    if q.caller == Caller::Live {
                        v.push(Ev::Consume(q.rid))
                    }
                }
            }
            match q.caller {
                Caller::Live if self.lean && q.phase != Phase::Written => {}
                Caller::Live => v.push(Ev::Cancel(q.rid)),
                Caller::Cancelled => v.push(Ev::Notice(q.rid)),
                Caller::Noticed => {}
            }
        }
        if o.reqs.iter().any(|q| q.orphaned && q.phase == Phase::Written && !q.orphan_old) {
            v.push(Ev::Clock);
        }
        if self.prefill <= 2048 && o.reqs.iter().any(|q| q.orphaned && q.phase == Phase::Written && !q.orphan_ancient) {
            v.push(Ev::ClockMinute);
        }
        if self.prefill == 0 {
            // (pre-filled scenarios: the stray notice is covered by the empty scenario; each transition there costs a 32768-allocate rebuild)
            v.push(Ev::StrayNotice);
        }
        if o.bg_answered.len() < self.bg_budget {
            for &s in &self.bg_candidates {
                if o.bg_index[s as usize] >= 0 && o.owed[s as usize] && !o.bg_answered.contains(&s) && !o.reqs.iter().any(|q| q.stream == Some(s) && q.phase == Phase::Written) {
                    v.push(Ev::RespondBg(s));
                }
            }
        }
        if !self.with_break {
            return v;
        }
        // unsolicited frame on the lowest and on the highest stream the server owes nothing on
        if o.owed_count < 32768 {
            let lo = (0..32768).find(|&s| !o.owed[s]).unwrap() as i16;
            let hi = (0..32768).rev().find(|&s| !o.owed[s]).unwrap() as i16;
            v.push(Ev::Unsolicited(lo));
            if hi != lo {
                v.push(Ev::Unsolicited(hi));
            }
        }
        v.push(Ev::Break);
        v
    }

    fn apply(&self, o: &mut Obj, ev: &Ev) -> Result<(), String> {
        if let Some(e) = &o.init_error {
            return Err(e.clone());
        }
        let rt = o.rt.clone();
        let _clock = rt.enter();
        let idx = |o: &Obj, rid: u64| o.reqs.iter().position(|q| q.rid == rid).ok_or_else(|| format!("harness|event {ev:?} names a request that is not alive"));
        match ev {
            Ev::Submit => {
                let rid = o.next_rid;
                o.next_rid += 1;
                o.reqs.push(Req { rid, phase: Phase::Queued, caller: Caller::Live, stream: None, orphaned: false, orphan_old: false, orphan_ancient: false, rx: None });
            }
            Ev::Write(rid) => {
                let i = idx(o, *rid)?;
                let was_cancelled = o.reqs[i].caller != Caller::Live;
                match o.map.as_mut().unwrap().allocate(*rid) {
                    hook::AllocOutcome::Stream(s, rx) => {
                        if s < 0 {
                            return Err(format!("allocate:negative-id|allocate returned stream id {s}"));
                        }
                        if o.owed[s as usize] {
                            let holder = o.reqs.iter().find(|q| q.stream == Some(s) && q.phase == Phase::Written).map(|q| format!("request {} (caller {:?}, orphaned={})", q.rid, q.caller, q.orphaned)).unwrap_or_else(|| "a pre-filled background request".into());
                            return Err(format!("allocate:id-still-owed|allocate gave request {rid} stream id {s}, on which the server still owes the response to {holder}"));
                        }
                        o.owed[s as usize] = true;
                        o.owed_count += 1;
                        self.max_stream.fetch_max(s as u64, Ordering::Relaxed);
                        let q = &mut o.reqs[i];
                        q.phase = Phase::Written;
                        q.stream = Some(s);
                        q.rx = if was_cancelled { None } else { Some(rx) };
                    }
                    hook::AllocOutcome::Refused { returned_request_id, rx, tx } => {
                        self.refusals.fetch_add(1, Ordering::Relaxed);
                        if returned_request_id != *rid {
                            return Err(format!("allocate:refusal-returns-other-handler|allocate refused request {rid} but handed back the handler of request {returned_request_id}"));
                        }
                        if o.owed_count < 32768 {
                            // not a C02 violation (safety only); recorded so that a spurious refusal is visible
                            self.spurious_refusals.fetch_add(1, Ordering::Relaxed);
                        }
                        drop(tx);
                        let q = &mut o.reqs[i];
                        q.phase = Phase::Refused;
                        q.rx = if was_cancelled { None } else { Some(rx) };
                    }
                }
                self.others_untouched(o, Some(*rid))?;
            }
            Ev::Respond(rid) => {
                let i = idx(o, *rid)?;
                let s = o.reqs[i].stream.unwrap();
                let outcome = o.map.as_mut().unwrap().lookup(s);
                o.owed[s as usize] = false;
                o.owed_count -= 1;
                let orphaned = o.reqs[i].orphaned;
                match outcome {
                    hook::LookupOutcome::Missing => {
                        return Err(format!("lookup:missing-for-held-request|the response to request {rid} on stream {s} found no handler and no orphan mark (caller {:?}, orphaned={orphaned})", o.reqs[i].caller));
                    }
                    hook::LookupOutcome::Orphaned => {
                        if !orphaned {
                            return Err(format!("lookup:orphaned-for-waiting-request|the response to request {rid} on stream {s} was discarded as orphaned although its caller's notice was never delivered while it was written (caller {:?})", o.reqs[i].caller));
                        }
                        self.orphaned_lookups.fetch_add(1, Ordering::Relaxed);
                    }
                    hook::LookupOutcome::Handler(tx) => {
                        if tx.request_id() != *rid {
                            return Err(format!("lookup:wrong-handler|the response to request {rid} on stream {s} was matched with the handler of request {}", tx.request_id()));
                        }
                        if orphaned {
                            return Err(format!("lookup:handler-after-orphan|request {rid} was orphaned while written, yet lookup still produced a handler"));
                        }
                        self.handler_lookups.fetch_add(1, Ordering::Relaxed);
                        let delivered = tx.send_response(response(s, *rid));
                        let q = &mut o.reqs[i];
                        match q.rx.as_mut() {
                            Some(rx) => {
                                if !delivered {
                                    return Err(format!("deliver:send-failed-with-live-receiver|response to request {rid} could not be sent though its receiver is alive"));
                                }
                                match rx.poll() {
                                    hook::RxPoll::Response(r) if r.body == token(*rid) && r.stream == s => {}
                                    other => return Err(format!("misdelivery:wrong-content|caller of request {rid} received {other:?} instead of its own response")),
                                }
                            }
                            None => {
                                if delivered {
                                    return Err(format!("misdelivery:someone-else-received|response to request {rid}, whose caller is gone, was accepted by a live receiver"));
                                }
                                self.dead_receiver_sends.fetch_add(1, Ordering::Relaxed);
                            }
                        }
                    }
                }
                o.reqs[i].phase = Phase::Answered;
                self.others_untouched(o, Some(*rid))?;
            }
            Ev::Cancel(rid) => {
                let i = idx(o, *rid)?;
                o.reqs[i].caller = Caller::Cancelled;
                o.reqs[i].rx = None;
            }
            Ev::Notice(rid) => {
                let i = idx(o, *rid)?;
                let before = self.snapshot_fg(o);
                o.map.as_mut().unwrap().orphan(*rid);
                let q = &mut o.reqs[i];
                q.caller = Caller::Noticed;
                match q.phase {
                    Phase::Written => q.orphaned = true,
                    Phase::Queued => {
                        self.early_notices.fetch_add(1, Ordering::Relaxed);
                    }
                    Phase::Answered | Phase::Refused => {
                        self.late_notices.fetch_add(1, Ordering::Relaxed);
                    }
                }
                if q.phase != Phase::Written {
                    let after = self.fresh(o);
                    if before != after {
                        return Err(format!("orphan:late-or-early-notice-changed-map|the notice for request {rid} in phase {:?} changed the map: before {before:?} after {after:?}", o.reqs[i].phase));
                    }
                }
                self.others_untouched(o, None)?;
            }
            Ev::Consume(rid) => {
                let i = idx(o, *rid)?;
                o.reqs[i].caller = Caller::Noticed; // notifier disabled: nothing more will come from this caller
                o.reqs[i].rx = None;
            }
            Ev::Clock => {
                rt.block_on(async { tokio::time::advance(hook::orphan_limits().1 + std::time::Duration::from_millis(100)).await });
                self.clock_advances.fetch_add(1, Ordering::Relaxed);
                for q in o.reqs.iter_mut() {
                    if q.orphaned && q.phase == Phase::Written {
                        q.orphan_old = true;
                    }
                }
            }
            Ev::ClockMinute => {
                rt.block_on(async { tokio::time::advance(std::time::Duration::from_secs(61)).await });
                self.clock_advances.fetch_add(1, Ordering::Relaxed);
                for q in o.reqs.iter_mut() {
                    if q.orphaned && q.phase == Phase::Written {
                        q.orphan_old = true;
                        q.orphan_ancient = true;
                    }
                }
            }
            Ev::StrayNotice => {
                let before = self.snapshot_fg(o);
                o.map.as_mut().unwrap().orphan(1 << 50);
                let after = self.fresh(o);
                if before != after {
                    return Err(format!("orphan:unknown-request-changed-map|a notice for a request id the map never saw changed it: before {before:?} after {after:?}"));
                }
            }
            Ev::RespondBg(s) => {
                let outcome = o.map.as_mut().unwrap().lookup(*s);
                o.owed[*s as usize] = false;
                o.owed_count -= 1;
                o.bg_answered.insert(*s);
                let bg_i = o.bg_index[*s as usize];
                if bg_i < 0 {
                    return Err(format!("harness|respond-bg:{s} but no pre-filled request travels on that stream"));
                }
                let want_rid = BG_BASE + bg_i as u64;
                match outcome {
                    hook::LookupOutcome::Handler(tx) if tx.request_id() == want_rid => {
                        tx.send_response(response(*s, want_rid));
                        let bg = o.bg.as_mut().unwrap();
                        match bg.poll(bg_i as usize) {
                            hook::RxPoll::Response(r) if r.body == token(want_rid) => {}
                            other => return Err(format!("misdelivery:wrong-content|background caller on stream {s} received {other:?}")),
                        }
                    }
                    hook::LookupOutcome::Handler(tx) => return Err(format!("lookup:wrong-handler|response on background stream {s} matched the handler of request {}", tx.request_id())),
                    hook::LookupOutcome::Orphaned => return Err(format!("lookup:orphaned-for-waiting-request|response on background stream {s} was discarded as orphaned")),
                    hook::LookupOutcome::Missing => return Err(format!("lookup:missing-for-held-request|response on background stream {s} found no handler")),
                }
                self.others_untouched(o, None)?;
            }
            Ev::Unsolicited(s) => {
                match o.map.as_mut().unwrap().lookup(*s) {
                    hook::LookupOutcome::Missing => {}
                    hook::LookupOutcome::Orphaned => return Err(format!("lookup:unsolicited-taken-as-orphan|a frame on stream {s}, on which the server holds nothing, was accepted as the answer to an orphaned request")),
                    hook::LookupOutcome::Handler(tx) => return Err(format!("lookup:unsolicited-reaches-caller|a frame on stream {s}, on which the server holds nothing, was matched with the handler of request {}", tx.request_id())),
                }
                self.do_break(o)?;
            }
            Ev::Break => self.do_break(o)?,
        }
        if self.lean {
            for q in o.reqs.iter_mut() {
                if matches!(q.phase, Phase::Answered | Phase::Refused) && q.caller == Caller::Live {
                    q.caller = Caller::Noticed;
                    q.rx = None;
                }
            }
        }
        // a request that is answered (or refused) and from whose caller nothing more can come is over -
        // unless the map still mentions it (then it stays, so that the canonical form hides nothing)
        if !o.broken {
            let snap = self.fresh(o).unwrap();
            o.reqs.retain(|q| {
                let over = matches!(q.phase, Phase::Answered | Phase::Refused) && q.caller == Caller::Noticed;
                let mentioned = snap.request_to_stream.iter().any(|(r, _)| *r == q.rid) || snap.handlers.iter().any(|(_, r)| *r == q.rid);
                !(over && !mentioned)
            });
            o.snap = Some(snap);
            o.old_orphans = o.map.as_ref().unwrap().old_orphans_count();
            self.max_old_orphans.fetch_max(o.old_orphans as u64, Ordering::Relaxed);
            let model_old = o.reqs.iter().filter(|q| q.orphaned && q.orphan_old && q.phase == Phase::Written).count();
            if model_old != o.old_orphans {
                self.old_count_disagreements.fetch_add(1, Ordering::Relaxed);
            }
        } else {
            o.snap = None;
        }
        o.steps_nontrivial = o.reqs.iter().any(|q| q.phase == Phase::Written && q.caller == Caller::Cancelled);
        Ok(())
    }

    fn check(&self, o: &Obj) -> Result<(), String> {
        if let Some(e) = &o.init_error {
            return Err(e.clone());
        }
        if o.broken {
            return Ok(());
        }
        let snap = self.snapshot_fg(o).unwrap();
        // reserved ids vs. ids the server owes a response on
        if snap.allocated_count < o.owed_count {
            return Err(format!("reserved:owed-id-not-reserved|{} ids are owed by the server but only {} are reserved", o.owed_count, snap.allocated_count));
        }
        let reserved_is = |s: i16| -> bool {
            if snap.allocated.len() == snap.allocated_count {
                snap.allocated.binary_search(&s).is_ok()
            } else if snap.free.len() == 32768 - snap.allocated_count {
                snap.free.binary_search(&s).is_err()
            } else {
                true // neither side is listed (cannot happen with the listing limits used)
            }
        };
        for q in &o.reqs {
            if q.phase == Phase::Written {
                let s = q.stream.unwrap();
                if !reserved_is(s) {
                    return Err(format!("reserved:owed-id-not-reserved|stream {s} of request {} (caller {:?}, orphaned={}) is unanswered by the server but no longer reserved", q.rid, q.caller, q.orphaned));
                }
            }
        }
        if snap.allocated_count > o.owed_count {
            return Err(format!("LEAK|{} ids reserved but the server owes only {} responses (snapshot {:?})", snap.allocated_count, o.owed_count, if self.prefill == 0 { format!("{snap:?}") } else { format!("free={:?}", snap.free) }));
        }
        Ok(())
    }

    fn canon(&self, o: &Obj) -> Vec<u8> {
        // request ids relabelled by rank among the alive requests (the map uses them only for equality)
        let mut rids: Vec<u64> = o.reqs.iter().map(|q| q.rid).collect();
        rids.sort_unstable();
        let rank = |r: u64| -> i64 {
            if r >= BG_BASE {
                return -2 - (r - BG_BASE) as i64;
            }
            rids.binary_search(&r).map(|x| x as i64).unwrap_or(-1)
        };
        let mut s = String::new();
        if o.broken {
            return b"broken".to_vec();
        }
        let mut rs: Vec<&Req> = o.reqs.iter().collect();
        rs.sort_by_key(|q| q.rid);
        for q in rs {
            s.push_str(&format!("{}:{:?}:{:?}:{:?}:{}:{}:{};", rank(q.rid), q.phase, q.caller, q.stream, q.orphaned, q.orphan_old, q.orphan_ancient));
        }
        let snap = self.snapshot_fg(o).unwrap();
        s.push_str(&format!("|n={}|", snap.allocated_count));
        if self.prefill == 0 {
            s.push_str(&format!("a={:?}|h={:?}|m={:?}", snap.allocated, snap.handlers.iter().map(|(st, r)| (*st, rank(*r))).collect::<Vec<_>>(), snap.request_to_stream.iter().map(|(r, st)| (rank(*r), *st)).collect::<Vec<_>>()));
        } else {
            // background entries (request ids >= BG_BASE) are counted by the hook, not listed; which of them were
            // answered is in bg_answered, and their handler identity is checked whenever one is taken out
            let h: Vec<(i16, i64)> = snap.handlers.iter().map(|(st, r)| (*st, rank(*r))).collect();
            let m: Vec<(i64, i16)> = snap.request_to_stream.iter().map(|(r, st)| (rank(*r), *st)).collect();
            s.push_str(&format!("f={:?}|bga={:?}|nbg={},{}|h={:?}|m={:?}", snap.free, o.bg_answered, snap.hidden_handlers, snap.hidden_request_to_stream, h, m));
            if snap.allocated.len() == snap.allocated_count && snap.allocated_count <= 4096 {
                s.push_str(&format!("|a={:?}", snap.allocated));
            }
        }
        s.push_str(&format!("|o={:?}|t={:?}|old={}", snap.orphans, snap.orphans_by_time, o.old_orphans));
        if o.steps_nontrivial {
            self.nontrivial.lock().unwrap().insert(vcore::fnv64(s.as_bytes()));
        }
        s.into_bytes()
    }
}

impl M {
    fn do_break(&self, o: &mut Obj) -> Result<(), String> {
        self.breaks.fetch_add(1, Ordering::Relaxed);
        let handlers = o.map.take().unwrap().into_handlers();
        o.broken = true;
        // expected: written, unanswered, not orphaned (foreground) + unanswered background
        let mut want: BTreeSet<u64> = o.reqs.iter().filter(|q| q.phase == Phase::Written && !q.orphaned).map(|q| q.rid).collect();
        if let Some(bg) = o.bg.as_ref() {
            for i in 0..bg.len() {
                if !o.bg_answered.contains(&bg.stream(i)) {
                    want.insert(bg.request_id(i));
                }
            }
        }
        let got: BTreeSet<u64> = handlers.iter().map(|(_, h)| h.request_id()).collect();
        if got != want {
            let missing: Vec<&u64> = want.difference(&got).take(4).collect();
            let extra: Vec<&u64> = got.difference(&want).take(4).collect();
            return Err(format!("break:handler-set|after the break the handlers to fail are not exactly the written, unanswered, un-orphaned requests: missing {missing:?}, unexpected {extra:?}"));
        }
        for (s, h) in handlers {
            let rid = h.request_id();
            if rid < BG_BASE {
                let q = o.reqs.iter().find(|q| q.rid == rid).unwrap();
                if q.stream != Some(s) {
                    return Err(format!("break:handler-on-wrong-stream|handler of request {rid} sits on stream {s}, the request was written on {:?}", q.stream));
                }
            }
            let sent = h.send_broken();
            if rid >= BG_BASE {
                let i = (rid - BG_BASE) as usize;
                match o.bg.as_mut().unwrap().poll(i) {
                    hook::RxPoll::Error(e) if e.kind == hook::SendErrorKind::BrokenConnection => {}
                    other => return Err(format!("break:caller-without-error|background caller {i} holds {other:?} after the break")),
                }
                continue;
            }
            let q = o.reqs.iter_mut().find(|q| q.rid == rid).unwrap();
            match q.rx.as_mut() {
                Some(rx) => match rx.poll() {
                    hook::RxPoll::Error(e) if sent && e.kind == hook::SendErrorKind::BrokenConnection => {}
                    other => return Err(format!("break:caller-without-error|caller of request {rid} holds {other:?} after the break")),
                },
                None => {
                    if sent {
                        return Err(format!("break:error-to-stranger|the error for request {rid}, whose caller is gone, was accepted by a live receiver"));
                    }
                }
            }
        }
        // nobody else may hold anything: queued requests' receivers do not exist yet; answered ones were checked on delivery
        Ok(())
    }
}

struct Scenario {
    lean: bool,
    with_break: bool,
    name: String,
    k: usize,
    prefill: usize,
    bg_candidates: Vec<i16>,
    bg_budget: usize,
}

fn scenarios(thorough: bool) -> Vec<Scenario> {
    let mut v = vec![Scenario { lean: false, with_break: true, name: "empty".into(), k: if thorough { 4 } else { 3 }, prefill: 0, bg_candidates: vec![], bg_budget: 0 }];
    // more than 64 / more than 128 / 200 ids owed at once (first, second and third bitmap block full), the peer then
    // answers ids inside block 0 and at the block borders: every id handed out afterwards must not be owed
    for p in if thorough { vec![65usize, 129, 200] } else { vec![65usize, 129] } {
        v.push(Scenario { lean: !thorough, with_break: thorough, name: format!("prefill-{p}"), k: 2, prefill: p, bg_candidates: vec![0, 1, 63, 64, 128], bg_budget: 2 });
    }
    for j in 0..=2usize {
        if thorough {
            // full alphabet with break, two requests alive, one background answer out of eight boundary ids
            v.push(Scenario { lean: false, with_break: true, name: format!("prefill-32768-minus-{j}-full-k2"), k: 2, prefill: 32768 - j, bg_candidates: vec![0, 63, 64, 127, 128, 32765, 32766, 32767], bg_budget: 1 });
            // three requests alive with the lean alphabet
            v.push(Scenario { lean: true, with_break: false, name: format!("prefill-32768-minus-{j}-lean-k3"), k: 3, prefill: 32768 - j, bg_candidates: vec![0, 63, 64, 32767], bg_budget: 1 });
        } else {
            // (quick: j = 0 and 1; with two requests alive j = 2 never refuses, it is left to the thorough tier)
            if j < 2 {
                v.push(Scenario { lean: true, with_break: false, name: format!("prefill-32768-minus-{j}"), k: 2, prefill: 32768 - j, bg_candidates: vec![0, 63, 64, 32767], bg_budget: 1 });
            }
        }
    }
    v
}

fn key_of(what: &str) -> (String, String) {
    match what.split_once('|') {
        Some((k, t)) => (k.to_string(), t.to_string()),
        None => ("other".into(), what.to_string()),
    }
}

fn run_history(m: &M, events: &[Ev], verbose: bool) -> Result<(), String> {
    let mut o = m.init();
    m.check(&o)?;
    for e in events {
        m.apply(&mut o, e)?;
        m.check(&o)?;
        if verbose {
            println!("  {:<16} -> {}", e.to_s(), String::from_utf8_lossy(&m.canon(&o)));
        }
    }
    Ok(())
}

fn case_json(sc: &Scenario, hist: &[Ev]) -> Value {
    json!({"leg":"A","scenario":sc.name,"k":sc.k,"prefill":sc.prefill,"bg_candidates":sc.bg_candidates,"bg_budget":sc.bg_budget,"lean":sc.lean,"events":hist.iter().map(|e| e.to_s()).collect::<Vec<_>>()})
}

fn main() {
    vcore::quiet_panics();
    // The pre-filled scenarios build and drop ~32768 channels per replay on every worker thread; keep glibc from
    // returning that memory to the kernel each time (pure performance setting, no effect on what is explored).
    unsafe {
        libc::mallopt(libc::M_MMAP_THRESHOLD, 1 << 30);
        libc::mallopt(libc::M_TRIM_THRESHOLD, i32::MAX);
        libc::mallopt(libc::M_TOP_PAD, 64 << 20);
    }
    let r = Report::new("C02", "map-bfs", "model_checking", "E-BFS");
    if let Some(case) = r.replay_case() {
        let m = M::new(
            case["k"].as_u64().unwrap_or(3) as usize,
            case["prefill"].as_u64().unwrap_or(0) as usize,
            case["bg_candidates"].as_array().map(|a| a.iter().filter_map(|x| x.as_i64()).map(|x| x as i16).collect()).unwrap_or_default(),
            case["bg_budget"].as_u64().unwrap_or(0) as usize,
            true,
            case["lean"].as_bool().unwrap_or(false),
        );
        let evs: Vec<Ev> = case["events"].as_array().map(|a| a.iter().filter_map(|x| x.as_str()).filter_map(Ev::parse).collect()).unwrap_or_default();
        println!("replaying {} events on a fresh real ResponseHandlerMap (prefill {})", evs.len(), m.prefill);
        match vcore::catch(std::panic::AssertUnwindSafe(|| run_history(&m, &evs, true))) {
            Ok(Ok(())) => {}
            Ok(Err(w)) => {
                let (k, t) = key_of(&w);
                r.violation(&k, &t, case.clone());
            }
            Err(p) => {
                let (k, t) = key_of(&h_drv::router_harness::panic_complaint("replaying the history on the real handler map", &p));
                r.violation(&k, &t, case.clone());
            }
        }
        r.finish_replay();
    }
    if r.args.has_flag("--bench-init") {
        let m = M::new(2, 32768, vec![0], 1, true, false);
        for _ in 0..3 {
            let t = std::time::Instant::now();
            let mut o = m.init();
            let t1 = t.elapsed();
            let _ = m.snapshot_fg(&o);
            let t2 = t.elapsed();
            m.apply(&mut o, &Ev::Submit).unwrap();
            m.apply(&mut o, &Ev::Write(0)).unwrap();
            let t3 = t.elapsed();
            m.apply(&mut o, &Ev::Break).unwrap();
            let t4 = t.elapsed();
            drop(o);
            println!("init {:?} snapshot {:?} 2 events {:?} break {:?} drop {:?}", t1, t2 - t1, t3 - t2, t4 - t3, t.elapsed() - t4);
        }
        std::process::exit(0);
    }
    let thorough = r.tier().is_thorough();
    let jobs = r.args.jobs;
    let all_fixpoint_flag = std::sync::atomic::AtomicBool::new(true);
    let per_scenario_m: std::sync::Mutex<Vec<(usize, Value)>> = std::sync::Mutex::new(Vec::new());
    let r_owned = r;
    let r = &r_owned;
    // the scenarios run side by side (each BFS layer is parallel inside too): the shallow layers of the pre-filled
    // scenarios have few states but cost a 32768-allocate rebuild per transition
    let scs = scenarios(thorough);
    std::thread::scope(|scope| {
    for (sc_idx, sc) in scs.iter().enumerate() {
    let all_fixpoint_flag = &all_fixpoint_flag;
    let per_scenario_m = &per_scenario_m;
    scope.spawn(move || {
        let m = M::new(sc.k, sc.prefill, sc.bg_candidates.clone(), sc.bg_budget, sc.with_break, sc.lean);
        let opts = BfsOpts { max_depth: 200, max_states: 3_000_000, wall: std::time::Duration::from_secs(if thorough { 2400 } else { 55 }), jobs, max_violations: 8 };
        let t0 = std::time::Instant::now();
        let res = bfs(&CatchModel(&m), &opts);
        for v in &res.violations {
            let (k, t) = key_of(&v.what);
            if k == "PRECONDITION" || k == "harness" {
                vcore::machinery_error(&format!("scenario {}: {t}", sc.name));
            }
            if k == "LEAK" {
                vcore::machinery_error(&format!("scenario {}: the reachable space is not finite - stream ids stay reserved after the server answered (not a C02 violation, but the fixpoint search cannot decide): {t}; history {:?}", sc.name, v.history.iter().map(|e| e.to_s()).collect::<Vec<_>>()));
            }
            if v.what.starts_with("REPLAY-DIVERGENCE") {
                vcore::machinery_error(&format!("scenario {}: {}", sc.name, v.what));
            }
            let hist: Vec<String> = v.history.iter().map(|e| e.to_s()).collect();
            r.violation(&k, &format!("[{}] {t}; history: {}", sc.name, hist.join(" ")), case_json(sc, &v.history));
        }
        r.states.fetch_add(res.states, Ordering::Relaxed);
        r.transitions.fetch_add(res.transitions, Ordering::Relaxed);
        r.eval(res.transitions);
        let replays = m.replays.load(Ordering::Relaxed);
        r.traces_validated.fetch_add(replays, Ordering::Relaxed);
        if !res.fixpoint {
            all_fixpoint_flag.store(false, Ordering::Relaxed);
        }
        // thorough: second run with a different thread count must give identical counts (racy dedup guard)
        if thorough && res.violations.is_empty() && sc.prefill == 0 {
            let m2 = M::new(sc.k, sc.prefill, sc.bg_candidates.clone(), sc.bg_budget, sc.with_break, sc.lean);
            let res2 = bfs(&CatchModel(&m2), &BfsOpts { jobs: (jobs / 2).max(1) | 1, ..opts });
            if (res2.states, res2.transitions, res2.max_depth) != (res.states, res.transitions, res.max_depth) {
                vcore::machinery_error(&format!("scenario {}: BFS counts differ between thread counts: {:?} vs {:?}", sc.name, (res.states, res.transitions), (res2.states, res2.transitions)));
            }
            r.traces_validated.fetch_add(m2.replays.load(Ordering::Relaxed), Ordering::Relaxed);
            r.counters.add("bfs_runs_cross_checked_with_other_thread_count", 1);
        }
        // distinct nontrivial states: a response is owed AND the caller's notice is in flight for the same stream
        r.nontrivial(m.nontrivial.lock().unwrap().len() as u64);
        r.counters.add("refusals_while_ids_free(not a C02 violation)", m.spurious_refusals.load(Ordering::Relaxed));
        r.counters.add("allocate_refusals", m.refusals.load(Ordering::Relaxed));
        r.counters.add("clock_advances_past_orphan_age", m.clock_advances.load(Ordering::Relaxed));
        r.counters.max("max_old_orphans_count_read_back", m.max_old_orphans.load(Ordering::Relaxed));
        r.counters.add("old_orphan_count_differs_from_model(not a C02 violation)", m.old_count_disagreements.load(Ordering::Relaxed));
        r.counters.add("lookups_orphaned", m.orphaned_lookups.load(Ordering::Relaxed));
        r.counters.add("lookups_handler", m.handler_lookups.load(Ordering::Relaxed));
        r.counters.add("responses_to_dead_receivers", m.dead_receiver_sends.load(Ordering::Relaxed));
        r.counters.add("late_notices_checked_noop", m.late_notices.load(Ordering::Relaxed));
        r.counters.add("early_notices_checked_noop", m.early_notices.load(Ordering::Relaxed));
        r.counters.add("breaks", m.breaks.load(Ordering::Relaxed));
        r.counters.max("max_stream_id_allocated", m.max_stream.load(Ordering::Relaxed));
        println!(
            "scenario {:<26} K={} states={} transitions={} depth={} fixpoint={} capped={:?} replays={} wall={:.1}s",
            sc.name,
            sc.k,
            res.states,
            res.transitions,
            res.max_depth,
            res.fixpoint,
            res.capped,
            replays,
            t0.elapsed().as_secs_f64()
        );
        per_scenario_m.lock().unwrap().push((sc_idx, json!({"scenario":sc.name,"k":sc.k,"prefill":sc.prefill,"states":res.states,"transitions":res.transitions,"max_depth":res.max_depth,"fixpoint":res.fixpoint,"capped":res.capped,"states_per_depth":res.states_per_depth,"wall_s":t0.elapsed().as_secs_f64()})));
        if let Some(h) = res.sample_histories.first() {
            r.sample(case_json(sc, h));
        }
        if res.fixpoint && res.max_depth < 3 {
            vcore::machinery_error(&format!("scenario {}: frontier emptied at depth {} - vacuous", sc.name, res.max_depth));
        }
    });
    }
    });
    let all_fixpoint = all_fixpoint_flag.load(Ordering::Relaxed);
    let mut per_scenario = per_scenario_m.into_inner().unwrap();
    per_scenario.sort_by_key(|(i, _)| *i);
    let per_scenario: Vec<Value> = per_scenario.into_iter().map(|(_, v)| v).collect();
    r.note("scenarios", json!(per_scenario));
    r.note("fixpoint_all_scenarios", json!(all_fixpoint));
    r.set_exhaustive(all_fixpoint);
    r.set_rule("E-BFS to a fixpoint over environment events {submit, write(allocate), respond(lookup + send through the returned handler), cancel, deliver-notice(orphan), clock +1.1 s / +61 s (virtual: all orphans so far become 'old' / 'over a minute old'), consume, stray notice, answer a pre-filled background request, unsolicited frame(lookup)+break, break(into_handlers)} on the real ResponseHandlerMap; at most K requests alive at once; canonical form = per-request (phase, caller, stream, orphaned) with request ids relabelled by rank + the map's four collections read back through the hook (orphaning Instants as an 'old' bit per orphan plus the map's own old_orphans_count: the tracker's tokio clock is a paused runtime owned by the harness). transitions = evaluations. distinct_nontrivial = distinct states in which some stream has BOTH a response owed by the server and its caller's cancellation notice in flight. traces_validated_against_impl = event histories replayed step-checked on a fresh real map (BFS rebuilds every state from its history; thorough adds a full second run of the empty scenario with another thread count).");
    r.assume("request ids matter to the map only through equality (relabelling by rank is sound); OrphanageTracker timestamps are not part of the canonical form because none of the explored events reads them");
    r.assume("a spurious refusal (allocate fails while ids are free) or an id leak is not a C02 safety violation; a leak makes the space infinite and is reported as a machinery error, not a verdict");
    r_owned.finish();
}

/// wraps the model so that a panic inside the real map (e.g. its `assert!(prev_handler.is_none())`) is a reported outcome
struct CatchModel<'a>(&'a M);
impl Model for CatchModel<'_> {
    type Event = Ev;
    type Obj = Obj;
    fn init(&self) -> Obj {
        self.0.init()
    }
    fn enabled(&self, o: &Obj) -> Vec<Ev> {
        self.0.enabled(o)
    }
    fn apply(&self, o: &mut Obj, ev: &Ev) -> Result<(), String> {
        match vcore::catch(std::panic::AssertUnwindSafe(|| self.0.apply(o, ev))) {
            Ok(x) => x,
            Err(p) => Err(h_drv::router_harness::panic_complaint(&format!("event {} on the real handler map", ev.to_s()), &p)),
        }
    }
    fn check(&self, o: &Obj) -> Result<(), String> {
        self.0.check(o)
    }
    fn canon(&self, o: &Obj) -> Vec<u8> {
        self.0.canon(o)
    }
}
