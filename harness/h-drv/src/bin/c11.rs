//! C11 - shard of a token and shard-aware source ports match ScyllaDB's algorithm.
//! Engine E-ENUM: bounded-exhaustive enumeration against `cqlref::shard`.
//!   leg shard:  all shard counts x all 64 msb values x boundary-heavy token alphabet
//!   leg ports:  shard counts x [lo,hi] ranges x every shard, iterator/draw/inverse vs reference set
//!   leg info:   SUPPORTED option maps with each entry missing/empty/garbage/0/shard>=count
use scylla::routing::{ShardAwarePortRange, ShardCount, Sharder, Token};
use scylla::verif::misc as hook;
use serde_json::json;
use std::collections::{BTreeSet, HashMap};
use vcore::{Report, catch};

fn token_alphabet() -> Vec<i64> {
    let mut t: BTreeSet<i64> = [i64::MIN, i64::MIN + 1, -1, 0, 1, i64::MAX - 1, i64::MAX].into_iter().collect();
    for k in 0..63 {
        let p = 1i64 << k;
        for v in [p, p - 1, p + 1, -p, -p - 1, -p + 1] {
            t.insert(v);
        }
    }
    t.into_iter().collect()
}

fn check_shard_of(r: &Report, nr: u16, msb: u8, tok: i64) {
    let s = Sharder::new(ShardCount::new(nr).unwrap(), msb);
    // Token::new normalises i64::MIN (not a valid ring token) to i64::MAX; the reference is asked
    // about the token value the driver actually holds.
    let token = Token::new(tok);
    let want = cqlref::shard::shard_of(token.value(), nr, msb);
    let got = catch(|| s.shard_of(token));
    r.eval(1);
    match got {
        Ok(g) if g == want && g < nr as u32 => {}
        Ok(g) => r.violation(
            "shard_of:mismatch",
            &format!("shard_of(token={tok}, nr_shards={nr}, msb_ignore={msb}) = {g}, ScyllaDB computes {want}"),
            json!({"leg":"shard","nr_shards":nr,"msb_ignore":msb,"token":tok}),
        ),
        Err(p) => r.violation(
            "shard_of:panic",
            &format!("shard_of(token={tok}, nr_shards={nr}, msb_ignore={msb}) panicked: {p}"),
            json!({"leg":"shard","nr_shards":nr,"msb_ignore":msb,"token":tok}),
        ),
    }
}

fn check_ports(r: &Report, nr: u16, lo: u16, hi: u16, shard: u16) {
    let case = json!({"leg":"ports","nr_shards":nr,"lo":lo,"hi":hi,"shard":shard});
    let s = Sharder::new(ShardCount::new(nr).unwrap(), 0);
    let range = match ShardAwarePortRange::new(lo..=hi) {
        Ok(x) => x,
        Err(_) => {
            r.violation("ports:range-refused", &format!("valid range [{lo},{hi}] refused"), case);
            return;
        }
    };
    let want = cqlref::shard::ports_for_shard(lo, hi, nr, shard);
    r.eval(1);
    if want.len() >= 2 {
        r.nontrivial(1);
    }
    r.counters.add(if want.is_empty() { "port_cases_empty_set" } else { "port_cases_nonempty_set" }, 1);
    // iterator: visits every such port exactly once, nothing else
    match catch(|| hook::iter_source_ports_for_shard_from_range(&s, shard as u32, &range)) {
        Err(p) => {
            r.violation("ports:iter-panic", &format!("iterator panicked for {case}: {p}"), case.clone());
            return;
        }
        Ok(got) => {
            let mut sorted = got.clone();
            sorted.sort_unstable();
            if sorted != want {
                r.violation(
                    "ports:iter-set",
                    &format!("iterator for {case} yields {:?}.. ({} ports), reference set has {} ports {:?}..", &got[..got.len().min(6)], got.len(), want.len(), &want[..want.len().min(6)]),
                    case.clone(),
                );
                return;
            }
            // rotation: the sequence must be the ascending list rotated (starts at a random pivot, wraps once)
            if !got.is_empty() {
                let pivot = want.iter().position(|p| *p == got[0]).unwrap();
                let rotated: Vec<u16> = want[pivot..].iter().chain(want[..pivot].iter()).copied().collect();
                if rotated != got {
                    r.violation("ports:iter-order", &format!("iterator for {case} is not a single wrap-around walk"), case.clone());
                    return;
                }
            }
        }
    }
    // draw (thread RNG: sampled dimension, membership oracle holds for every RNG answer)
    for _ in 0..3 {
        match catch(|| hook::draw_source_port_for_shard_from_range(&s, shard as u32, &range)) {
            Err(p) => {
                r.violation("ports:draw-panic", &format!("draw panicked for {case}: {p}"), case.clone());
                return;
            }
            Ok(None) if want.is_empty() => {}
            Ok(None) => {
                r.violation("ports:draw-none", &format!("draw for {case} produced nothing though {} ports exist", want.len()), case.clone());
                return;
            }
            Ok(Some(p)) => {
                if want.binary_search(&p).is_err() {
                    r.violation("ports:draw-member", &format!("draw for {case} produced {p}: outside the range or not congruent to the shard"), case.clone());
                    return;
                }
                if s.shard_of_source_port(p) != shard as u32 {
                    r.violation("ports:inverse", &format!("shard_of_source_port({p}) != {shard} for {case}"), case.clone());
                    return;
                }
            }
        }
    }
}

fn check_info(r: &Report) {
    // every entry in {missing, [], ["x"], ["-1"], ["0"], ["1"], ["3"], ["4"], ["65535"], ["65536"], ["255"], ["256"]}
    let alts: Vec<Option<Vec<&str>>> = vec![
        None,
        Some(vec![]),
        Some(vec!["x"]),
        Some(vec!["-1"]),
        Some(vec!["0"]),
        Some(vec!["1"]),
        Some(vec!["3"]),
        Some(vec!["4"]),
        Some(vec!["63"]),
        Some(vec!["255"]),
        Some(vec!["256"]),
        Some(vec!["65535"]),
        Some(vec!["65536"]),
        Some(vec!["2", "9"]),
    ];
    for sh in &alts {
        for nr in &alts {
            for msb in &alts {
                let mut m: HashMap<String, Vec<String>> = HashMap::new();
                for (k, v) in [("SCYLLA_SHARD", sh), ("SCYLLA_NR_SHARDS", nr), ("SCYLLA_SHARDING_IGNORE_MSB", msb)] {
                    if let Some(v) = v {
                        m.insert(k.to_string(), v.iter().map(|s| s.to_string()).collect());
                    }
                }
                let case = json!({"leg":"info","shard":sh,"nr_shards":nr,"msb":msb});
                r.eval(1);
                let p = |o: &Option<Vec<&str>>| -> Option<Option<i64>> { o.as_ref().map(|v| v.first().and_then(|s| s.parse::<i64>().ok())) };
                // reference: accepted iff all three present, first values parse as u16/u16/u8, nr>0, shard<nr
                let want = match (p(sh), p(nr), p(msb)) {
                    (Some(Some(a)), Some(Some(b)), Some(Some(c))) if (0..=65535).contains(&a) && (1..=65535).contains(&b) && (0..=255).contains(&c) && a < b => Some((a as u16, b as u16, c as u8)),
                    _ => None,
                };
                match catch(|| hook::shard_info_from_options(&m)) {
                    Err(pn) => r.violation("info:panic", &format!("ShardInfo parsing panicked on {case}: {pn}"), case),
                    Ok(got) => {
                        if got.clone().ok() != want {
                            r.violation("info:mismatch", &format!("ShardInfo parse of {case}: got {got:?}, want {want:?}"), case);
                        } else if want.is_some() {
                            r.nontrivial(1);
                        }
                    }
                }
            }
        }
    }
}

fn replay(r: &Report, case: &serde_json::Value) {
    let g = |k: &str| case[k].as_i64().unwrap_or(0);
    match case["leg"].as_str() {
        Some("shard") => check_shard_of(r, g("nr_shards") as u16, g("msb_ignore") as u8, g("token")),
        Some("ports") => check_ports(r, g("nr_shards") as u16, g("lo") as u16, g("hi") as u16, g("shard") as u16),
        Some("info") => check_info(r),
        _ => vcore::machinery_error("unknown replay leg"),
    }
}

fn main() {
    vcore::quiet_panics();
    let r = Report::new("C11", "enum", "exploration", "E-ENUM");
    if let Some(case) = r.replay_case() {
        replay(&r, &case);
        r.finish_replay();
    }
    let thorough = r.tier().is_thorough();
    let jobs = r.args.jobs;
    // reference self-test (pinned vectors from the repo's unit test)
    if cqlref::shard::shard_of(-9219783007514621794, 4, 12) != 3 || cqlref::shard::shard_of(9222582454147032830, 4, 12) != 3 {
        vcore::machinery_error("cqlref shard_of fails its pinned vectors");
    }
    let toks = token_alphabet();
    // ---- leg shard
    let counts: Vec<u16> = if thorough {
        (1..=65535u16).collect()
    } else {
        let mut c: BTreeSet<u16> = (1..=4096u16).collect();
        for b in [8191, 8192, 8193, 16383, 16384, 16385, 32767, 32768, 32769, 65534, 65535] {
            c.insert(b);
        }
        c.into_iter().collect()
    };
    let r_ref = &r;
    let toks_ref = &toks;
    vcore::par::for_each(jobs, 16, counts.iter().copied(), |nr| {
        for msb in 0..64u8 {
            for &t in toks_ref {
                check_shard_of(r_ref, nr, msb, t);
            }
            // shard boundaries: first and last token of every shard (msb 0 reference search), for small counts
            if nr <= 64 && msb == 0 {
                for sh in 0..nr as u32 {
                    if let Some(first) = cqlref::shard::first_token_of_shard(nr, sh) {
                        check_shard_of(r_ref, nr, 0, first);
                        if first > i64::MIN {
                            check_shard_of(r_ref, nr, 0, first - 1);
                        }
                        r_ref.nontrivial(1);
                    }
                }
            }
        }
        r_ref.nontrivial(1); // one distinct (shard count) x 64 msb x token alphabet block
    });
    // a seeded sampled sweep over full-range tokens (labelled sampled; not what coverage rests on)
    {
        let mut rng = vcore::Rng::new(r.args.seed);
        let n = if thorough { 2_000_000 } else { 200_000 };
        for _ in 0..n {
            let nr = (rng.below(65535) + 1) as u16;
            let msb = rng.below(64) as u8;
            let t = rng.next_u64() as i64;
            check_shard_of(&r, nr, msb, t);
        }
        r.counters.add("sampled_random_shard_of", n);
    }
    // ---- leg ports
    let mut pcounts: Vec<u16> = (1..=if thorough { 64 } else { 24 }).collect();
    pcounts.extend([255, 256, 257, 1000, 32767, 32768, 65535]);
    let mut port_cases: Vec<(u16, u16, u16)> = Vec::new(); // (nr, lo, hi)
    for &nr in &pcounts {
        let span = (2 * nr as u32).min(if thorough { 130 } else { 50 }) as u16;
        let mut ends: BTreeSet<u16> = BTreeSet::new();
        for d in 0..=span {
            ends.insert(1024 + d);
            ends.insert(65535 - d);
        }
        ends.insert(49152);
        if nr > 200 {
            // ranges around one full period of the shard count
            for d in [nr - 1, nr, nr.saturating_add(1)] {
                if let Some(p) = 1024u16.checked_add(d) {
                    ends.insert(p);
                }
                ends.insert(65535 - d.min(64511));
            }
        }
        let ends: Vec<u16> = ends.into_iter().collect();
        for (i, &lo) in ends.iter().enumerate() {
            for &hi in &ends[i..] {
                port_cases.push((nr, lo, hi));
            }
        }
    }
    r.counters.add("port_range_cases", port_cases.len() as u64);
    vcore::par::for_each(jobs, 64, port_cases.into_iter(), |(nr, lo, hi)| {
        // every shard for small counts; boundary shards for large counts
        let shards: Vec<u16> = if nr <= 64 { (0..nr).collect() } else { vec![0, 1, nr / 2, nr - 2, nr - 1, lo % nr, hi % nr, (hi % nr + 1) % nr] };
        let shards: BTreeSet<u16> = shards.into_iter().collect();
        // for wide ranges the reference set is large; restrict the (lo,hi) width for huge spans to keep the run bounded
        if (hi as u32 - lo as u32) > 3000 && nr < 16 && !(lo == 49152 || hi == 65535 && lo <= 1030) {
            r_ref.counters.add("port_cases_skipped_wide", 1);
            return;
        }
        for sh in shards {
            check_ports(r_ref, nr, lo, hi, sh);
        }
    });
    // invalid ranges must be refused by the constructor (lo<1024 or empty)
    for (lo, hi) in [(0u16, 65535u16), (1023, 2000), (2000, 1999), (65535, 1024)] {
        r.eval(1);
        #[allow(clippy::reversed_empty_ranges)]
        if ShardAwarePortRange::new(lo..=hi).is_ok() {
            r.violation("ports:invalid-range-accepted", &format!("range [{lo},{hi}] accepted"), json!({"leg":"ports","lo":lo,"hi":hi,"nr_shards":1,"shard":0}));
        }
    }
    // ---- leg info
    check_info(&r);

    r.set_rule("E-ENUM. shard_of: every shard count in the tier's set x all 64 msb_ignore x ~380 boundary tokens (MIN, MAX, +-2^k, +-2^k+-1) + first/last token of every shard for counts<=64 (found by binary search on the reference), compared with a 128-bit reference; ports: shard counts {1..24|64,255,256,257,1000,32767,32768,65535} x all [lo,hi] with ends near 1024 / 65535 / 49152 x every shard (boundary shards for big counts): iterator set+single-wrap order, draw membership (3 draws, thread-RNG sampled), inverse; info: 14^3 option maps. distinct_nontrivial = shard-count blocks + shard boundaries + port cases whose reference set has >=2 ports + accepted option maps.");
    r.set_exhaustive(true);
    r.note("shard_counts_covered", json!(counts.len()));
    r.note("token_alphabet_size", json!(toks.len()));
    r.sample(json!({"leg":"shard","nr_shards":4,"msb_ignore":12,"token":-9219783007514621794i64,"expected_shard":3}));
    r.sample(json!({"leg":"ports","nr_shards":7,"lo":65530,"hi":65535,"shard":3,"reference_set":cqlref::shard::ports_for_shard(65530,65535,7,3)}));
    r.assume("msb_ignore restricted to 0..=63 as the property states; the thread RNG inside draw/iterator pivot is sampled under an RNG-insensitive oracle");
    r.finish();
}
