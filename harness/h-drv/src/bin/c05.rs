//! C05 - default load-balancing plans: complete, duplicate-free, correctly ordered.
//! Engine E-ENUM: topologies x per-node {disabled, down, up} x policy configuration x request,
//! on the real `DefaultPolicy` / `Plan` over a real `ClusterState` (hooks H-CLUSTER, H-NODE-STATE).
//!
//! The oracle is set- and group-based, so it holds for every answer of the driver's internal RNG
//! (rotation index of the node round-robin, replica shuffle, random first replica):
//!   * the plan names no target twice, no disabled node, no node outside the preferred datacenter
//!     when failover is off, and every other enabled token-owning node;
//!   * groups appear in the order: live replicas in the preferred rack, live replicas in the preferred
//!     datacenter, live remote replicas, live non-replicas (rack, datacenter, remote), down nodes -
//!     replica sets from `cqlref::placement`;
//!   * for LWT routing the live-replica prefix is exactly the reference ring order (per group), and
//!     identical across repeated constructions.
//! `Plan::new(..)` is iterated to exhaustion; `pick` and `fallback` are also called on their own.
use cqlref::placement::{Ring, Strat};
use h_drv::topo::{self, Concrete, MinViolations, SPELLINGS, Topo};
use scylla::cluster::ClusterState;
use scylla::frame::response::result::TableSpec;
use scylla::frame::types::{Consistency, SerialConsistency};
use scylla::policies::load_balancing::{DefaultPolicy, LoadBalancingPolicy, Plan, RoutingInfo};
use scylla::routing::{NodeLocationPreference, Token};
use serde_json::{Value, json};
use std::collections::{BTreeMap, BTreeSet};
use std::panic::AssertUnwindSafe;
use std::sync::{Arc, Mutex};
use vcore::{Report, catch};

// ------------------------------------------------------------------------------------------------
// configuration space

#[derive(Clone, Copy, Debug, PartialEq, Eq)]
enum NodeState {
    Disabled,
    Down,
    Up,
}
impl NodeState {
    fn hook(self) -> (bool, bool) {
        match self {
            NodeState::Disabled => (false, false),
            NodeState::Down => (true, false),
            NodeState::Up => (true, true),
        }
    }
    fn letter(self) -> &'static str {
        match self {
            NodeState::Disabled => "x",
            NodeState::Down => "d",
            NodeState::Up => "u",
        }
    }
    fn from_letter(c: char) -> NodeState {
        match c {
            'x' => NodeState::Disabled,
            'd' => NodeState::Down,
            _ => NodeState::Up,
        }
    }
}

#[derive(Clone, Debug, PartialEq, Eq)]
enum Pref {
    Any,
    Dc(String),
    DcRack(String, String),
}
impl Pref {
    fn dc(&self) -> Option<&str> {
        match self {
            Pref::Any => None,
            Pref::Dc(d) | Pref::DcRack(d, _) => Some(d),
        }
    }
    fn rack(&self) -> Option<&str> {
        match self {
            Pref::DcRack(_, r) => Some(r),
            _ => None,
        }
    }
    fn to_driver(&self) -> NodeLocationPreference {
        match self {
            Pref::Any => NodeLocationPreference::Any,
            Pref::Dc(d) => NodeLocationPreference::Datacenter(d.clone()),
            Pref::DcRack(d, r) => NodeLocationPreference::DatacenterAndRack(d.clone(), r.clone()),
        }
    }
    fn to_json(&self) -> Value {
        match self {
            Pref::Any => json!("any"),
            Pref::Dc(d) => json!({"dc": d}),
            Pref::DcRack(d, r) => json!({"dc": d, "rack": r}),
        }
    }
    fn from_json(v: &Value) -> Pref {
        match (v.get("dc").and_then(|d| d.as_str()), v.get("rack").and_then(|d| d.as_str())) {
            (Some(d), Some(r)) => Pref::DcRack(d.into(), r.into()),
            (Some(d), None) => Pref::Dc(d.into()),
            _ => Pref::Any,
        }
    }
}

#[derive(Clone, Debug, PartialEq, Eq)]
struct PolicyCfg {
    pref: Pref,
    /// true: the policy has no preference of its own and inherits the session-level one from the request
    inherited: bool,
    failover: bool,
    token_aware: bool,
    shuffle: bool,
    /// through which public entry point / builder history the policy object is obtained
    route: Route,
    /// latency awareness switched on; every node then gets 60 equal latency reports, so nobody may be
    /// penalised and the plan must obey the same oracle
    latency_aware: bool,
}

#[derive(Clone, Copy, Debug, PartialEq, Eq)]
enum Route {
    /// builder, each setter called once
    Direct,
    /// builder on which contradicting setters were called first (the last call must win)
    Overwritten,
    /// like Direct, but on a clone of a builder that was already used to build another policy
    ClonedBuilder,
    /// `DefaultPolicy::default()` - no builder (only for: inherited preference, no failover, token-aware, shuffling)
    DefaultImpl,
}
impl Route {
    fn name(self) -> &'static str {
        match self {
            Route::Direct => "direct",
            Route::Overwritten => "overwritten",
            Route::ClonedBuilder => "cloned-builder",
            Route::DefaultImpl => "default-impl",
        }
    }
    fn from_name(s: &str) -> Route {
        [Route::Direct, Route::Overwritten, Route::ClonedBuilder, Route::DefaultImpl].into_iter().find(|r| r.name() == s).unwrap_or(Route::Direct)
    }
}

impl PolicyCfg {
    fn build(&self) -> Arc<dyn LoadBalancingPolicy> {
        if self.route == Route::DefaultImpl {
            assert!(self.inherited && !self.failover && self.token_aware && self.shuffle && !self.latency_aware);
            return Arc::new(DefaultPolicy::default());
        }
        let mut b = match self.route {
            Route::Overwritten => scylla::policies::load_balancing::DefaultPolicyBuilder::default()
                .prefer_datacenter_and_rack("overwritten-dc".into(), "overwritten-rack".into())
                .token_aware(!self.token_aware)
                .permit_dc_failover(!self.failover)
                .enable_shuffling_replicas(!self.shuffle),
            Route::ClonedBuilder => {
                let used = DefaultPolicy::builder().prefer_datacenter("dc-of-the-first-build".into()).permit_dc_failover(!self.failover);
                let clone = used.clone();
                let _first = used.build();
                clone
            }
            _ => DefaultPolicy::builder(),
        };
        b = b.token_aware(self.token_aware).permit_dc_failover(self.failover).enable_shuffling_replicas(self.shuffle);
        b = if self.inherited {
            b.inherit_location_preference()
        } else {
            match &self.pref {
                Pref::Any => b.prefer_no_datacenter(),
                Pref::Dc(d) => b.prefer_datacenter(d.clone()),
                Pref::DcRack(d, r) => b.prefer_datacenter_and_rack(d.clone(), r.clone()),
            }
        };
        if self.latency_aware {
            b = b.latency_awareness(scylla::policies::load_balancing::LatencyAwarenessBuilder::new());
            // the builder spawns its updater task: needs a runtime context
            return topo::in_runtime_context(|| b.build());
        }
        b.build()
    }
    fn to_json(&self) -> Value {
        json!({"pref": self.pref.to_json(), "inherited": self.inherited, "failover": self.failover, "token_aware": self.token_aware, "shuffle": self.shuffle, "route": self.route.name(), "latency_aware": self.latency_aware})
    }
    fn from_json(v: &Value) -> PolicyCfg {
        PolicyCfg {
            pref: Pref::from_json(&v["pref"]),
            inherited: v["inherited"].as_bool().unwrap_or(false),
            failover: v["failover"].as_bool().unwrap_or(false),
            token_aware: v["token_aware"].as_bool().unwrap_or(true),
            shuffle: v["shuffle"].as_bool().unwrap_or(true),
            route: Route::from_name(v["route"].as_str().unwrap_or("direct")),
            latency_aware: v["latency_aware"].as_bool().unwrap_or(false),
        }
    }
}

#[derive(Clone, Copy, Debug, PartialEq, Eq)]
enum Lwt {
    Neither,
    /// serial_consistency = SERIAL is set, which alone must NOT switch LWT routing on
    NeitherWithSerialConsistencyField,
    /// serial_consistency = LOCAL_SERIAL, not LWT-routed
    NeitherWithLocalSerialField,
    /// confirmed LWT, serial consistency not set
    Flag,
    /// confirmed LWT with serial consistency SERIAL / LOCAL_SERIAL (what an LWT statement normally carries)
    FlagSerial,
    FlagLocalSerial,
    ConsistencySerial,
    ConsistencyLocalSerial,
    /// consistency LOCAL_SERIAL and serial consistency LOCAL_SERIAL
    ConsistencyLocalSerialBoth,
}
impl Lwt {
    const ALL: [Lwt; 9] = [Lwt::Neither, Lwt::Flag, Lwt::FlagSerial, Lwt::FlagLocalSerial, Lwt::ConsistencySerial, Lwt::ConsistencyLocalSerial, Lwt::ConsistencyLocalSerialBoth, Lwt::NeitherWithSerialConsistencyField, Lwt::NeitherWithLocalSerialField];
    /// the kinds of the config leg (reduced node-state set)
    const CONFIG: [Lwt; 5] = [Lwt::Neither, Lwt::Flag, Lwt::ConsistencySerial, Lwt::ConsistencyLocalSerial, Lwt::NeitherWithSerialConsistencyField];
    /// the kinds of the structure leg (FULL node-state enumeration): LWT routing x serial consistency {none, SERIAL, LOCAL_SERIAL}
    const STRUCTURE: [Lwt; 4] = [Lwt::Neither, Lwt::Flag, Lwt::FlagSerial, Lwt::FlagLocalSerial];
    fn routes_as_lwt(self) -> bool {
        matches!(self, Lwt::Flag | Lwt::FlagSerial | Lwt::FlagLocalSerial | Lwt::ConsistencySerial | Lwt::ConsistencyLocalSerial | Lwt::ConsistencyLocalSerialBoth)
    }
    /// kinds other than `Neither` / `Flag` (they differ from those two only in the consistency / serial-consistency fields): crossed with every strategy but one query token
    fn serial_field_variant(self) -> bool {
        !matches!(self, Lwt::Neither | Lwt::Flag)
    }
    fn name(self) -> &'static str {
        match self {
            Lwt::Neither => "neither",
            Lwt::NeitherWithSerialConsistencyField => "serial-consistency-field-only",
            Lwt::NeitherWithLocalSerialField => "local-serial-field-only",
            Lwt::Flag => "lwt-flag",
            Lwt::FlagSerial => "lwt-flag+serial",
            Lwt::FlagLocalSerial => "lwt-flag+local-serial",
            Lwt::ConsistencySerial => "consistency-serial",
            Lwt::ConsistencyLocalSerial => "consistency-local-serial",
            Lwt::ConsistencyLocalSerialBoth => "consistency-local-serial+local-serial",
        }
    }
    fn from_name(s: &str) -> Lwt {
        Lwt::ALL.into_iter().find(|l| l.name() == s).unwrap_or(Lwt::Neither)
    }
}

#[derive(Clone, Debug, PartialEq, Eq)]
enum Target {
    /// no token, no table
    Nothing,
    /// token + table of a keyspace the cluster state does not know
    UnknownKeyspace(i64),
    /// token, no table
    TokenWithoutTable(i64),
    /// token + table of known keyspace number i (strategy i of the family)
    Known(usize, i64),
    /// token + the tablet table `kt.t`; `true` = the token is covered by the tablet the cluster knows
    Tablet(i64, bool),
}

/// The one tablet a cluster state was taught for table `kt.t`.
#[derive(Clone, Debug)]
struct TabletSpec {
    /// covers (first, last]
    first: i64,
    last: i64,
    /// (node, shard) in tablet order
    replicas: Vec<(usize, i32)>,
}

#[derive(Clone, Debug)]
struct Request {
    target: Target,
    lwt: Lwt,
}

// ------------------------------------------------------------------------------------------------
// the oracle

/// Class of a plan member; the plan must be sorted by class.
#[derive(Clone, Copy, Debug, PartialEq, Eq, PartialOrd, Ord)]
enum Class {
    ReplicaRack = 0,
    ReplicaDc = 1,
    ReplicaRemote = 2,
    NodeRack = 3,
    NodeDc = 4,
    NodeRemote = 5,
    Down = 6,
}
impl Class {
    fn letter(self) -> char {
        ['R', 'L', 'M', 'r', 'l', 'm', 'd'][self as usize]
    }
    fn is_replica(self) -> bool {
        (self as usize) <= 2
    }
}

struct Expect {
    /// class of every node that must be in the plan (index = node); None = must not be in the plan
    class: Vec<Option<Class>>,
    /// why an excluded node is excluded
    why_excluded: Vec<&'static str>,
    /// for LWT routing: the exact live-replica prefix
    lwt_prefix: Option<Vec<usize>>,
}

fn expectation(ring: &Ring, states: &[NodeState], cfg: &PolicyCfg, replicas_ring_order: Option<&[usize]>, lwt: bool) -> Expect {
    let n = ring.nodes.len();
    let owners = ring.token_owners();
    let pdc = cfg.pref.dc();
    let prack = cfg.pref.rack();
    let is_local = |i: usize| match pdc {
        None => true,
        Some(d) => ring.nodes[i].dc.as_deref() == Some(d),
    };
    let in_rack = |i: usize| match (pdc, prack) {
        (Some(d), Some(r)) => ring.nodes[i].dc.as_deref() == Some(d) && ring.nodes[i].rack.as_deref() == Some(r),
        _ => false,
    };
    let reps: &[usize] = replicas_ring_order.unwrap_or(&[]);
    let mut class = vec![None; n];
    let mut why = vec![""; n];
    for i in 0..n {
        if states[i] == NodeState::Disabled {
            why[i] = "excluded by the host filter";
            continue;
        }
        if !owners.contains(&i) {
            why[i] = "owns no token";
            continue;
        }
        if pdc.is_some() && !cfg.failover && !is_local(i) {
            why[i] = "outside the preferred datacenter and failover is off";
            continue;
        }
        class[i] = Some(if states[i] == NodeState::Down {
            Class::Down
        } else {
            let rep = reps.contains(&i);
            match (rep, in_rack(i), is_local(i)) {
                (true, true, _) => Class::ReplicaRack,
                (true, false, true) => Class::ReplicaDc,
                (true, false, false) => Class::ReplicaRemote,
                (false, true, _) => Class::NodeRack,
                (false, false, true) => Class::NodeDc,
                (false, false, false) => Class::NodeRemote,
            }
        });
    }
    let lwt_prefix = if lwt && replicas_ring_order.is_some() {
        let mut p = Vec::new();
        for c in [Class::ReplicaRack, Class::ReplicaDc, Class::ReplicaRemote] {
            p.extend(reps.iter().copied().filter(|i| class[*i] == Some(c)));
        }
        Some(p)
    } else {
        None
    };
    Expect { class, why_excluded: why, lwt_prefix }
}

/// Judge one sequence of nodes (a whole plan, or a whole fallback) against the expectation.
fn judge(seq: &[usize], exp: &Expect, what: &str) -> Vec<(String, String)> {
    let mut bad = Vec::new();
    // the statement speaks about token-owning nodes; a node without tokens is neither demanded nor
    // forbidden - unless it is disabled
    let seq: Vec<usize> = seq.iter().copied().filter(|i| exp.why_excluded.get(*i).copied() != Some("owns no token")).collect();
    let seq: &[usize] = &seq;
    let mut seen = BTreeSet::new();
    let mut dup_reported = false;
    for &i in seq {
        if !seen.insert(i) && !dup_reported {
            bad.push((format!("{what}:duplicate"), format!("node {i} is named twice in {seq:?}")));
            dup_reported = true;
        }
    }
    for &i in seq {
        if i >= exp.class.len() {
            bad.push((format!("{what}:unknown-node"), format!("node {i} is not part of the cluster")));
        } else if exp.class[i].is_none() {
            let key = match exp.why_excluded[i] {
                "excluded by the host filter" => "disabled-node",
                "outside the preferred datacenter and failover is off" => "outside-preferred-dc",
                _ => "non-owner",
            };
            bad.push((format!("{what}:{key}"), format!("node {i} ({}) is named in {seq:?}", exp.why_excluded[i])));
        }
    }
    for (i, c) in exp.class.iter().enumerate() {
        if c.is_some() && !seen.contains(&i) {
            bad.push((format!("{what}:missing-node"), format!("enabled token-owning node {i} is missing from {seq:?}")));
            break;
        }
    }
    if !bad.is_empty() {
        return bad;
    }
    // group order
    let classes: Vec<Class> = seq.iter().map(|i| exp.class[*i].unwrap()).collect();
    for w in 0..classes.len().saturating_sub(1) {
        let (a, b) = (classes[w], classes[w + 1]);
        if a > b {
            let key = if a == Class::Down {
                "order:down-before-live"
            } else if !a.is_replica() && b.is_replica() {
                "order:nonreplica-before-live-replica"
            } else if a.is_replica() && b.is_replica() {
                "order:replica-locality"
            } else {
                "order:nonreplica-locality"
            };
            let sig: String = classes.iter().map(|c| c.letter()).collect();
            bad.push((format!("{what}:{key}"), format!("node {} (group {:?}) comes before node {} (group {:?}); sequence {seq:?} has groups {sig}", seq[w], a, seq[w + 1], b)));
            break;
        }
    }
    if let Some(prefix) = &exp.lwt_prefix {
        let got: Vec<usize> = seq.iter().copied().take_while(|i| exp.class[*i].map(|c| c.is_replica()).unwrap_or(false)).collect();
        if bad.is_empty() && &got != prefix {
            bad.push((format!("{what}:lwt-replica-order"), format!("LWT routing: live replicas appear as {got:?}, the ring order (per locality group) is {prefix:?}")));
        }
    }
    bad
}

// ------------------------------------------------------------------------------------------------
// one cluster

struct Space {
    /// strategies known to the cluster as keyspaces ks{i}
    strategies: Vec<Strat>,
    tokens: Vec<i64>,
    prefs: Vec<Pref>,
}

/// C05's strategy family: Simple RF {1, 2, n}; NTS with every RF in 0..=2 per ring datacenter;
/// Local (RF 1 by definition). Known keyspaces ks{i}.
fn c05_strategies(c: &Concrete) -> Vec<Strat> {
    let ring = c.ring();
    let n = ring.token_owners().len();
    let mut out = vec![Strat::Local];
    let mut rfs: Vec<usize> = vec![1, 2, n];
    rfs.sort_unstable();
    rfs.dedup();
    for rf in rfs {
        out.push(Strat::Simple(rf));
    }
    let dcs = ring.datacenters();
    if !dcs.is_empty() {
        let mut idx = vec![0usize; dcs.len()];
        loop {
            out.push(Strat::Nts((0..dcs.len()).map(|d| (dcs[d].clone(), idx[d])).collect()));
            let mut d = 0;
            while d < dcs.len() {
                idx[d] += 1;
                if idx[d] <= 2 {
                    break;
                }
                idx[d] = 0;
                d += 1;
            }
            if d == dcs.len() {
                break;
            }
        }
    }
    out
}

fn prefs_for(ring: &Ring, absent_dc: &str) -> Vec<Pref> {
    let mut out = vec![Pref::Any];
    for d in ring.datacenters() {
        out.push(Pref::Dc(d.clone()));
        let racks: BTreeSet<String> = ring.nodes.iter().filter(|n| n.dc.as_deref() == Some(d.as_str())).filter_map(|n| n.rack.clone()).collect();
        for r in racks {
            out.push(Pref::DcRack(d.clone(), r));
        }
        out.push(Pref::DcRack(d.clone(), "no-such-rack".into()));
    }
    out.push(Pref::Dc(absent_dc.to_string()));
    out.push(Pref::DcRack(absent_dc.to_string(), "r0".into()));
    out
}

fn all_states(n: usize) -> Vec<Vec<NodeState>> {
    let mut out = Vec::new();
    let total = 3usize.pow(n as u32);
    // all-up first (simplest), then by number of non-up nodes
    let mut v: Vec<Vec<NodeState>> = (0..total)
        .map(|mut k| {
            (0..n)
                .map(|_| {
                    let s = [NodeState::Up, NodeState::Down, NodeState::Disabled][k % 3];
                    k /= 3;
                    s
                })
                .collect()
        })
        .collect();
    v.sort_by_key(|s| s.iter().filter(|x| **x != NodeState::Up).count());
    out.append(&mut v);
    out
}

/// all up; all down; all disabled; each single node down; each single node disabled
fn few_states(n: usize) -> Vec<Vec<NodeState>> {
    let mut out = vec![vec![NodeState::Up; n], vec![NodeState::Down; n], vec![NodeState::Disabled; n]];
    for i in 0..n {
        for s in [NodeState::Down, NodeState::Disabled] {
            let mut v = vec![NodeState::Up; n];
            v[i] = s;
            out.push(v);
        }
    }
    out.dedup();
    out
}

#[derive(Default)]
struct Tally {
    plans: u64,
    nontrivial: u64,
    lwt_plans: u64,
    repeats: u64,
    picks_some: u64,
    picks_none: u64,
    empty_plans: u64,
    tablet_plans: u64,
    midplan_histories: u64,
    midplan_first_target_named_again: u64,
    signatures: BTreeSet<String>,
}

struct Env<'a> {
    r: &'a Report,
    sink: &'a MinViolations,
    signatures: Mutex<BTreeSet<String>>,
    repeats: usize,
    extras_upto_nodes: usize,
}
impl Env<'_> {
    fn absorb(&self, t: Tally) {
        self.r.eval(t.plans);
        self.r.nontrivial(t.nontrivial);
        self.r.counters.add("plans_routed_as_lwt", t.lwt_plans);
        self.r.counters.add("repeated_constructions", t.repeats);
        self.r.counters.add("pick_returned_a_target", t.picks_some);
        self.r.counters.add("pick_returned_none", t.picks_none);
        self.r.counters.add("empty_plans_expected_and_observed", t.empty_plans);
        self.r.counters.add("plans_for_tablet_table_requests", t.tablet_plans);
        self.r.counters.add("midplan_state_change_histories", t.midplan_histories);
        self.r.counters.add("midplan_first_target_named_again_after_it_went_down", t.midplan_first_target_named_again);
        self.signatures.lock().unwrap().extend(t.signatures);
    }
}

struct Cluster {
    concrete: Concrete,
    ring: Ring,
    state: ClusterState,
    /// node index -> Arc<Node> for state injection
    nodes: Vec<Arc<scylla::cluster::Node>>,
    space: Space,
    /// reference placements in ring order: [strategy][token index]
    placements: Vec<Vec<Vec<usize>>>,
}

fn build(c: &Concrete, absent_dc: &str) -> Cluster {
    let ring = c.ring();
    let strategies = c05_strategies(c);
    let mut ks: Vec<_> = strategies.iter().enumerate().map(|(i, s)| topo::keyspace(&format!("ks{i}"), s, false)).collect();
    // the tablet-based keyspace (its strategy must never be consulted for a tablet table)
    ks.push(topo::keyspace("kt", &Strat::Simple(1), true));
    let state = topo::build_cluster(c, &ks);
    let mut nodes: Vec<Option<Arc<scylla::cluster::Node>>> = vec![None; c.nodes.len()];
    for n in state.get_nodes_info() {
        nodes[topo::node_index(n.host_id)] = Some(n.clone());
    }
    let tokens: Vec<i64> = {
        // one query token per ring interval: the ring token itself stands for (previous, token]; plus one strictly inside the wrap-around interval
        let mut t: Vec<i64> = ring.entries.iter().map(|e| e.0).collect();
        t.dedup();
        if let Some(hi) = t.last().copied() {
            if hi < i64::MAX {
                t.push(hi + 1);
            }
        }
        if t.is_empty() {
            t.push(0); // empty ring: any token
        }
        t
    };
    let placements = strategies.iter().map(|s| tokens.iter().map(|t| ring.replicas_ring_order(Token::new(*t).value(), s)).collect()).collect();
    let prefs = prefs_for(&ring, absent_dc);
    Cluster { concrete: c.clone(), ring, state, nodes: nodes.into_iter().map(|n| n.expect("every peer becomes a node")).collect(), space: Space { strategies, tokens, prefs }, placements }
}

fn case_json(cl: &Cluster, tablet: Option<&TabletSpec>, absent_dc: &str, states: &[NodeState], cfg: &PolicyCfg, req: &Request) -> Value {
    let target = match &req.target {
        Target::Tablet(t, covered) => json!({"tablet_token": t, "covered": covered}),
        Target::Nothing => json!("nothing"),
        Target::UnknownKeyspace(t) => json!({"unknown_keyspace": t}),
        Target::TokenWithoutTable(t) => json!({"token_without_table": t}),
        Target::Known(si, t) => json!({"strategy": topo::strat_to_json(&cl.space.strategies[*si]), "token": t}),
    };
    let tab = tablet.map(|t| json!({"first": t.first, "last": t.last, "replicas": t.replicas.iter().map(|(n, s)| json!([n, s])).collect::<Vec<_>>()}));
    json!({"cluster": cl.concrete.to_json(), "absent_dc": absent_dc, "states": states.iter().map(|s| s.letter()).collect::<String>(), "policy": cfg.to_json(), "target": target, "lwt": req.lwt.name(), "tablet": tab})
}

/// Run one (states already installed, policy, request) case: Plan to exhaustion (+ repeats), pick, fallback.
#[allow(clippy::too_many_arguments)]
fn run_case(env: &Env, tally: &mut Tally, cl: &Cluster, tablet: Option<(&ClusterState, &TabletSpec)>, absent_dc: &str, rank: u64, states: &[NodeState], cfg: &PolicyCfg, policy: &dyn LoadBalancingPolicy, driver_pref: &NodeLocationPreference, req: &Request, verbose: bool, midplan: bool) {
    let unknown = TableSpec::borrowed("no_such_keyspace", "t");
    let tablet_table = TableSpec::borrowed("kt", "t");
    let cluster_state: &ClusterState = tablet.map(|t| t.0).unwrap_or(&cl.state);
    let tablet_nodes: Vec<usize> = tablet.map(|t| t.1.replicas.iter().map(|r| r.0).collect()).unwrap_or_default();
    let ks_name;
    let known;
    let mut ri = RoutingInfo::default();
    let mut reps: Option<&[usize]> = None;
    match &req.target {
        Target::Nothing => {}
        Target::UnknownKeyspace(t) => {
            ri.token = Some(Token::new(*t));
            ri.table = Some(&unknown);
        }
        Target::TokenWithoutTable(t) => ri.token = Some(Token::new(*t)),
        Target::Known(si, t) => {
            ri.token = Some(Token::new(*t));
            ks_name = format!("ks{si}");
            known = TableSpec::borrowed(&ks_name, "t");
            ri.table = Some(&known);
            if cfg.token_aware {
                let ti = cl.space.tokens.iter().position(|x| x == t).expect("token of the space");
                reps = Some(&cl.placements[*si][ti]);
            }
        }
        Target::Tablet(t, covered) => {
            ri.token = Some(Token::new(*t));
            ri.table = Some(&tablet_table);
            if cfg.token_aware {
                // replicas = the tablet's list, in tablet order; a token no known tablet covers has none
                reps = Some(if *covered { &tablet_nodes } else { &[] });
            }
        }
    }
    match req.lwt {
        Lwt::Neither => {}
        Lwt::NeitherWithSerialConsistencyField => ri.serial_consistency = Some(SerialConsistency::Serial),
        Lwt::NeitherWithLocalSerialField => ri.serial_consistency = Some(SerialConsistency::LocalSerial),
        Lwt::Flag => ri.is_confirmed_lwt = true,
        Lwt::FlagSerial => {
            ri.is_confirmed_lwt = true;
            ri.serial_consistency = Some(SerialConsistency::Serial);
        }
        Lwt::FlagLocalSerial => {
            ri.is_confirmed_lwt = true;
            ri.serial_consistency = Some(SerialConsistency::LocalSerial);
        }
        Lwt::ConsistencySerial => ri.consistency = Consistency::Serial,
        Lwt::ConsistencyLocalSerial => ri.consistency = Consistency::LocalSerial,
        Lwt::ConsistencyLocalSerialBoth => {
            ri.consistency = Consistency::LocalSerial;
            ri.serial_consistency = Some(SerialConsistency::LocalSerial);
        }
    }
    // the session-level preference: what the policy inherits when it has none of its own; when the
    // policy has its own, the session-level value is set to something else to prove it is overridden
    let other_pref = NodeLocationPreference::Datacenter("session-level-dc-that-must-be-ignored".into());
    ri.node_location_preference = if cfg.inherited { driver_pref } else { &other_pref };

    let lwt = req.lwt.routes_as_lwt();
    let exp = expectation(&cl.ring, states, cfg, reps, lwt);
    tally.plans += 1;
    if lwt {
        tally.lwt_plans += 1;
    }
    let report = |key: &str, text: String| {
        env.sink.report(key, rank, || {
            (
                format!(
                    "{text}; nodes (dc,rack,state) = {:?}, ring (token,node) = {:?}, policy = {}, request = {:?} lwt={}, reference replicas (ring order) = {:?}",
                    cl.ring.nodes.iter().zip(states).map(|(n, s)| (n.dc.as_deref().unwrap_or("-"), n.rack.as_deref().unwrap_or("-"), s.letter())).collect::<Vec<_>>(),
                    cl.ring.entries,
                    cfg.to_json(),
                    req.target,
                    req.lwt.name(),
                    reps
                ),
                case_json(cl, tablet.map(|t| t.1), absent_dc, states, cfg, req),
            )
        });
    };
    let mut first_plan: Option<Vec<usize>> = None;
    for rep in 0..env.repeats.max(1) {
        if rep > 0 && !lwt {
            break; // repetitions only matter where determinism is claimed
        }
        let cap = topo::node_cap(cl.nodes.len());
        let plan = catch(AssertUnwindSafe(|| {
            // capped drain instead of collect(): an endless or absurdly long plan is a complaint, not a hang / allocation
            let (p, endless) = topo::drain_capped(Plan::new(policy, &ri, cluster_state).map(|(n, _shard)| topo::node_index(n.host_id)), cap);
            assert!(!endless, "the plan yields more than {cap} targets for {} nodes", cl.nodes.len());
            p
        }));
        let plan = match plan {
            Ok(p) => p,
            Err(p) => {
                report("plan:panic", format!("Plan iteration panicked at {}: {p}", vcore::last_panic_location()));
                return;
            }
        };
        if verbose {
            println!("  Plan::new(..) run {rep}: {plan:?}");
        }
        for (key, text) in judge(&plan, &exp, "plan") {
            report(&key, text);
        }
        if rep == 0 {
            let sig: String = plan.iter().map(|i| exp.class.get(*i).copied().flatten().map(|c| c.letter()).unwrap_or('?')).collect();
            let distinct: BTreeSet<char> = sig.chars().collect();
            if plan.len() >= 3 && distinct.len() >= 2 {
                tally.nontrivial += 1;
            }
            if plan.is_empty() {
                tally.empty_plans += 1;
            }
            tally.signatures.insert(sig);
            first_plan = Some(plan);
        } else {
            tally.repeats += 1;
            let replica_prefix = |p: &[usize]| p.iter().copied().take_while(|i| exp.class.get(*i).copied().flatten().map(|c| c.is_replica()).unwrap_or(false)).collect::<Vec<usize>>();
            let (a, b) = (replica_prefix(first_plan.as_ref().unwrap()), replica_prefix(&plan));
            if a != b {
                report("plan:lwt-nondeterministic", format!("LWT routing: two constructions of the same plan order the live replicas differently: {a:?} vs {b:?}"));
            }
        }
    }
    // fallback on its own: the same set / order demands, and no duplicate under the plan's own notion
    let fb = catch(AssertUnwindSafe(|| {
        let cap = topo::node_cap(cl.nodes.len());
        let (v, endless) = topo::drain_capped(policy.fallback(&ri, cluster_state).map(|(n, s)| (topo::node_index(n.host_id), s)), cap);
        assert!(!endless, "fallback yields more than {cap} targets for {} nodes", cl.nodes.len());
        v
    }));
    match fb {
        Err(p) => report("fallback:panic", format!("fallback panicked at {}: {p}", vcore::last_panic_location())),
        Ok(fb) => {
            if verbose {
                println!("  fallback(): {fb:?}");
            }
            for a in 0..fb.len() {
                for b in a + 1..fb.len() {
                    if fb[a].0 == fb[b].0 && (fb[a].1.is_none() || fb[b].1.is_none() || fb[a].1 == fb[b].1) {
                        report("fallback:duplicate-target", format!("fallback names the same target twice: {:?} and {:?} in {fb:?}", fb[a], fb[b]));
                    }
                }
            }
            let seq: Vec<usize> = fb.iter().map(|x| x.0).collect();
            for (key, text) in judge(&seq, &exp, "fallback") {
                report(&key, text);
            }
        }
    }
    // pick on its own: if it names a target, that target belongs to the best non-empty group
    let pk = catch(AssertUnwindSafe(|| policy.pick(&ri, cluster_state).map(|(n, s)| (topo::node_index(n.host_id), s))));
    // whether pick() names a target is a function of the states alone (which one it names is not)
    let pick_names_a_target = matches!(pk, Ok(Some(_)));
    match pk {
        Err(p) => report("pick:panic", format!("pick panicked at {}: {p}", vcore::last_panic_location())),
        Ok(None) => {
            tally.picks_none += 1;
            if verbose {
                println!("  pick(): None");
            }
        }
        Ok(Some((i, shard))) => {
            tally.picks_some += 1;
            if verbose {
                println!("  pick(): node {i} shard {shard:?}");
            }
            let best = exp.class.iter().flatten().min().copied();
            match exp.class.get(i).copied().flatten() {
                None if exp.why_excluded.get(i).copied() == Some("owns no token") => {} // neither demanded nor forbidden (e.g. a tablet replica without tokens)
                None => report("pick:excluded-node", format!("pick names node {i}, which must not be in the plan ({})", exp.why_excluded.get(i).copied().unwrap_or("?"))),
                Some(c) if Some(c) != best => report("pick:not-best-group", format!("pick names node {i} of group {c:?} although group {best:?} is not empty")),
                Some(_) => {
                    if let Some(prefix) = &exp.lwt_prefix {
                        if !prefix.is_empty() && prefix[0] != i {
                            report("pick:lwt-not-first-replica", format!("LWT routing: pick names node {i}, the first live replica in ring order is {}", prefix[0]));
                        }
                    }
                }
            }
        }
    }
    // History: node states change between the first and the second target of one plan (the usual reason to ask
    // for a second target is that the first one just died): the first target's node goes down, every other
    // enabled node flips up <-> down. The rest of the plan must then describe the NEW states.
    if midplan {
        let got = catch(AssertUnwindSafe(|| {
            let mut plan = Plan::new(policy, &ri, cluster_state);
            let first = plan.next().map(|(n, _)| topo::node_index(n.host_id));
            let b_states: Vec<NodeState> = states
                .iter()
                .enumerate()
                .map(|(i, s)| match s {
                    NodeState::Disabled => NodeState::Disabled,
                    _ if Some(i) == first => NodeState::Down,
                    NodeState::Up => NodeState::Down,
                    NodeState::Down => NodeState::Up,
                })
                .collect();
            install(cl, &b_states);
            let (tail, endless) = topo::drain_capped(plan.by_ref().map(|(n, _)| topo::node_index(n.host_id)), topo::node_cap(cl.nodes.len()));
            assert!(!endless, "the plan does not end");
            let after_end = (plan.next().is_some(), plan.next().is_some());
            (first, b_states, tail, after_end)
        }));
        install(cl, states);
        match got {
            Err(p) => report("midplan:panic", format!("plan iteration across a state change panicked at {}: {p}", vcore::last_panic_location())),
            Ok((None, _, tail, _)) => {
                if !tail.is_empty() {
                    report("midplan:targets-after-none", format!("the plan returned no first target but then {tail:?}"));
                }
            }
            Ok((Some(first), b_states, tail, after_end)) => {
                tally.midplan_histories += 1;
                if verbose {
                    println!("  mid-plan history: first target {first}; states then {:?}; rest of the plan {tail:?}", b_states.iter().map(|s| s.letter()).collect::<String>());
                }
                if after_end.0 || after_end.1 {
                    report("plan:not-fused", format!("the exhausted plan yields targets again (first {first}, rest {tail:?})"));
                }
                if tail.contains(&first) {
                    tally.midplan_first_target_named_again += 1; // observed, not asserted: see demos/C05.md (Audit)
                }
                let mut exp_b = expectation(&cl.ring, &b_states, cfg, reps, lwt);
                if first < exp_b.class.len() {
                    // the first target's node is judged by the pick check above; in the rest it is neither demanded nor forbidden
                    exp_b.class[first] = None;
                    exp_b.why_excluded[first] = "owns no token";
                }
                if let Some(p) = exp_b.lwt_prefix.as_mut() {
                    p.retain(|i| *i != first);
                }
                for (key, text) in judge(&tail, &exp_b, "midplan") {
                    // If pick() named the first target, fallback() is called - and evaluated - entirely under the new
                    // states, and everything is demanded of it. If pick() returned None, the plan is ONE lazily evaluated
                    // fallback() begun under the old states: its segments see the states at the moment they are pulled,
                    // so only what does not depend on up/down is demanded (no duplicate, no disabled node, nothing
                    // outside the preferred datacenter).
                    if !pick_names_a_target && !(key.ends_with(":duplicate") || key.ends_with(":disabled-node") || key.ends_with(":outside-preferred-dc")) {
                        continue;
                    }
                    report(&key, format!("{text} (first target {first} was taken under the states shown; then the states became {:?})", b_states.iter().map(|s| s.letter()).collect::<String>()));
                }
            }
        }
    }
}

/// One family of policy objects of a leg (crossed with every preference and failover on/off).
#[derive(Clone)]
struct Variant {
    inherited: bool,
    shuffle: bool,
    token_aware: bool,
    route: Route,
    latency_aware: bool,
    lwt: Vec<Lwt>,
    /// also run the mid-plan history: node states change between the first and the second target
    midplan: bool,
}

struct Dims {
    /// full product of node states (else the few_states subset)
    all_states: bool,
    variants: Vec<Variant>,
    all_tokens: bool,
    /// additionally this many seeded random {disabled,down,up} assignments (a SAMPLED dimension, used
    /// only for the larger pinned cluster where 3^n is out of reach)
    random_states: usize,
}

struct TabletDims {
    /// full {disabled,down,up}^n for clusters of up to this many nodes, the few_states subset above
    all_states_upto_nodes: usize,
    /// also query the first covered token and the token just below the tablet
    boundary_tokens: bool,
}

fn install(cl: &Cluster, states: &[NodeState]) {
    for (n, s) in cl.nodes.iter().zip(states) {
        n.verif_set_state(Some(s.hook()));
    }
}

fn run_cluster(env: &Env, c: &Concrete, absent_dc: &str, topo_rank: u64, legs: &[Dims], tablets: Option<&TabletDims>) {
    let cl = match catch(AssertUnwindSafe(|| build(c, absent_dc))) {
        Ok(x) => x,
        Err(p) => {
            env.sink.report("construct:panic", topo_rank << 40, || (format!("ClusterState::new panicked: {p}"), json!({"cluster": c.to_json()})));
            return;
        }
    };
    let n = c.nodes.len();
    let mut tally = Tally::default();
    let mut sub: u64 = 0;
    for dims in legs {
        let mut states_list = if dims.all_states { all_states(n) } else { few_states(n) };
        if dims.random_states > 0 {
            let mut rng = vcore::Rng::new(0xC05 ^ topo_rank);
            for _ in 0..dims.random_states {
                states_list.push((0..n).map(|_| [NodeState::Up, NodeState::Up, NodeState::Down, NodeState::Disabled][rng.below(4) as usize]).collect());
            }
        }
        let tokens: Vec<i64> = if dims.all_tokens && n <= 4 || cl.space.tokens.len() <= 2 { cl.space.tokens.clone() } else if n >= 4 && !dims.all_tokens { vec![cl.space.tokens[0], cl.space.tokens[cl.space.tokens.len() / 2]] } else { vec![cl.space.tokens[0], cl.space.tokens[cl.space.tokens.len() / 2], *cl.space.tokens.last().unwrap()] };
        // policies are independent of node states: build them once
        let mut policies: Vec<(PolicyCfg, Arc<dyn LoadBalancingPolicy>, NodeLocationPreference, &Variant)> = Vec::new();
        for pref in &cl.space.prefs {
            for v in &dims.variants {
                // the non-basic variants (other entry points, latency awareness, mid-plan history) are spent on
                // clusters of up to `extras_upto_nodes` nodes
                if (v.route != Route::Direct || v.latency_aware || v.midplan) && n > env.extras_upto_nodes {
                    continue;
                }
                for failover in [false, true] {
                    if v.route == Route::DefaultImpl && failover {
                        continue;
                    }
                    let cfg = PolicyCfg { pref: pref.clone(), inherited: v.inherited, failover, token_aware: v.token_aware, shuffle: v.shuffle, route: v.route, latency_aware: v.latency_aware };
                    let p = cfg.build();
                    if v.latency_aware {
                        // 60 equal measurements per node (minimum_measurements is 50): nobody is slower than anybody
                        let ri = RoutingInfo::default();
                        for node in cl.state.get_nodes_info() {
                            for _ in 0..60 {
                                p.on_request_success(&ri, std::time::Duration::from_millis(5), node);
                            }
                        }
                    }
                    policies.push((cfg, p, pref.to_driver(), v));
                }
            }
        }
        for states in &states_list {
            install(&cl, states);
            for (cfg, policy, driver_pref, variant) in &policies {
                for &lwt in &variant.lwt {
                    let mut reqs: Vec<Request> = vec![Request { target: Target::Nothing, lwt }, Request { target: Target::UnknownKeyspace(tokens[0]), lwt }, Request { target: Target::TokenWithoutTable(tokens[0]), lwt }];
                    if cfg.token_aware {
                        let toks: &[i64] = if lwt.serial_field_variant() { &tokens[..1] } else { &tokens };
                        for si in 0..cl.space.strategies.len() {
                            for t in toks {
                                reqs.push(Request { target: Target::Known(si, *t), lwt });
                            }
                        }
                    } else {
                        // token-unaware: strategy and token cannot matter; one known-table request proves it is ignored
                        reqs.push(Request { target: Target::Known(cl.space.strategies.len() - 1, tokens[0]), lwt });
                    }
                    for req in &reqs {
                        sub += 1;
                        run_case(env, &mut tally, &cl, None, absent_dc, (topo_rank << 40) | sub, states, cfg, policy.as_ref(), driver_pref, req, false, variant.midplan);
                    }
                }
            }
        }
    }
    if let Some(td) = tablets {
        let states_list = if td.all_states_upto_nodes >= n { all_states(n) } else { few_states(n) };
        let mut policies: Vec<(PolicyCfg, Arc<dyn LoadBalancingPolicy>, NodeLocationPreference)> = Vec::new();
        for pref in &cl.space.prefs {
            for failover in [false, true] {
                let cfg = PolicyCfg { pref: pref.clone(), inherited: false, failover, token_aware: true, shuffle: true, route: Route::Direct, latency_aware: false };
                let p = cfg.build();
                policies.push((cfg, p, pref.to_driver()));
            }
        }
        for spec in tablet_specs(n, cl.space.tokens[0]) {
            let taught = match teach(&cl, &spec) {
                Ok(s) => s,
                Err(e) => vcore::machinery_error(&format!("cannot teach a tablet: {e}")),
            };
            let mut toks = vec![(spec.last, true), (spec.last + 1, false)];
            if td.boundary_tokens {
                toks.push((spec.first + 1, true));
                toks.push((spec.first, false));
            }
            for states in &states_list {
                install(&cl, states);
                for (cfg, policy, driver_pref) in &policies {
                    for lwt in [Lwt::Neither, Lwt::Flag] {
                        for (tok, covered) in &toks {
                            sub += 1;
                            tally.tablet_plans += 1;
                            run_case(env, &mut tally, &cl, Some((&taught, &spec)), absent_dc, (topo_rank << 40) | sub, states, cfg, policy.as_ref(), driver_pref, &Request { target: Target::Tablet(*tok, *covered), lwt }, false, false);
                        }
                    }
                }
            }
        }
    }
    env.absorb(tally);
}

/// Replica lists a tablet is given: every ordered list of <= 2 distinct nodes, plus the nodes in
/// reverse ring order (up to 3). Node i is on shard i+1, so a replica target never coincides with the
/// shard-less (-> shard 0) target of the same node except through the plan's own target equality.
fn tablet_specs(n: usize, anchor: i64) -> Vec<TabletSpec> {
    let mut lists: Vec<Vec<usize>> = vec![vec![]];
    for a in 0..n {
        lists.push(vec![a]);
        for b in 0..n {
            if a != b {
                lists.push(vec![a, b]);
            }
        }
    }
    if n >= 3 {
        lists.push((0..n).rev().take(3).collect());
    }
    lists.into_iter().map(|l| TabletSpec { first: anchor - 1000, last: anchor + 50, replicas: l.into_iter().map(|i| (i, i as i32 + 1)).collect() }).collect()
}

fn teach(cl: &Cluster, spec: &TabletSpec) -> Result<ClusterState, String> {
    let reps: Vec<(uuid::Uuid, i32)> = spec.replicas.iter().map(|(i, s)| (topo::node_uuid(*i), *s)).collect();
    scylla::verif::cluster::learn_tablet(&cl.state, "kt", "t", spec.first, spec.last, &reps)
}

fn replay(env: &Env, case: &Value) {
    let Some(c) = Concrete::from_json(&case["cluster"]) else { vcore::machinery_error("replay: bad cluster") };
    let absent = case["absent_dc"].as_str().unwrap_or("dcX").to_string();
    let states: Vec<NodeState> = case["states"].as_str().unwrap_or("").chars().map(NodeState::from_letter).collect();
    if states.len() != c.nodes.len() {
        vcore::machinery_error("replay: states do not match the cluster");
    }
    let cfg = PolicyCfg::from_json(&case["policy"]);
    let lwt = Lwt::from_name(case["lwt"].as_str().unwrap_or("neither"));
    let cl = build(&c, &absent);
    let t = &case["target"];
    let tablet_spec: Option<TabletSpec> = case.get("tablet").filter(|x| !x.is_null()).map(|x| TabletSpec {
        first: x["first"].as_i64().unwrap_or(0),
        last: x["last"].as_i64().unwrap_or(0),
        replicas: x["replicas"].as_array().map(|a| a.iter().map(|p| (p[0].as_u64().unwrap_or(0) as usize, p[1].as_i64().unwrap_or(0) as i32)).collect()).unwrap_or_default(),
    });
    let taught = tablet_spec.as_ref().map(|spec| teach(&cl, spec).unwrap_or_else(|e| vcore::machinery_error(&format!("replay: cannot teach the tablet: {e}"))));
    let target = if let Some(x) = t.get("tablet_token") {
        Target::Tablet(x.as_i64().unwrap_or(0), t["covered"].as_bool().unwrap_or(false))
    } else if t.as_str() == Some("nothing") {
        Target::Nothing
    } else if let Some(x) = t.get("unknown_keyspace") {
        Target::UnknownKeyspace(x.as_i64().unwrap_or(0))
    } else if let Some(x) = t.get("token_without_table") {
        Target::TokenWithoutTable(x.as_i64().unwrap_or(0))
    } else {
        let Some(s) = topo::strat_from_json(&t["strategy"]) else { vcore::machinery_error("replay: bad strategy") };
        let canon = |s: &Strat| match s {
            Strat::Nts(e) => {
                let mut e = e.clone();
                e.sort();
                Strat::Nts(e)
            }
            o => o.clone(),
        };
        let Some(si) = cl.space.strategies.iter().position(|x| canon(x) == canon(&s)) else { vcore::machinery_error("replay: strategy not in C05's family for this cluster") };
        let tok = t["token"].as_i64().unwrap_or(0);
        if !cl.space.tokens.contains(&tok) {
            vcore::machinery_error("replay: token is not one of the cluster's query tokens");
        }
        Target::Known(si, tok)
    };
    println!("replay: nodes (dc, rack, state) = {:?}", cl.ring.nodes.iter().zip(&states).map(|(n, s)| (n.dc.clone(), n.rack.clone(), s.letter())).collect::<Vec<_>>());
    println!("replay: ring (token,node) = {:?}", cl.ring.entries);
    println!("replay: policy = {}, target = {target:?}, lwt = {}", cfg.to_json(), lwt.name());
    install(&cl, &states);
    let policy = cfg.build();
    let mut tally = Tally::default();
    let tablet = match (&taught, &tablet_spec) {
        (Some(st), Some(sp)) => {
            println!("replay: tablet of kt.t = {sp:?}");
            Some((st, sp))
        }
        _ => None,
    };
    run_case(env, &mut tally, &cl, tablet, &absent, 0, &states, &cfg, policy.as_ref(), &cfg.pref.to_driver(), &Request { target, lwt }, true, true);
}

/// One token per node (ring order = node order; every dc/rack placement, hence every ring order of
/// the placement up to symmetry) plus all vnode shapes for small rings.
fn c05_topologies(max_nodes: usize, vnode_slots: usize, vnode_nodes: usize, partial_upto_nodes: usize) -> Vec<Topo> {
    let mut out = Vec::new();
    for n in 1..=max_nodes {
        for (dc, rack) in topo::placements(n, 3, 3, true, true) {
            let partial = dc.iter().any(|d| d.is_none()) || rack.iter().zip(&dc).any(|(r, d)| r.is_none() && d.is_some());
            if partial && n > partial_upto_nodes {
                continue;
            }
            out.push(Topo { slot_node: (0..n as u8).collect(), dc, rack, layout: topo::Layout::Spread });
        }
    }
    for t in 2..=vnode_slots {
        for n in 1..=vnode_nodes.min(t - 1) {
            for seq in topo::slot_sequences(t, n) {
                for (dc, rack) in topo::placements(n, 3, 3, true, true) {
                    out.push(Topo { slot_node: seq.clone(), dc, rack, layout: topo::Layout::Spread });
                }
            }
        }
    }
    out
}

fn main() {
    vcore::quiet_panics();
    let r = Report::new("C05", "plans", "exploration", "E-ENUM");
    let sink = MinViolations::default();
    let thorough = r.tier().is_thorough();
    let env = Env { r: &r, sink: &sink, signatures: Mutex::new(BTreeSet::new()), repeats: if thorough { 4 } else { 1 }, extras_upto_nodes: if thorough { 7 } else { 3 } };
    if let Some(case) = r.replay_case() {
        let env = Env { repeats: 4, ..env };
        replay(&env, &case);
        sink.flush(&r);
        r.finish_replay();
    }
    let bad = cqlref::placement::self_test();
    if !bad.is_empty() {
        vcore::machinery_error(&format!("cqlref::placement disagrees with the pinned 7-node ring expectations: {bad:?}"));
    }
    let topos = if thorough { c05_topologies(5, 4, 3, 4) } else { c05_topologies(4, 3, 2, 3) };
    // leg "structure": every node-state assignment x preference x failover x {plain, LWT flag} on token-aware policies
    // leg "config":    a few node-state assignments x every policy switch x every LWT kind
    let v = |inherited: bool, shuffle: bool, token_aware: bool, route: Route, latency_aware: bool, lwt: &[Lwt], midplan: bool| Variant { inherited, shuffle, token_aware, route, latency_aware, lwt: lwt.to_vec(), midplan };
    let plain_and_lwt = [Lwt::Neither, Lwt::Flag];
    let structure = Dims { all_states: true, variants: vec![v(false, true, true, Route::Direct, false, &Lwt::STRUCTURE, thorough)], all_tokens: thorough, random_states: 0 };
    let mut config_variants = Vec::new();
    for inherited in [false, true] {
        for shuffle in [true, false] {
            for token_aware in [true, false] {
                config_variants.push(v(inherited, shuffle, token_aware, Route::Direct, false, &Lwt::CONFIG, false));
            }
        }
    }
    // alternative entry points / builder histories / latency awareness without any penalised node / mid-plan state change
    // serial-consistency field alone / combined with LOCAL_SERIAL consistency / with the LWT flag under an inherited preference
    config_variants.push(v(false, true, true, Route::Direct, false, &[Lwt::ConsistencyLocalSerialBoth, Lwt::NeitherWithLocalSerialField], false));
    config_variants.push(v(true, true, true, Route::Direct, false, &[Lwt::FlagLocalSerial, Lwt::FlagSerial], false));
    config_variants.push(v(false, true, true, Route::Overwritten, false, &plain_and_lwt, false));
    config_variants.push(v(false, false, false, Route::Overwritten, false, &plain_and_lwt, false));
    config_variants.push(v(false, true, true, Route::ClonedBuilder, false, &plain_and_lwt, false));
    config_variants.push(v(true, true, true, Route::Overwritten, false, &plain_and_lwt, false));
    config_variants.push(v(true, true, true, Route::DefaultImpl, false, &plain_and_lwt, false));
    config_variants.push(v(false, true, true, Route::Direct, true, &plain_and_lwt, false));
    if thorough {
        config_variants.push(v(true, false, true, Route::Direct, true, &plain_and_lwt, false));
    }
    config_variants.push(v(false, true, true, Route::Direct, false, &plain_and_lwt, true));
    let config = Dims { all_states: false, variants: config_variants, all_tokens: thorough, random_states: 0 };
    let legs = [structure, config];
    let tablet_dims = TabletDims { all_states_upto_nodes: if thorough { 4 } else { 3 }, boundary_tokens: thorough };
    if r.args.has_flag("--count") {
        println!("topologies: {}", topos.len());
        let mut total: u64 = 0;
        let mut by_n: BTreeMap<usize, (u64, u64)> = BTreeMap::new();
        for t in &topos {
            let c = t.concrete(&SPELLINGS[0]);
            let ring = c.ring();
            let n = c.nodes.len() as u32;
            let prefs = prefs_for(&ring, "dcX").len() as u64;
            let strategies = c05_strategies(&c).len() as u64;
            let mut ntok = ring.entries.len() as u64 + 1;
            let mut plans = 0u64;
            for d in &legs {
                let states = if d.all_states { 3u64.pow(n) } else { few_states(n as usize).len() as u64 };
                if (!d.all_tokens || n > 4) && ntok > 3 {
                    ntok = 3;
                }
                let per_ta = 3 + strategies * ntok;
                for v in &d.variants {
                    let fo = if v.route == Route::DefaultImpl { 1 } else { 2 };
                    plans += states * prefs * fo * v.lwt.len() as u64 * if v.token_aware { per_ta } else { 4 };
                }
            }
            let tstates = if tablet_dims.all_states_upto_nodes >= n as usize { 3u64.pow(n) } else { few_states(n as usize).len() as u64 };
            plans += tablet_specs(n as usize, 0).len() as u64 * tstates * prefs * 2 * 2 * if tablet_dims.boundary_tokens { 4 } else { 2 };
            total += plans;
            let e = by_n.entry(n as usize).or_default();
            e.0 += 1;
            e.1 += plans;
        }
        for (n, (k, p)) in by_n {
            println!("nodes={n}: topologies={k} plans={p}");
        }
        println!("total plans (estimate): {total}");
        std::process::exit(0);
    }
    let env_ref = &env;
    let legs_ref = &legs;
    // every topology, and for the small ones also a variant with one more peer that owns no token
    // (known to the cluster state, absent from the ring)
    let names = &SPELLINGS[0];
    let mut clusters: Vec<Concrete> = topos.iter().map(|t| t.concrete(names)).collect();
    let zero_token_upto = if thorough { 3 } else { 2 };
    let mut zero_token_variants = 0u64;
    for t in &topos {
        if t.n() <= zero_token_upto && t.slots() == t.n() {
            let mut c = t.concrete(names);
            c.nodes.push(topo::CNode { dc: Some(names.dcs[0].to_string()), rack: Some(names.racks[0].to_string()), tokens: vec![] });
            clusters.push(c);
            zero_token_variants += 1;
        }
    }
    r.counters.add("clusters_with_a_peer_that_owns_no_token", zero_token_variants);
    // clusters whose ring is empty: one or two known peers, none owns a token
    for k in 1..=2usize {
        clusters.push(Concrete { nodes: (0..k).map(|i| topo::CNode { dc: Some(names.dcs[i % 2].to_string()), rack: Some(names.racks[0].to_string()), tokens: vec![] }).collect() });
    }
    // biggest first, so that the long ones do not form the tail
    let mut order: Vec<usize> = (0..clusters.len()).collect();
    order.sort_by_key(|i| std::cmp::Reverse(clusters[*i].nodes.len()));
    let clusters_ref = &clusters;
    vcore::par::for_each(r.args.jobs, 1, order.into_iter(), |i| {
        run_cluster(env_ref, &clusters_ref[i], names.absent_dc, i as u64, legs_ref, Some(&tablet_dims));
    });
    // the repo's own 7-node, 2-DC, vnode test cluster: every preference x failover x {plain, LWT} x every
    // strategy of the family x every ring interval, under the few_states assignments plus seeded random ones (SAMPLED)
    {
        let pinned = cqlref::placement::pinned_seven_node_ring();
        let mut nodes: Vec<topo::CNode> = pinned.nodes.iter().map(|n| topo::CNode { dc: n.dc.clone(), rack: n.rack.clone(), tokens: vec![] }).collect();
        for (t, n) in &pinned.entries {
            nodes[*n].tokens.push(*t);
        }
        let before = r.evaluations.load(std::sync::atomic::Ordering::Relaxed);
        let dims = Dims { all_states: false, variants: vec![v(false, true, true, Route::Direct, false, &plain_and_lwt, false), v(false, true, true, Route::Direct, false, &plain_and_lwt, true)], all_tokens: true, random_states: if thorough { 400 } else { 40 } };
        run_cluster(&env, &Concrete { nodes }, "unknown", u32::MAX as u64, &[dims], Some(&TabletDims { all_states_upto_nodes: 0, boundary_tokens: false }));
        r.counters.add("plans_on_the_pinned_seven_node_cluster", r.evaluations.load(std::sync::atomic::Ordering::Relaxed) - before);
    }
    sink.flush(&r);
    let sigs = env.signatures.lock().unwrap().clone();
    r.counters.add("topologies", topos.len() as u64);
    r.counters.add("distinct_plan_group_signatures", sigs.len() as u64);
    r.note("sample_group_signatures", json!(sigs.iter().rev().take(12).collect::<Vec<_>>()));
    let mut by_len: BTreeMap<usize, u64> = BTreeMap::new();
    for s in &sigs {
        *by_len.entry(s.len()).or_default() += 1;
    }
    r.note("distinct_signatures_by_plan_length", json!(by_len.iter().map(|(k, v)| (k.to_string(), *v)).collect::<BTreeMap<String, u64>>()));
    r.set_rule("E-ENUM. evaluations = plans = (topology, node-state assignment, policy configuration, request) cases; each: Plan::new(..) to exhaustion (LWT-routed ones constructed repeatedly in the thorough tier and on replay; their replica order is asserted exactly in both tiers), fallback() alone, pick() alone, judged by the set/group oracle. Leg structure: ALL {disabled,down,up}^n x every preference (none, each DC, each DC+rack incl. a non-existent rack, a DC absent from the ring) x failover on/off x {plain, LWT flag} x serial consistency {none, SERIAL, LOCAL_SERIAL} x requests {no token, token without table, unknown keyspace, every strategy of the family x query tokens} on token-aware policies. Leg config: {all up, all down, all disabled, each single node down / disabled} x the same preferences x failover x inherited/own preference x shuffle on/off x token-aware on/off x 5 LWT kinds, plus the serial-consistency field alone / combined with LOCAL_SERIAL consistency / with the LWT flag under an inherited preference; plus, x {plain, LWT}: policies obtained through other entry points (builder with contradicting setters called first, clone of an already used builder, DefaultPolicyBuilder::default(), DefaultPolicy::default()), latency awareness switched on with equal latencies reported for every node (nobody penalised), and the mid-plan history (after the first target its node goes down and every other enabled node flips up<->down: the rest of the plan is judged against the new states; thorough: also on the structure leg). Also two clusters with an empty ring. Group letters: R/L/M live replica in preferred rack / preferred DC / remote, r/l/m live non-replica, d down. Plus the repo's pinned 7-node cluster under few + seeded random (SAMPLED) node-state assignments. distinct_nontrivial = plans with >= 3 targets from >= 2 groups.");
    r.set_exhaustive(true);
    r.assume("the driver's thread RNG (round-robin rotation, replica shuffle, random first replica) is not owned: SAMPLED dimension, every assertion is a set/group property that holds for each of its answers; LWT replica order is asserted exactly because it must not depend on it");
    r.assume("nodes have no sharder (no connection), so every target's shard is 0 / unspecified: 'named twice' = same node twice; fallback() is additionally checked under the plan's own target equality");
    r.assume("group order among live NON-replicas (rack, datacenter, remote) is asserted as the statement's parenthesis is read to cover both replicas and other nodes");
    r.sample(json!({"cluster": topos[topos.len() - 1].concrete(&SPELLINGS[0]).to_json()}));
    r.finish();
}
