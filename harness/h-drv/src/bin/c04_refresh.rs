//! C04, leg `refresh` - replica sets after a metadata refresh equal the placement of the NEW topology.
//!
//! Differential oracle, engine E-ENUM: for every small topology T1 and every single-node change to T2
//! (rack / datacenter / address / rack+address / token set / host-filter verdict changed, node removed,
//! node added; thorough: every two-step sequence), the state S1 is built from T1 through the production
//! `ClusterState::new`, then refreshed with T2's metadata through the production refresh paths
//! (`ClusterState::new_updated`, `ClusterState::new_with_updated_topology`) - the node-reuse decisions of
//! `calculate_new_topology` are the code under test. Demanded, for every strategy x query token:
//!     replicas(refreshed) == cqlref placement of T2 == replicas(state built fresh from T2)
//! through len / iteration / ring-ordered view, unrestricted and per datacenter, with the strategies
//! precomputed and not, plus `get_token_endpoints`; and the node attributes (datacenter, rack, address,
//! enabled) visible through `get_nodes_info` and on the ring's node objects equal T2.
//! Nodes the host filter accepts are *enabled* but pool-less (hook H-CLUSTER refresh / H-NODE-STATE), so
//! both reuse branches (enabled and disabled nodes) run without any pool, task or socket.
use cqlref::placement::{Ring, Strat};
use h_drv::topo::{self, CNode, Concrete, EnumBounds, Family, MinViolations, SPELLINGS};
use scylla::cluster::ClusterState;
use scylla::frame::response::result::TableSpec;
use scylla::routing::Token;
use scylla::verif::cluster::{self as hook, KeyspaceSpec, PeerSpec};
use serde_json::{Value, json};
use std::collections::{BTreeMap, BTreeSet};
use std::net::{Ipv4Addr, SocketAddr};
use std::panic::AssertUnwindSafe;
use vcore::{Report, catch};

const TABLE: TableSpec<'static> = TableSpec::borrowed("ks", "t");

#[derive(Clone, Debug, PartialEq, Eq)]
struct Member {
    id: usize,
    dc: Option<String>,
    rack: Option<String>,
    tokens: Vec<i64>,
    /// address generation: the node's address is 10.9.<addr>.<id+1>:9042
    addr: u8,
    /// verdict of the host filter
    enabled: bool,
}
type World = Vec<Member>;

fn address(m: &Member) -> SocketAddr {
    SocketAddr::from((Ipv4Addr::new(10, 9, m.addr, m.id as u8 + 1), 9042))
}
fn peers(w: &World) -> Vec<PeerSpec> {
    w.iter().map(|m| PeerSpec { host_id: topo::node_uuid(m.id), address: address(m), datacenter: m.dc.clone(), rack: m.rack.clone(), tokens: m.tokens.clone() }).collect()
}
fn accepted(w: &World) -> Vec<uuid::Uuid> {
    w.iter().filter(|m| m.enabled).map(|m| topo::node_uuid(m.id)).collect()
}
fn concrete(w: &World) -> Concrete {
    Concrete { nodes: w.iter().map(|m| CNode { dc: m.dc.clone(), rack: m.rack.clone(), tokens: m.tokens.clone() }).collect() }
}
fn world_json(w: &World) -> Value {
    Value::Array(w.iter().map(|m| json!({"id": m.id, "dc": m.dc, "rack": m.rack, "tokens": m.tokens, "addr": m.addr, "enabled": m.enabled})).collect())
}
fn world_from_json(v: &Value) -> Option<World> {
    let mut w = Vec::new();
    for m in v.as_array()? {
        w.push(Member {
            id: m["id"].as_u64()? as usize,
            dc: m["dc"].as_str().map(|s| s.to_string()),
            rack: m["rack"].as_str().map(|s| s.to_string()),
            tokens: m["tokens"].as_array()?.iter().filter_map(|t| t.as_i64()).collect(),
            addr: m["addr"].as_u64().unwrap_or(0) as u8,
            enabled: m["enabled"].as_bool().unwrap_or(true),
        });
    }
    Some(w)
}
fn world_brief(w: &World) -> String {
    w.iter().map(|m| format!("n{}({},{},{:?},addr{},{})", m.id, m.dc.as_deref().unwrap_or("-"), m.rack.as_deref().unwrap_or("-"), m.tokens, m.addr, if m.enabled { "enabled" } else { "disabled" })).collect::<Vec<_>>().join(" ")
}

/// Every single-node change of `w` (label, new world).
fn single_changes(w: &World) -> Vec<(String, World)> {
    let mut out: Vec<(String, World)> = Vec::new();
    let dcs: BTreeSet<String> = w.iter().filter_map(|m| m.dc.clone()).collect();
    let used_tokens: BTreeSet<i64> = w.iter().flat_map(|m| m.tokens.iter().copied()).collect();
    let fresh_token = |k: i64| (0..).map(|j| 55 + 7 * k + 1000 * j).find(|t| !used_tokens.contains(t)).unwrap();
    for (i, m) in w.iter().enumerate() {
        let with = |f: &dyn Fn(&mut Member)| {
            let mut w2 = w.clone();
            f(&mut w2[i]);
            w2
        };
        // rack changes: to rack-less, to every other rack of its datacenter, to a rack nobody has
        let mut racks: Vec<Option<String>> = vec![None, Some("rack-new".to_string())];
        for o in w.iter().filter(|o| o.dc == m.dc && m.dc.is_some()) {
            if o.rack.is_some() && !racks.contains(&o.rack) {
                racks.push(o.rack.clone());
            }
        }
        if m.dc.is_none() {
            racks = vec![None, Some("r0".to_string())];
        }
        for r in racks.iter().filter(|r| **r != m.rack) {
            out.push((format!("n{} rack {:?}->{:?}", m.id, m.rack, r), with(&|x| x.rack = r.clone())));
            out.push((format!("n{} rack {:?}->{:?} and address", m.id, m.rack, r), with(&|x| {
                x.rack = r.clone();
                x.addr += 1;
            })));
        }
        // datacenter changes: to DC-less, to every other datacenter, to a datacenter nobody is in
        let mut dcc: Vec<Option<String>> = vec![None, Some("dc-new".to_string())];
        dcc.extend(dcs.iter().cloned().map(Some));
        for d in dcc.iter().filter(|d| **d != m.dc) {
            out.push((format!("n{} dc {:?}->{:?}", m.id, m.dc, d), with(&|x| x.dc = d.clone())));
        }
        out.push((format!("n{} address", m.id), with(&|x| x.addr += 1)));
        out.push((format!("n{} host filter verdict {}->{}", m.id, m.enabled, !m.enabled), with(&|x| x.enabled = !x.enabled)));
        // token set
        let t = fresh_token(i as i64);
        out.push((format!("n{} gains token {t}", m.id), with(&|x| x.tokens.push(t))));
        out.push((format!("n{} token {}->{t}", m.id, m.tokens[0]), with(&|x| x.tokens[0] = t)));
        if m.tokens.len() > 1 {
            out.push((format!("n{} loses token {}", m.id, m.tokens[0]), with(&|x| {
                x.tokens.remove(0);
            })));
        }
        if w.len() > 1 {
            let mut w2 = w.clone();
            w2.remove(i);
            out.push((format!("n{} removed", m.id), w2));
        }
        // node replaced within one refresh: a new host id takes over address and tokens (same place / another rack)
        let new_id = w.iter().map(|m| m.id).max().unwrap_or(0) + 1 + i;
        out.push((format!("n{} replaced by n{new_id} (same address, tokens, place)", m.id), with(&|x| x.id = new_id)));
        out.push((format!("n{} replaced by n{new_id} in rack \"rack-new\"", m.id), with(&|x| {
            x.id = new_id;
            x.rack = Some("rack-new".to_string());
        })));
    }
    // a node is added
    let new_id = w.iter().map(|m| m.id).max().unwrap_or(0) + 1;
    let mut places: Vec<(Option<String>, Option<String>)> = vec![(None, None), (Some("dc-new".into()), Some("r0".into()))];
    for d in &dcs {
        let mut racks: Vec<Option<String>> = vec![None, Some("rack-new".into())];
        for o in w.iter().filter(|o| o.dc.as_ref() == Some(d)) {
            if o.rack.is_some() && !racks.contains(&o.rack) {
                racks.push(o.rack.clone());
            }
        }
        for r in racks {
            places.push((Some(d.clone()), r));
        }
    }
    let enabled = w.iter().all(|m| m.enabled);
    for (d, r) in places {
        let mut w2 = w.clone();
        w2.push(Member { id: new_id, dc: d.clone(), rack: r.clone(), tokens: vec![fresh_token(9)], addr: 0, enabled });
        out.push((format!("n{new_id} added in ({d:?},{r:?})"), w2));
    }
    out
}

/// Two different nodes change in ONE refresh: node a changes rack (or is replaced), node b changes rack / address /
/// datacenter (quick: rack and address only).
fn simultaneous_changes(w: &World, all_classes: bool) -> Vec<(String, World)> {
    let singles = single_changes(w);
    let pick = |node: usize, classes: &[&str]| -> Vec<(String, Member)> {
        singles
            .iter()
            .filter(|(l, w2)| w2.len() == w.len() && classes.contains(&change_class(l)) && l.starts_with(&format!("n{} ", w[node].id)))
            .map(|(l, w2)| (l.clone(), w2[node].clone()))
            .collect()
    };
    let mut out = Vec::new();
    for a in 0..w.len() {
        for b in 0..w.len() {
            if a == b {
                continue;
            }
            let second: &[&str] = if all_classes { &["rack", "rack+address", "address", "datacenter", "host-filter", "tokens"] } else { &["rack", "address"] };
            for (la, ma) in pick(a, &["rack", "replaced"]) {
                for (lb, mb) in pick(b, second) {
                    if a > b && change_class(&lb) == "rack" {
                        continue; // rack x rack: unordered pair
                    }
                    let mut w2 = w.clone();
                    w2[a] = ma.clone();
                    w2[b] = mb;
                    out.push((format!("at once: {la}; {lb}"), w2));
                }
            }
        }
    }
    out
}

#[derive(Default)]
struct Tally {
    sequences: u64,
    triples: u64,
    nontrivial: u64,
    states_built: u64,
    node_objects_reused: u64,
    node_objects_replaced: u64,
    simultaneous: u64,
    by_change: BTreeMap<&'static str, u64>,
}

fn idx(n: &std::sync::Arc<scylla::cluster::Node>) -> usize {
    topo::node_index(n.host_id)
}

type Attr = (usize, Option<String>, Option<String>, SocketAddr, bool);
fn attrs_of_world(w: &World) -> BTreeSet<Attr> {
    w.iter().map(|m| (m.id, m.dc.clone(), m.rack.clone(), address(m), m.enabled)).collect()
}
fn attr_of_node(n: &std::sync::Arc<scylla::cluster::Node>) -> Attr {
    (idx(n), n.datacenter.clone(), n.rack.clone(), SocketAddr::new(n.address.ip(), n.address.port()), n.is_enabled())
}

/// Everything that is demanded of one state that claims to describe world `w`.
/// Returns (view, complaint); `per_triple` is called once per (strategy, token).
#[allow(clippy::too_many_arguments)]
fn judge_state(st: &ClusterState, w: &World, ring: &Ring, ids: &[usize], strats: &[Strat], precomputed: bool, tokens: &[i64], only: Option<(&Strat, i64)>) -> Vec<(String, String, usize, i64)> {
    let mut bad: Vec<(String, String, usize, i64)> = Vec::new();
    // node attributes
    let got: BTreeSet<Attr> = st.get_nodes_info().iter().map(attr_of_node).collect();
    let want = attrs_of_world(w);
    if got != want {
        bad.push(("node-attributes".into(), format!("get_nodes_info shows (id, dc, rack, address, enabled) = {got:?}, the metadata says {want:?}"), 0, 0));
    }
    let on_ring: BTreeSet<Attr> = st.replica_locator().unique_nodes_in_global_ring().iter().map(attr_of_node).collect();
    let want_ring: BTreeSet<Attr> = want.iter().filter(|a| w.iter().any(|m| m.id == a.0 && !m.tokens.is_empty())).cloned().collect();
    if on_ring != want_ring {
        bad.push(("ring-node-attributes".into(), format!("the ring's node objects show {on_ring:?}, the metadata says {want_ring:?}"), 0, 0));
    }
    let mut ask: Vec<Option<String>> = vec![None];
    ask.extend(ring.datacenters().into_iter().map(Some));
    let to_ids = |v: Vec<usize>| -> Vec<usize> { v.into_iter().map(|k| ids[k]).collect() };
    for (si, s) in strats.iter().enumerate() {
        if let Some((os, _)) = only {
            if os != s {
                continue;
            }
        }
        let kind = topo::strat_kind(s);
        let strategy = topo::to_driver_strategy(s);
        for &tok in tokens {
            if let Some((_, ot)) = only {
                if ot != tok {
                    continue;
                }
            }
            let token = Token::new(tok);
            for dc in &ask {
                let want: Vec<usize> = to_ids(match dc {
                    None => ring.replicas_ring_order(token.value(), s),
                    Some(d) => ring.replicas_ring_order_in_dc(token.value(), s, d),
                });
                let loc = st.replica_locator();
                let got = catch(AssertUnwindSafe(|| {
                    let f = || loc.replicas_for_token(token, &strategy, dc.as_deref(), &TABLE);
                    {
                        // capped drains instead of collect(): nothing is sized by what the driver reports
                        let cap = topo::node_cap(w.len());
                        let (it, e1) = topo::drain_capped(f().into_iter().map(|(n, _)| idx(n)), cap);
                        let (ord, e2) = topo::drain_capped(f().into_replicas_ordered().into_iter().map(|(n, _)| idx(n)), cap);
                        assert!(!(e1 || e2), "iteration yields more than {cap} elements");
                        (f().len(), it, ord)
                    }
                }));
                let r = if dc.is_some() { "dc-restricted:" } else { "" };
                match got {
                    Err(p) => bad.push((format!("{r}panic:{kind}"), format!("replica views panicked: {p}"), si, tok)),
                    Ok((len, iter, ordered)) => {
                        let (mut a, mut b) = (iter.clone(), want.clone());
                        a.sort_unstable();
                        b.sort_unstable();
                        if a != b {
                            bad.push((format!("{r}iter-set:{kind}"), format!("strategy {} token {tok} restricted to {dc:?}: iteration yields {iter:?}, the placement of the new topology is {want:?}", topo::strat_to_json(s)), si, tok));
                        }
                        if len != iter.len() {
                            bad.push((format!("{r}len:{kind}"), format!("strategy {} token {tok}: len {len} but iteration {iter:?}", topo::strat_to_json(s)), si, tok));
                        }
                        if ordered != want {
                            bad.push((format!("{r}ordered:{kind}"), format!("strategy {} token {tok} restricted to {dc:?}: ring-ordered view {ordered:?}, the placement of the new topology in ring order is {want:?}", topo::strat_to_json(s)), si, tok));
                        }
                    }
                }
            }
            if precomputed {
                let got: Vec<usize> = st.get_token_endpoints(&format!("ks{si}"), "t", token).iter().map(|(n, _)| idx(n)).collect();
                let mut a = got.clone();
                a.sort_unstable();
                let mut b = to_ids(ring.replicas_ring_order(token.value(), s));
                b.sort_unstable();
                if a != b {
                    bad.push((format!("endpoints:{kind}"), format!("strategy {} token {tok}: get_token_endpoints = {got:?}, the placement of the new topology is {b:?}", topo::strat_to_json(s)), si, tok));
                }
            }
        }
    }
    bad
}

struct Env<'a> {
    r: &'a Report,
    sink: &'a MinViolations,
}

fn rt_block<F: std::future::Future>(f: F) -> F::Output {
    thread_local! {
        static RT: tokio::runtime::Runtime = tokio::runtime::Builder::new_current_thread().max_blocking_threads(1).build().expect("tokio runtime");
    }
    RT.with(|rt| rt.block_on(f))
}

fn change_class(label: &str) -> &'static str {
    if label.starts_with("at once:") {
        "two-nodes-at-once"
    } else if label.contains("replaced") {
        "replaced"
    } else if label.contains("rack") && label.contains("and address") {
        "rack+address"
    } else if label.contains(" rack ") {
        "rack"
    } else if label.contains(" dc ") {
        "datacenter"
    } else if label.contains("host filter") {
        "host-filter"
    } else if label.contains("token") {
        "tokens"
    } else if label.contains("removed") {
        "removed"
    } else if label.contains("added") {
        "added"
    } else {
        "address"
    }
}

/// One refresh sequence worlds[0] -> worlds[1] (-> worlds[2] ...): every prefix state is built by refreshing
/// the previous one; the LAST world is what is judged (shorter prefixes are judged as their own sequences).
fn run_sequence(env: &Env, tally: &mut Tally, worlds: &[World], labels: &[String], rank: u64, only: Option<(&Strat, i64)>, verbose: bool) {
    let last = worlds.last().unwrap();
    let c_last = concrete(last);
    let ring = c_last.ring();
    let ids: Vec<usize> = last.iter().map(|m| m.id).collect();
    let family = Family { rf_extra: 1, absent_rfs: vec![] };
    let strats = topo::strategies(&c_last, "dcX", &family);
    let mut tokens = ring.query_tokens(false);
    tokens.push(i64::MIN);
    let first_ring = concrete(&worlds[0]).ring();
    let first_ids: Vec<usize> = worlds[0].iter().map(|m| m.id).collect();
    tally.sequences += 1;
    *tally.by_change.entry(change_class(labels.last().map(|s| s.as_str()).unwrap_or(""))).or_default() += 1;
    for s in &strats {
        for t in &tokens {
            tally.triples += 1;
            let tv = Token::new(*t).value();
            let before: Vec<usize> = first_ring.replicas_ring_order(tv, s).into_iter().map(|k| first_ids[k]).collect();
            let after: Vec<usize> = ring.replicas_ring_order(tv, s).into_iter().map(|k| ids[k]).collect();
            if before != after {
                tally.nontrivial += 1;
            }
        }
    }
    let case = || json!({"worlds": worlds.iter().map(world_json).collect::<Vec<_>>(), "changes": labels});
    for precomputed in [true, false] {
        let all_ks = || -> Vec<KeyspaceSpec> { strats.iter().enumerate().map(|(i, s)| topo::keyspace(&format!("ks{i}"), s, false)).collect() };
        let ks: Vec<KeyspaceSpec> = if precomputed { all_ks() } else { vec![] };
        let other_ks: Vec<KeyspaceSpec> = if precomputed { vec![] } else { all_ks() };
        // the two production refresh paths, chained over the whole sequence
        for path in ["new_updated", "new_with_updated_topology"] {
            let built = catch(AssertUnwindSafe(|| {
                rt_block(async {
                    // on the full-refresh path the FIRST state knows the opposite keyspace set (schema changes with the
                    // refresh: nothing precomputed before may survive); the topology-only path reuses the old schema
                    let first_ks: &[KeyspaceSpec] = if path == "new_updated" { &other_ks } else { &ks };
                    let mut st = hook::cluster_state_filtered(&peers(&worlds[0]), first_ks, &accepted(&worlds[0])).await;
                    let mut reused = (0u64, 0u64);
                    for w in &worlds[1..] {
                        let next = if path == "new_updated" { hook::refresh_full(&st, &peers(w), &ks, &accepted(w)).await } else { hook::refresh_topology(&st, &peers(w), &accepted(w)).await };
                        for n in next.get_nodes_info() {
                            match st.get_node_by_host_id(n.host_id) {
                                Some(o) if std::sync::Arc::ptr_eq(o, n) => reused.0 += 1,
                                _ => reused.1 += 1,
                            }
                        }
                        st = next;
                    }
                    (st, reused)
                })
            }));
            let (st, reused) = match built {
                Ok(x) => x,
                Err(p) => {
                    env.sink.report("refresh:panic", rank, || (format!("{path} panicked at {}: {p}; {} then {labels:?}", vcore::last_panic_location(), world_brief(&worlds[0])), case()));
                    continue;
                }
            };
            tally.states_built += worlds.len() as u64;
            tally.node_objects_reused += reused.0;
            tally.node_objects_replaced += reused.1;
            // what is handed out is a clone (ClusterState::clone is what the worker publishes / updates tablets on)
            let st = if path == "new_updated" { st } else { st.clone() };
            let bad = judge_state(&st, last, &ring, &ids, &strats, precomputed, &tokens, only);
            if verbose {
                println!("replay: [{path}, strategies {}] {} complaint(s)", if precomputed { "precomputed" } else { "on the fly" }, bad.len());
            }
            for (view, text, si, tok) in bad {
                let key = format!("refresh:{view}");
                env.sink.report(&key, rank, || {
                    let mut c = case();
                    c["strategy"] = topo::strat_to_json(&strats[si]);
                    c["token"] = json!(tok);
                    (format!("after {path} ({}): {text}; before: {}; changes: {labels:?}; after: {}", if precomputed { "strategies precomputed" } else { "strategies not precomputed" }, world_brief(&worlds[0]), world_brief(last)), c)
                });
            }
        }
        // the state built fresh from the last world must satisfy the same demands
        let fresh = catch(AssertUnwindSafe(|| rt_block(hook::cluster_state_filtered(&peers(last), &ks, &accepted(last)))));
        match fresh {
            Err(p) => env.sink.report("fresh:panic", rank, || (format!("ClusterState::new panicked: {p}"), case())),
            Ok(st) => {
                tally.states_built += 1;
                for (view, text, si, tok) in judge_state(&st, last, &ring, &ids, &strats, precomputed, &tokens, only) {
                    env.sink.report(&format!("fresh:{view}"), rank, || {
                        let mut c = case();
                        c["strategy"] = topo::strat_to_json(&strats[si]);
                        c["token"] = json!(tok);
                        (format!("state built fresh: {text}; world: {}", world_brief(last)), c)
                    });
                }
            }
        }
    }
}

fn base_worlds(max_slots: usize, max_nodes: usize) -> Vec<World> {
    let topos = topo::enumerate(&EnumBounds { max_slots, max_nodes, max_dcs: 3, max_racks: 3, extremes_upto_slots: 0, dup_upto_slots: 0, node_cap: |_| usize::MAX });
    let mut out = Vec::new();
    for t in &topos {
        let c = t.concrete(&SPELLINGS[0]);
        for enabled in [true, false] {
            out.push(c.nodes.iter().enumerate().map(|(i, n)| Member { id: i, dc: n.dc.clone(), rack: n.rack.clone(), tokens: n.tokens.clone(), addr: 0, enabled }).collect());
        }
    }
    out
}

fn main() {
    vcore::quiet_panics();
    let r = Report::new("C04", "refresh", "exploration", "E-ENUM");
    let sink = MinViolations::default();
    let env = Env { r: &r, sink: &sink };
    if let Some(case) = r.replay_case() {
        let worlds: Vec<World> = case["worlds"].as_array().map(|a| a.iter().filter_map(world_from_json).collect()).unwrap_or_default();
        if worlds.len() < 2 {
            vcore::machinery_error("replay: need at least two worlds");
        }
        let labels: Vec<String> = case["changes"].as_array().map(|a| a.iter().filter_map(|x| x.as_str().map(|s| s.to_string())).collect()).unwrap_or_default();
        for (i, w) in worlds.iter().enumerate() {
            println!("replay: world {i}: {}", world_brief(w));
        }
        println!("replay: changes: {labels:?}");
        let only_s = topo::strat_from_json(&case["strategy"]);
        let only_t = case["token"].as_i64();
        // strategies are matched structurally against the family of the last world
        let fam = topo::strategies(&concrete(worlds.last().unwrap()), "dcX", &Family { rf_extra: 1, absent_rfs: vec![] });
        let canon = |s: &Strat| match s {
            Strat::Nts(e) => {
                let mut e = e.clone();
                e.sort();
                Strat::Nts(e)
            }
            o => o.clone(),
        };
        let found = only_s.and_then(|s| fam.iter().find(|x| canon(x) == canon(&s)).cloned());
        let mut tally = Tally::default();
        let only = match (&found, only_t) {
            (Some(s), Some(t)) => Some((s, t)),
            _ => None,
        };
        run_sequence(&env, &mut tally, &worlds, &labels, 0, only, true);
        sink.flush(&r);
        r.finish_replay();
    }
    let bad = cqlref::placement::self_test();
    if !bad.is_empty() {
        vcore::machinery_error(&format!("cqlref::placement disagrees with the pinned 7-node ring expectations: {bad:?}"));
    }
    let thorough = r.tier().is_thorough();
    // quick: bases of <= 3 slots / <= 3 nodes, single changes; thorough: <= 4 slots / <= 3 nodes single changes,
    // and every two-step sequence over the <= 2-slot bases
    let bases = if thorough { base_worlds(4, 3) } else { base_worlds(3, 3) };
    let two_step_upto_nodes = if thorough { 2 } else { 0 };
    if r.args.has_flag("--count") {
        let n: usize = bases.iter().map(|b| single_changes(b).len()).sum();
        println!("bases: {}, single-change sequences: {n}", bases.len());
        std::process::exit(0);
    }
    let env_ref = &env;
    let totals = std::sync::Mutex::new(Tally::default());
    vcore::par::for_each(r.args.jobs, 2, bases.iter().enumerate(), |(bi, base)| {
        let mut tally = Tally::default();
        for (ci, (label, w2)) in single_changes(base).into_iter().enumerate() {
            let rank = ((bi as u64) << 32) | ((ci as u64) << 16);
            run_sequence(env_ref, &mut tally, &[base.clone(), w2.clone()], &[label.clone()], rank, None, false);
            let _ = ci;
            if base.len() <= two_step_upto_nodes && base.iter().map(|m| m.tokens.len()).sum::<usize>() <= 2 {
                for (di, (label2, w3)) in single_changes(&w2).into_iter().enumerate() {
                    run_sequence(env_ref, &mut tally, &[base.clone(), w2.clone(), w3], &[label.clone(), label2], rank | (1 << 15) | di as u64, None, false);
                }
            }
        }
        // (quick: only from bases whose nodes are enabled - the branch with three outcomes)
        let sim = if thorough || base.iter().all(|m| m.enabled) { simultaneous_changes(base, thorough) } else { vec![] };
        for (si, (label, w2)) in sim.into_iter().enumerate() {
            run_sequence(env_ref, &mut tally, &[base.clone(), w2], &[label], ((bi as u64) << 32) | (1 << 31) | si as u64, None, false);
            tally.simultaneous += 1;
        }
        let mut g = totals.lock().unwrap();
        g.simultaneous += tally.simultaneous;
        g.sequences += tally.sequences;
        g.triples += tally.triples;
        g.nontrivial += tally.nontrivial;
        g.states_built += tally.states_built;
        g.node_objects_reused += tally.node_objects_reused;
        g.node_objects_replaced += tally.node_objects_replaced;
        for (k, v) in tally.by_change {
            *g.by_change.entry(k).or_default() += v;
        }
    });
    sink.flush(&r);
    let t = totals.into_inner().unwrap();
    r.eval(t.triples);
    r.nontrivial(t.nontrivial);
    r.counters.add("base_topologies_x_host_filter", bases.len() as u64);
    r.counters.add("refresh_sequences", t.sequences);
    r.counters.add("sequences_with_two_nodes_changing_in_one_refresh", t.simultaneous);
    r.counters.add("cluster_states_built_or_refreshed", t.states_built);
    r.counters.add("node_objects_reused_by_a_refresh", t.node_objects_reused);
    r.counters.add("node_objects_replaced_or_new_after_a_refresh", t.node_objects_replaced);
    for (k, v) in &t.by_change {
        r.counters.add(&format!("sequences_ending_in_change_{k}"), *v);
    }
    r.set_rule("E-ENUM, differential. evaluations = (refresh sequence, strategy, query token) triples. Bases: every canonical topology of <= 3 token slots / <= 3 nodes (thorough: <= 4 slots) x host filter {accepts all, rejects all}; sequence = base followed by every single-node change (rack to none / another existing / a new rack, the same together with an address change, datacenter to none / another / a new one, address, host-filter verdict, token gained / moved / lost, node removed, node replaced by a new host id at the same address (same place / new rack), node added in every datacenter x rack incl. new ones), and two different nodes changing in ONE refresh (rack or replacement of one x rack / address of the other; thorough: x every class) - thorough: also every two-step sequence over bases of <= 2 nodes. Each sequence is driven through ClusterState::new + new_updated and + new_with_updated_topology, with the strategies precomputed and not; the refreshed state and a state built fresh from the last metadata are both compared with cqlref::placement of the last topology (len, iteration, ring-ordered view, unrestricted and per datacenter, get_token_endpoints) and with the metadata's node attributes (get_nodes_info and the ring's node objects). distinct_nontrivial = triples whose placement differs between the first and the last topology of the sequence.");
    r.set_exhaustive(true);
    r.assume("host-filter-accepted nodes are enabled but pool-less (hook): the reuse decisions of calculate_new_topology run as in production, pool hand-over (update_endpoint) is not exercised");
    r.assume("on the new_updated path the state before the refresh knows the opposite keyspace set (none <-> all strategies), on the topology-only path the schema is reused by construction; the state judged on the topology-only path is a ClusterState::clone");
    if let Some(b) = bases.last() {
        let ch = single_changes(b);
        r.sample(json!({"base": world_json(b), "changes": ch.iter().map(|c| c.0.clone()).collect::<Vec<_>>()}));
    }
    r.finish();
}
