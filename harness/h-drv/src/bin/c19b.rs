//! C19 leg B - metadata hand-off (`merge_channel`) *inside* the polls, engine E-THREAD (baton) on E-DFS.
//!
//! Two OS threads, a producer and a consumer, run small programs on the real channel. The channel calls
//! `scylla::verif::merge::point(label)` between its shared-memory steps (after the receiver check and
//! after unlocking in `modify`; between flag store and notify in the sender's `Drop`; before/after
//! `enable`, after the first `take`, after the flag load and before the await in `recv`). Each thread
//! blocks there until the explorer hands it the baton, so exactly one thread runs between two points and
//! `vcore::dfs` enumerates every interleaving of those segments within a preemption bound.
//!
//! Oracle (exact, because `take`+return and the `modify` closure are each inside one segment):
//!   * the closure of every `modify` sees exactly the values pushed and not yet received or retracted;
//!   * every batch returned by `recv` is exactly that pending sequence (so every pushed k comes out once,
//!     in order, in one batch, unless a retract saw and removed it);
//!   * `recv` returns `None` only after the sender's drop began and with nothing pending;
//!   * `modify` fails iff the receiver's drop happened before the call, and then does not run the closure;
//!   * no lost wake-up: whenever the producer is between operations and the consumer is parked without its
//!     waker having been called, nothing is pending and the sender is alive; and no execution ends with the
//!     consumer parked.
use h_drv::baton::{self, Alt, Baton, Stop};
use scylla::verif::merge as hook;
use serde_json::{Value, json};
use std::collections::{BTreeMap, BTreeSet};
use std::future::Future;
use std::sync::atomic::{AtomicBool, AtomicU8, AtomicU64, Ordering};
use std::sync::{Arc, Mutex};
use std::task::{Context, Poll, Wake, Waker};
use std::time::Duration;
use vcore::Report;
use vcore::dfs::{Chooser, DfsOpts, explore, replay_one};

type Batch = Vec<u32>;
const PROD: usize = 0;
const CONS: usize = 1;
const GO: u8 = 0;
const CANCEL: u8 = 1;
const SPURIOUS: u8 = 2;
const MAX_SEGMENTS: u64 = 1000;
/// set once a livelock was seen: the remaining schedules of the sweep are skipped (each would spin to the cap again)
static LIVELOCK_SEEN: AtomicBool = AtomicBool::new(false);
static REPLAYING: AtomicBool = AtomicBool::new(false);

#[derive(Clone, Copy, Debug, PartialEq, Eq)]
enum Op {
    Push,
    Retract,
    Touch,
    DropSender,
}
impl Op {
    fn ch(self) -> char {
        match self {
            Op::Push => 'p',
            Op::Retract => 'r',
            Op::Touch => 't',
            Op::DropSender => 'd',
        }
    }
    fn parse(s: &str) -> Vec<Op> {
        s.chars()
            .map(|c| match c {
                'p' => Op::Push,
                'r' => Op::Retract,
                't' => Op::Touch,
                'd' => Op::DropSender,
                _ => vcore::machinery_error("bad producer program"),
            })
            .collect()
    }
}

#[derive(Clone, Copy, Debug, PartialEq, Eq)]
enum ConsProg {
    /// recv until None
    Drain,
    /// recv one batch, then drop the receiver
    TakeOneThenDrop,
}

#[derive(Clone, Debug)]
struct Prog {
    prod: Vec<Op>,
    cons: ConsProg,
    cancels: u8,
    spurious: u8,
}
impl Prog {
    fn name(&self) -> String {
        format!(
            "{}|{}|c{}s{}",
            self.prod.iter().map(|o| o.ch()).collect::<String>(),
            if self.cons == ConsProg::Drain { "drain" } else { "take1-drop" },
            self.cancels,
            self.spurious
        )
    }
    fn to_json(&self) -> Value {
        json!({"producer": self.prod.iter().map(|o| o.ch()).collect::<String>(), "consumer": if self.cons == ConsProg::Drain { "drain" } else { "take1-drop" }, "cancels": self.cancels, "spurious_polls": self.spurious})
    }
    fn from_json(v: &Value) -> Prog {
        Prog {
            prod: Op::parse(v["producer"].as_str().unwrap_or("pd")),
            cons: if v["consumer"].as_str() == Some("take1-drop") { ConsProg::TakeOneThenDrop } else { ConsProg::Drain },
            cancels: v["cancels"].as_u64().unwrap_or(0) as u8,
            spurious: v["spurious_polls"].as_u64().unwrap_or(0) as u8,
        }
    }
}

struct Flag {
    woken: AtomicBool,
}
impl Wake for Flag {
    fn wake(self: Arc<Self>) {
        self.woken.store(true, Ordering::SeqCst)
    }
    fn wake_by_ref(self: &Arc<Self>) {
        self.woken.store(true, Ordering::SeqCst)
    }
}

/// Everything the two threads and the controller observe, in global order (one thread runs at a time).
#[derive(Default)]
struct Obs {
    log: Vec<String>,
    /// reference: pushed and not yet received / retracted
    live: Vec<u32>,
    pushed: Vec<u32>,
    received: Vec<Batch>,
    retracted: Vec<u32>,
    modify_results: Vec<bool>,
    got_none: bool,
    sender_drop_started: bool,
    sender_drop_done: bool,
    receiver_dropped: bool,
    producer_in_op: bool,
    complaint: Option<String>,
}
impl Obs {
    fn complain(&mut self, s: String) {
        if self.complaint.is_none() {
            self.log.push(format!("!! {s}"));
            self.complaint = Some(s);
        }
    }
}

fn producer(b: &Baton, obs: &Mutex<Obs>, tx: hook::MergeSender<Batch>, ops: &[Op]) {
    let mut tx = Some(tx);
    let mut next_k = 1u32;
    for op in ops {
        b.pause(PROD, "prod:op");
        match op {
            Op::Push | Op::Retract | Op::Touch => {
                let k = next_k;
                let receiver_gone_before = {
                    let mut o = obs.lock().unwrap();
                    o.producer_in_op = true;
                    o.log.push(format!("P modify({}) begins", match op { Op::Push => format!("push {k}"), Op::Retract => "retract".into(), _ => "no-op".into() }));
                    o.receiver_dropped
                };
                let mut ran = false;
                let res = tx.as_mut().unwrap().modify(|slot| {
                    ran = true;
                    let mut o = obs.lock().unwrap();
                    let before: Batch = slot.clone().unwrap_or_default();
                    if before != o.live || (slot.is_some() && before.is_empty()) {
                        let live = o.live.clone();
                        o.complain(format!("modify-sees-wrong-slot: the closure saw {slot:?}, pending (pushed, not received, not retracted) is {live:?}"));
                    }
                    match op {
                        Op::Push => {
                            slot.get_or_insert_default().push(k);
                            o.live.push(k);
                            o.pushed.push(k);
                        }
                        Op::Retract => {
                            if let Some(bv) = slot.take() {
                                o.retracted.extend(bv);
                            }
                            o.live.clear();
                        }
                        _ => {}
                    }
                    o.log.push(format!("P   closure saw {before:?}"));
                });
                if *op == Op::Push {
                    next_k += 1;
                }
                let mut o = obs.lock().unwrap();
                o.producer_in_op = false;
                o.modify_results.push(res.is_ok());
                o.log.push(format!("P modify returns {res:?}"));
                if res.is_err() != receiver_gone_before {
                    o.complain(format!("modify-contract: modify returned {res:?} but the receiver was {} when the call began", if receiver_gone_before { "already dropped" } else { "alive" }));
                }
                if res.is_err() && ran {
                    o.complain("modify-contract: modify reported the receiver gone but ran the closure".into());
                }
                if res.is_ok() && !ran {
                    o.complain("modify-contract: modify returned Ok without running the closure".into());
                }
            }
            Op::DropSender => {
                {
                    let mut o = obs.lock().unwrap();
                    o.producer_in_op = true;
                    o.sender_drop_started = true;
                    o.log.push("P drop(sender) begins".into());
                }
                drop(tx.take());
                let mut o = obs.lock().unwrap();
                o.producer_in_op = false;
                o.sender_drop_done = true;
                o.log.push("P drop(sender) done".into());
            }
        }
    }
}

fn consumer(b: &Baton, obs: &Mutex<Obs>, rx: hook::MergeReceiver<Batch>, prog: ConsProg, cmd: &AtomicU8, flag: &Arc<Flag>) {
    let mut rx = rx;
    let waker = Waker::from(flag.clone());
    let mut cx = Context::from_waker(&waker);
    'recvs: loop {
        b.pause(CONS, "cons:start-recv");
        obs.lock().unwrap().log.push("C recv() created".into());
        let mut fut = Box::pin(rx.recv());
        loop {
            flag.woken.store(false, Ordering::SeqCst);
            match fut.as_mut().poll(&mut cx) {
                Poll::Ready(Some(batch)) => {
                    {
                        let mut o = obs.lock().unwrap();
                        o.log.push(format!("C recv -> Some({batch:?})"));
                        if batch != o.live {
                            let live = o.live.clone();
                            o.complain(format!("value-lost-duplicated-or-reordered: recv returned {batch:?}, pending is {live:?}"));
                        }
                        o.live.clear();
                        o.received.push(batch);
                    }
                    drop(fut);
                    if prog == ConsProg::TakeOneThenDrop {
                        b.pause(CONS, "cons:before-drop-receiver");
                        drop(rx);
                        let mut o = obs.lock().unwrap();
                        o.receiver_dropped = true;
                        o.log.push("C drop(receiver)".into());
                        return;
                    }
                    continue 'recvs;
                }
                Poll::Ready(None) => {
                    let mut o = obs.lock().unwrap();
                    o.log.push("C recv -> None".into());
                    o.got_none = true;
                    if !o.sender_drop_started {
                        o.complain("none-while-sender-alive: recv returned None before the sender's drop began".into());
                    } else if !o.live.is_empty() {
                        let live = o.live.clone();
                        o.complain(format!("none-before-last-value: recv returned None while {live:?} was still pending: the last update is lost"));
                    }
                    return;
                }
                Poll::Pending => {
                    obs.lock().unwrap().log.push("C recv -> Pending (parked)".into());
                    b.pause(CONS, "cons:parked");
                    match cmd.load(Ordering::SeqCst) {
                        CANCEL => {
                            drop(fut);
                            obs.lock().unwrap().log.push("C recv future dropped (cancel)".into());
                            continue 'recvs;
                        }
                        SPURIOUS => obs.lock().unwrap().log.push("C spurious poll".into()),
                        _ => obs.lock().unwrap().log.push("C woken, polls again".into()),
                    }
                }
            }
        }
    }
}

#[derive(Default)]
struct ExecOut {
    complaint: Option<String>,
    machinery: Option<String>,
    log: Vec<String>,
    segments: u64,
    inner_preemptions: u64,
    preempted_at: Vec<&'static str>,
    reached: BTreeSet<&'static str>,
    outcome: String,
    cancels_used: u8,
    skipped: bool,
}

fn is_hook_point(l: &str) -> bool {
    hook::POINTS.contains(&l)
}

/// One complete execution under the chooser's schedule.
fn run_exec(prog: &Prog, ch: &mut Chooser) -> ExecOut {
    let mut out = ExecOut::default();
    if LIVELOCK_SEEN.load(Ordering::Relaxed) && !REPLAYING.load(Ordering::Relaxed) {
        out.skipped = true;
        return out;
    }
    let (tx, rx) = hook::merge_channel::<Batch>();
    // one segment is a few shared-memory steps (microseconds); 10 s without reaching the next point = the call spins or blocks
    let b = Baton::with_deadline(2, Duration::from_secs(10));
    let obs = Mutex::new(Obs::default());
    let cmd = AtomicU8::new(GO);
    let flag = Arc::new(Flag { woken: AtomicBool::new(false) });
    std::thread::scope(|s| {
        let (obs_r, cmd_r, flag_r) = (&obs, &cmd, &flag);
        let ops = prog.prod.clone();
        let b1 = b.clone();
        baton::spawn(s, &b, PROD, move || producer(&b1, obs_r, tx, &ops));
        let b2 = b.clone();
        let cons = prog.cons;
        baton::spawn(s, &b, CONS, move || consumer(&b2, obs_r, rx, cons, cmd_r, flag_r));
        if let Err(e) = b.wait_all_started() {
            out.machinery = Some(e);
            b.abort();
            return;
        }
        let mut last: Option<usize> = None;
        let mut cancels = prog.cancels;
        let mut spurious = prog.spurious;
        loop {
            let ps = b.stop_of(PROD);
            let cs = b.stop_of(CONS);
            for st in [&ps, &cs] {
                if let Stop::Point(l) = st {
                    out.reached.insert(*l);
                }
                if let Stop::Panicked(p) = st {
                    obs.lock().unwrap().complain(format!("panic: a thread panicked inside the channel: {p}"));
                }
            }
            let woken = flag.woken.load(Ordering::SeqCst);
            let parked = cs == Stop::Point("cons:parked");
            // quiescent-point invariant: producer between operations, consumer parked and not woken
            {
                let mut o = obs.lock().unwrap();
                if parked && !woken && !o.producer_in_op && (!o.live.is_empty() || o.sender_drop_done) {
                    let why = if !o.live.is_empty() { format!("{:?} is pending", o.live) } else { "the sender is gone".into() };
                    o.complain(format!("lost-wakeup: the consumer is parked, its waker was not called, the producer is between operations and {why}"));
                }
                if o.complaint.is_some() {
                    break;
                }
            }
            let mut alts: Vec<Alt> = Vec::new();
            if matches!(ps, Stop::Point(_)) {
                alts.push(Alt { tid: PROD, action: GO, continues_last: last == Some(PROD) });
            }
            match &cs {
                Stop::Point(_) if !parked => alts.push(Alt { tid: CONS, action: GO, continues_last: last == Some(CONS) }),
                Stop::Point(_) => {
                    if woken {
                        alts.push(Alt { tid: CONS, action: GO, continues_last: last == Some(CONS) });
                    }
                    // cancelling / a spurious poll are the consumer's own moves; they are never offered as the only
                    // way forward (a parked consumer that nobody wakes is the lost wake-up we are looking for)
                    if !alts.is_empty() {
                        if cancels > 0 {
                            alts.push(Alt { tid: CONS, action: CANCEL, continues_last: false });
                        }
                        if spurious > 0 && !woken {
                            alts.push(Alt { tid: CONS, action: SPURIOUS, continues_last: false });
                        }
                    }
                }
                _ => {}
            }
            if alts.is_empty() {
                break;
            }
            let costs = baton::price(&mut alts);
            let pick = if alts.len() == 1 { 0 } else { ch.choose_costed("sched", &costs) };
            if ch.diverged.is_some() {
                break;
            }
            let a = alts[pick];
            if costs[pick] > 0 {
                // a preemption: the thread that ran last could have continued
                if let Some(Stop::Point(l)) = last.map(|t| if t == PROD { ps.clone() } else { cs.clone() }) {
                    out.preempted_at.push(l);
                    if is_hook_point(l) {
                        out.inner_preemptions += 1;
                    }
                }
            }
            if a.tid == CONS {
                cmd.store(a.action, Ordering::SeqCst);
                match a.action {
                    CANCEL => {
                        cancels -= 1;
                        out.cancels_used += 1;
                    }
                    SPURIOUS => spurious -= 1,
                    _ => {}
                }
            }
            out.segments += 1;
            if out.segments > MAX_SEGMENTS {
                // every program needs well under a hundred segments; thousands mean a thread keeps running inside one
                // operation (passing yield points in a loop) without ever returning or parking
                let who = if a.tid == PROD { "producer" } else { "consumer" };
                LIVELOCK_SEEN.store(true, Ordering::Relaxed);
                obs.lock().unwrap().complain(format!("poll:does-not-return: after {MAX_SEGMENTS} segments the {who} is still running inside one operation (it passes yield points in a loop and never returns or parks): livelock"));
                break;
            }
            {
                let from = match if a.tid == PROD { &ps } else { &cs } {
                    Stop::Point(l) => *l,
                    _ => "?",
                };
                let what = match (a.tid, a.action) {
                    (CONS, CANCEL) => " (cancel)",
                    (CONS, SPURIOUS) => " (spurious poll)",
                    _ => "",
                };
                obs.lock().unwrap().log.push(format!("  -- {} runs from {from}{what}{}", if a.tid == PROD { "P" } else { "C" }, if costs[pick] > 0 { " [preemption]" } else { "" }));
            }
            match b.resume(a.tid) {
                Ok(_) => {}
                Err(e) => {
                    out.machinery = Some(e);
                    break;
                }
            }
            last = Some(a.tid);
        }
        // end of execution
        {
            let mut o = obs.lock().unwrap();
            let cs = b.stop_of(CONS);
            if o.complaint.is_none() && out.machinery.is_none() && ch.diverged.is_none() {
                if let Stop::Point(l) = cs {
                    let (live, gone) = (o.live.clone(), o.sender_drop_done);
                    o.complain(format!("lost-wakeup: nothing can run any more and the consumer is still blocked at {l} (pending {live:?}, sender dropped: {gone})"));
                } else if b.stop_of(PROD) != Stop::Finished {
                    o.complain(format!("machinery: producer ended as {:?}", b.stop_of(PROD)));
                } else {
                    // end-to-end statement
                    let mut got: Vec<u32> = o.received.iter().flatten().copied().collect();
                    let in_order = got.windows(2).all(|w| w[0] < w[1]);
                    got.extend(o.retracted.iter().copied());
                    if prog.cons == ConsProg::TakeOneThenDrop {
                        got.extend(o.live.iter().copied()); // left behind for a consumer that went away: allowed
                    }
                    got.sort_unstable();
                    if got != o.pushed || !in_order || o.received.iter().any(|b| b.is_empty()) {
                        let (p, r, t) = (o.pushed.clone(), o.received.clone(), o.retracted.clone());
                        o.complain(format!("value-lost-duplicated-or-reordered: pushed {p:?}, received batches {r:?}, retracted {t:?}"));
                    }
                    if prog.cons == ConsProg::Drain && !o.got_none {
                        o.complain("machinery: drain consumer finished without None".into());
                    }
                }
            }
            out.complaint = o.complaint.clone();
            out.outcome = format!("batches={:?} retracted={:?} modify_ok={:?} none={} left={:?}", o.received, o.retracted, o.modify_results, o.got_none, o.live);
            out.log = std::mem::take(&mut o.log);
        }
        b.abort();
    });
    out
}

fn key_of(complaint: &str) -> String {
    if complaint.starts_with("poll:does-not-return") {
        return "poll:does-not-return".into();
    }
    complaint.split(':').next().unwrap_or("other").to_string()
}

#[derive(Default)]
struct Stats {
    outcomes: BTreeMap<String, BTreeSet<String>>,
    logs: BTreeSet<u64>,
    preempted_at: BTreeMap<&'static str, u64>,
    reached: BTreeSet<&'static str>,
}

fn main() {
    // parent: runs the leg in a child; a segment that never reaches its next point is reported by the child and
    // becomes a violation here (the stuck OS thread cannot be joined, so the child process is given up)
    h_drv::watchdog::guard("C19", "thread", "model_checking", "E-THREAD", "poll:does-not-return");
    vcore::quiet_panics();
    let r = Report::new("C19", "thread", "model_checking", "E-THREAD");
    if let Some(case) = r.replay_case() {
        let prog = Prog::from_json(&case["program"]);
        let choices: Vec<usize> = case["choices"].as_array().map(|a| a.iter().map(|x| x.as_u64().unwrap_or(0) as usize).collect()).unwrap_or_default();
        REPLAYING.store(true, Ordering::Relaxed);
        println!("replaying program {} with schedule {:?}", prog.name(), choices);
        let mut outs = Vec::new();
        for _ in 0..2 {
            let (_, ch) = replay_one(&choices, |ch| {
                outs.push(run_exec(&prog, ch));
                Ok(())
            });
            if let Some(d) = ch.diverged {
                vcore::machinery_error(&format!("replay diverged: {d}"));
            }
        }
        if outs[0].log != outs[1].log {
            vcore::machinery_error("replay is not deterministic: two runs of the same schedule differ");
        }
        for l in &outs[0].log {
            println!("  {l}");
        }
        if let Some(m) = &outs[0].machinery {
            if m.contains("did not reach its next point") {
                h_drv::watchdog::report_hang(case.clone(), 10.0);
            }
            vcore::machinery_error(m);
        }
        if let Some(c) = &outs[0].complaint {
            r.violation(&key_of(c), c, case.clone());
        }
        r.finish_replay();
    }
    let thorough = r.tier().is_thorough();
    let jobs = r.args.jobs;
    let bound_small: u32 = r.args.extra_value("--bound-small").and_then(|s| s.parse().ok()).unwrap_or(r.tier().pick(4, 64));
    let bound: u32 = r.args.extra_value("--bound").and_then(|s| s.parse().ok()).unwrap_or(r.tier().pick(3, 4));
    // programs, simplest first: (producer ops, consumer, cancels, spurious polls, preemption bound)
    let mut progs: Vec<(Prog, u32)> = Vec::new();
    let mk = |p: &str, c: ConsProg, cancels: u8, spurious: u8| Prog { prod: Op::parse(p), cons: c, cancels, spurious };
    progs.push((mk("pd", ConsProg::Drain, 0, 0), bound_small)); // smallest program: (nearly) all interleavings
    progs.push((mk("pd", ConsProg::Drain, 1, 0), bound));
    progs.push((mk("d", ConsProg::Drain, 1, 0), bound));
    progs.push((mk("ppd", ConsProg::Drain, 1, 0), bound));
    progs.push((mk("prpd", ConsProg::Drain, 1, 0), bound));
    progs.push((mk("ptd", ConsProg::Drain, 1, 0), bound));
    progs.push((mk("ppd", ConsProg::TakeOneThenDrop, 0, 0), bound));
    progs.push((mk("pd", ConsProg::Drain, 0, 1), bound));
    if thorough {
        progs.push((mk("pppd", ConsProg::Drain, 1, 0), bound));
        progs.push((mk("ppd", ConsProg::Drain, 1, 1), bound));
        progs.push((mk("pppd", ConsProg::TakeOneThenDrop, 1, 0), bound));
        progs.push((mk("prptd", ConsProg::Drain, 1, 0), bound));
        progs.push((mk("ppd", ConsProg::Drain, 2, 0), bound));
    }
    let stats = Mutex::new(Stats::default());
    let segments = AtomicU64::new(0);
    let inner = AtomicU64::new(0);
    let audited = AtomicU64::new(0);
    let audit_every = r.tier().pick(20u64, 50u64);
    let mut all_exhausted = true;
    for (prog, bnd) in &progs {
        let n_exec = AtomicU64::new(0);
        let opts = DfsOpts { bound: *bnd, max_executions: 30_000_000, wall: Duration::from_secs(r.tier().pick(40, 600)), jobs, stop_at_first: false };
        let res = explore(&opts, |ch| {
            let out = run_exec(prog, ch);
            if let Some(m) = &out.machinery {
                if m.contains("did not reach its next point") {
                    h_drv::watchdog::report_hang(json!({"program": prog.to_json(), "choices": ch.choices(), "note": m}), 10.0);
                }
                vcore::machinery_error(&format!("program {}: {m}", prog.name()));
            }
            let n = n_exec.fetch_add(1, Ordering::Relaxed);
            segments.fetch_add(out.segments, Ordering::Relaxed);
            if out.inner_preemptions > 0 {
                inner.fetch_add(1, Ordering::Relaxed);
            }
            // determinism audit: replay a 1-in-k subset of schedules and compare the whole observation log
            if n % audit_every == 0 && ch.diverged.is_none() && !out.skipped {
                let choices = ch.choices();
                let (_, ch2) = replay_one(&choices, |c2| {
                    let again = run_exec(prog, c2);
                    if !again.skipped && !out.skipped && again.log != out.log {
                        vcore::machinery_error(&format!("determinism audit failed for program {} schedule {:?}", prog.name(), choices));
                    }
                    Ok(())
                });
                if ch2.diverged.is_some() {
                    vcore::machinery_error("determinism audit: replay diverged");
                }
                audited.fetch_add(1, Ordering::Relaxed);
            }
            {
                let mut s = stats.lock().unwrap();
                s.outcomes.entry(prog.name()).or_default().insert(out.outcome.clone());
                s.logs.insert(vcore::fnv64(format!("{}|{:?}", prog.name(), out.log).as_bytes()));
                for l in &out.preempted_at {
                    *s.preempted_at.entry(l).or_insert(0) += 1;
                }
                s.reached.extend(out.reached.iter().copied());
            }
            match out.complaint {
                Some(c) => Err(c),
                None => Ok(()),
            }
        });
        if !res.divergences.is_empty() {
            vcore::machinery_error(&format!("program {}: {}", prog.name(), res.divergences[0]));
        }
        if let Some(c) = &res.capped {
            all_exhausted = false;
            r.note(&format!("capped:{}", prog.name()), json!(c));
        }
        r.eval(res.executions);
        r.states.fetch_add(res.executions, Ordering::Relaxed);
        r.counters.add(&format!("executions:{}:bound{}", prog.name(), bnd), res.executions);
        r.counters.max("max_choice_points_in_one_execution", res.max_points as u64);
        let mut seen_keys = BTreeSet::new();
        for v in &res.violations {
            let key = key_of(&v.what);
            if !seen_keys.insert(key.clone()) {
                continue;
            }
            // re-run the schedule to attach its observation log
            REPLAYING.store(true, Ordering::Relaxed);
            let mut log = Vec::new();
            let _ = replay_one(&v.choices, |c| {
                log = run_exec(prog, c).log;
                Ok(())
            });
            REPLAYING.store(false, Ordering::Relaxed);
            r.violation(
                &key,
                &format!("{} [program {}, schedule {:?}{}, {} preemption(s)]", v.what, prog.name(), &v.choices[..v.choices.len().min(40)], if v.choices.len() > 40 { " ..." } else { "" }, v.cost),
                json!({"program": prog.to_json(), "choices": v.choices.iter().copied().take(64).collect::<Vec<_>>(), "preemptions": v.cost, "log": log.iter().take(60).collect::<Vec<_>>()}),
            );
        }
        if r.violation_count() == 0 {
            if let Some(t) = res.sample_traces.last() {
                let mut log = Vec::new();
                let _ = replay_one(t, |c| {
                    log = run_exec(prog, c).log;
                    Ok(())
                });
                if prog.prod.len() >= 3 {
                    r.sample(json!({"program": prog.to_json(), "choices": t, "log": log}));
                }
            }
        }
    }
    let s = stats.into_inner().unwrap();
    r.transitions.store(segments.load(Ordering::Relaxed), Ordering::Relaxed);
    r.traces_validated.store(audited.load(Ordering::Relaxed), Ordering::Relaxed);
    r.nontrivial(inner.load(Ordering::Relaxed));
    let distinct: usize = s.outcomes.values().map(|v| v.len()).sum();
    r.counters.add("distinct_outcomes(program, batches, retracted, modify results)", distinct as u64);
    r.counters.add("distinct_observation_logs", s.logs.len() as u64);
    for (l, n) in &s.preempted_at {
        r.counters.add(&format!("preempted_at:{l}"), *n);
    }
    let missing: Vec<&&str> = hook::POINTS.iter().filter(|p| !s.reached.contains(**p)).collect();
    if !missing.is_empty() && !LIVELOCK_SEEN.load(Ordering::Relaxed) {
        vcore::machinery_error(&format!("hook points never reached: {missing:?} (the points are not compiled in or the programs do not reach them)"));
    }
    r.note("hook_points_reached", json!(s.reached.iter().collect::<Vec<_>>()));
    r.note("outcomes_per_program", json!(s.outcomes.iter().map(|(k, v)| (k.clone(), v.len())).collect::<BTreeMap<_, _>>()));
    r.note("preemption_bound", json!({"smallest_program": bound_small, "others": bound}));
    if r.violation_count() == 0 && distinct <= progs.len() {
        println!("WARNING: one outcome per program - the schedules collided on nothing");
    }
    r.set_rule(
        "E-THREAD on E-DFS. states = complete schedules (executions; every choice sequence within the preemption bound exactly once) summed over programs; \
         transitions = segments run (one thread from one yield point to the next); traces_validated_against_impl = schedules replayed a second time with an \
         identical observation log (determinism audit). distinct_nontrivial = schedules with at least one preemption at a hook point INSIDE recv / modify / the \
         sender's Drop (not at an operation boundary). Programs: producer words over {p=modify(push), r=modify(retract), t=modify(no-op), d=drop} x consumer \
         {drain until None | take one batch then drop the receiver} with c cancels and s spurious polls allowed.",
    );
    r.set_exhaustive(all_exhausted);
    r.assume("sequentially consistent interleavings only (one thread runs at a time; x86-64 TSO image): weak-memory reorderings of the Acquire/Release flags are out of reach");
    r.assume("yield points are the eight hook points plus operation boundaries; tokio::sync::Notify and the std Mutex are treated as atomic steps (both are internally locked)");
    r.finish();
}
