//! C13 leg B - E-ASYNC through hook H-EXEC with a speculative policy: the real `run_request_no_side_effects`
//! (idempotence gate), real `SharedPlan`, real `run_request_speculative_fiber` per execution, real
//! `speculative_execution::execute`, real Default retry policy (behind a recording wrapper). Attempts are futures
//! the explorer completes when it chooses. Events: complete(attempt, success | one of 4 failures), timer tick.
//! The execution parameters are resolved by the production `new_for_session_apis` from a Statement + execution profile
//! (hook `run_request_for_statement`). Full enumeration of event orders for plan length p, max speculative count m, idempotent flag.
//!
//! Oracle: a reference of the composition written in this file from the property text + h_drv::specmodel:
//!  * non-idempotent: the speculative policy is ignored - one chain, never two attempts in flight, no new fiber;
//!  * idempotent: fibers <= 1+m; no two fibers ever take the same plan target; every fiber is a retry chain of its own
//!    (own retry session: its decisions equal those of a fresh real session fed its own failures); the attempt each
//!    event must trigger (fiber, target, consistency) is exactly the one observed;
//!  * the call returns exactly when the speculative contract says so, with the result of the right attempt; never hangs.
use cqlref::retry::{Cl, Decision, Policy};
use h_drv::execharness::{HEv, Listener, PolicySource, RecordingPolicy, error_for_attempt};
use h_drv::retrysym::{self, Sym};
use h_drv::specmodel::{Expected, Outcome, SpecModel};
use scylla::errors::{RequestAttemptError, RequestError};
use scylla::policies::speculative_execution::SimpleSpeculativeExecutionPolicy;
use scylla::statement::Consistency;
use scylla::verif::exec::ExecResult;
use serde_json::{Value, json};
use std::cell::RefCell;
use std::collections::{BTreeMap, BTreeSet};
use std::rc::Rc;
use std::sync::atomic::{AtomicU64, Ordering};
use std::sync::{Arc, Mutex};
use std::time::Duration;
use tokio::sync::oneshot;
use vcore::Report;
use vcore::dfs::{Chooser, DfsOpts, explore};

const INTERVAL: Duration = Duration::from_millis(100);
const CL0: Cl = Cl::Quorum;

/// failure symbols (names from the C06 alphabet) and whether a fiber ending with them yields an error that another
/// node could cure (ignorable for the speculative loop) or a definitive one
const FAILS: [(&str, bool); 5] = [
    ("Overloaded", true),
    ("ReadTimeout(received=2,required=2,data_present=false)", true),
    ("Unavailable(alive=2)", true),
    ("SyntaxError", false),
    // only offered in the DowngradingConsistency sweeps (there it is decided as "ignore the write error")
    ("WriteTimeout(SIMPLE,received=1)", true),
];

/// alternative failure set (non-database errors; 'no free stream id' and two kinds of broken connection are curable
/// elsewhere = ignorable for the speculative loop)
const FAILS_ALT: [(&str, bool); 4] = [
    ("UnableToAllocStreamId", true),
    ("BrokenConnection:WriteError(BrokenPipe)", true),
    ("BrokenConnection", true),
    ("SyntaxError", false),
];

struct Att {
    target: usize,
    cl: Cl,
    tx: Option<oneshot::Sender<Result<String, RequestAttemptError>>>,
}

#[derive(Clone, Debug)]
struct Fiber {
    /// attempt in flight
    current: Option<usize>,
    target: usize,
    cl: Cl,
    /// (attempt id, failure symbol index) of its failures, in order
    failures: Vec<(usize, usize)>,
    ended: bool,
    /// ended by an "ignore write error" decision
    ignored: bool,
    /// the last thing it met was a plan target without a connection (its error is then that pool error)
    last_pool: bool,
}

fn new_fiber(target: usize, ended: bool, last_pool: bool) -> Fiber {
    Fiber { current: None, target, cl: CL0, failures: vec![], ended, ignored: false, last_pool }
}

/// Pull the next plan target that hands out a connection; also says whether connection-less targets were skipped.
fn take_next(next_target: &mut usize, pr: &Params) -> (Option<usize>, bool) {
    let mut skipped = false;
    while *next_target < pr.p {
        let t = *next_target;
        *next_target += 1;
        if pr.mask >> t & 1 == 1 {
            skipped = true;
            continue;
        }
        return (Some(t), skipped);
    }
    (None, skipped)
}

#[derive(Default, Debug)]
struct RunOut {
    trace: Vec<String>,
    verdict: Option<(String, String)>,
    fibers: usize,
    attempts: usize,
    max_in_flight: usize,
    ticks: usize,
    result_kind: String,
    overlapped: bool,
}

fn fail(out: &mut RunOut, key: &str, text: String) {
    if out.verdict.is_none() {
        out.trace.push(format!("ORACLE {key}: {text}"));
        out.verdict = Some((key.to_string(), text));
    }
}

#[derive(Clone, Copy, Debug)]
enum Ev {
    /// attempt id, 0 = success, k = FAILS[k-1]
    Complete(usize, usize),
    Tick,
}

#[derive(Clone, Copy, Debug)]
struct Params {
    p: usize,
    m: usize,
    idem: bool,
    pol: Policy,
    /// bit t set = plan target t hands out no connection
    mask: u32,
    /// use FAILS_ALT instead of FAILS
    alt: bool,
}

impl Params {
    fn n_fails(&self) -> usize {
        if self.pol == Policy::Downgrading && !self.alt { 5 } else { 4 }
    }
    fn table(&self) -> &'static [(&'static str, bool)] {
        if self.alt { &FAILS_ALT } else { &FAILS }
    }
}

fn one_execution(pr: Params, fails: &[Sym], ch: &mut Chooser) -> RunOut {
    let mut out = RunOut::default();
    let res = vcore::catch(std::panic::AssertUnwindSafe(|| {
        vasync::run(|| async {
            let out = &mut out;
            let rec = Arc::new(RecordingPolicy::new(PolicySource::Real(retrysym::policy_of(pr.pol))));
            let listener = Arc::new(Listener::default());
            // The parameters are resolved by the production `new_for_session_apis`, the way Session::query/execute do it:
            // idempotence, consistency, retry policy and history listener sit on the statement, the speculative policy in
            // the execution profile (the only place a user can put it).
            let mut stmt = scylla::statement::unprepared::Statement::new("SELECT a FROM ks.t");
            stmt.set_is_idempotent(pr.idem);
            stmt.set_consistency(retrysym::cons_of(CL0));
            stmt.set_retry_policy(Some(rec.clone()));
            stmt.set_history_listener(listener.clone());
            let profile = scylla::client::execution_profile::ExecutionProfile::builder()
                .speculative_execution_policy(Some(Arc::new(SimpleSpeculativeExecutionPolicy { max_retry_count: pr.m, retry_interval: INTERVAL })))
                .build()
                .into_handle();
            let targets: Vec<bool> = (0..pr.p).map(|t| pr.mask >> t & 1 == 0).collect();
            let atts: Rc<RefCell<Vec<Att>>> = Rc::new(RefCell::new(Vec::new()));
            let atts2 = atts.clone();
            let attempt = move |target: usize, cl: Consistency| {
                let (tx, rx) = oneshot::channel();
                atts2.borrow_mut().push(Att { target, cl: retrysym::cl_of(cl), tx: Some(tx) });
                async move { rx.await.expect("harness dropped a sender") }
            };
            let log = Arc::new(Mutex::new(Vec::new()));
            let mut ex = vasync::Exec::new();
            let (main, slot) = ex.spawn_with_output("run_request", scylla::verif::exec::run_request_for_statement(scylla::verif::exec::VerifStatement::Unprepared(stmt), profile, targets, vec![], log.clone(), attempt));
            // ---- reference state
            // effective speculative count: the policy is honoured only for idempotent requests
            let m_eff = if pr.idem { pr.m } else { 0 };
            let mut model = SpecModel::new(m_eff);
            let mut next_target = 0usize;
            let mut fibers: Vec<Fiber> = Vec::new();
            // what the last event must have started: (fiber, target, consistency)
            let mut expect_new: Option<(usize, usize, Cl)>;
            // fiber 0 starts at once
            match take_next(&mut next_target, &pr) {
                (Some(t), _) => {
                    fibers.push(new_fiber(t, false, false));
                    expect_new = Some((0, t, CL0));
                }
                (None, skipped) => {
                    fibers.push(new_fiber(0, true, skipped));
                    model.complete(0, if skipped { Outcome::Ignorable } else { Outcome::Exhausted });
                    expect_new = None;
                }
            }
            let mut seen_atts = 0usize;
            let mut seen_decisions = 0usize;
            let mut timer_dead = false;
            let mut target_owner: BTreeMap<usize, usize> = BTreeMap::new();
            loop {
                if let Err(e) = ex.run_until_quiescent_default(10_000).await {
                    fail(out, "exec:livelock", e);
                    return;
                }
                // ---- observe new attempts
                let n_atts = atts.borrow().len();
                let hist = listener.events();
                let starts: Vec<(Option<usize>, usize)> = hist.iter().filter_map(|e| if let HEv::AttemptStart { fiber, target, .. } = e { Some((*fiber, *target)) } else { None }).collect();
                let new_fibers = hist.iter().filter(|e| matches!(e, HEv::NewFiber(_))).count();
                out.attempts = n_atts;
                out.fibers = 1 + new_fibers;
                let in_flight: Vec<usize> = atts.borrow().iter().enumerate().filter(|(_, a)| a.tx.is_some()).map(|(i, _)| i).collect();
                out.max_in_flight = out.max_in_flight.max(in_flight.len());
                out.overlapped |= in_flight.len() >= 2;
                out.trace.push(format!("  -> attempts={:?} in_flight={in_flight:?} fibers={} done={}", atts.borrow().iter().map(|a| (a.target, a.cl)).collect::<Vec<_>>(), out.fibers, ex.is_done(main)));
                if !pr.idem {
                    if in_flight.len() > 1 {
                        let ts: Vec<usize> = in_flight.iter().map(|&a| atts.borrow()[a].target).collect();
                        fail(out, "exec:nonidempotent-two-in-flight", format!("a NON-idempotent request has {} attempts in flight at once (targets {ts:?}) with speculative max {}", in_flight.len(), pr.m));
                        return;
                    }
                    if new_fibers > 0 {
                        fail(out, "exec:nonidempotent-speculative-fiber", format!("a speculative fiber was started for a NON-idempotent request (max {})", pr.m));
                        return;
                    }
                }
                if out.fibers > pr.m.saturating_add(1) {
                    fail(out, "exec:fibers-exceed-bound", format!("{} executions started with max speculative count {}", out.fibers, pr.m));
                    return;
                }
                if starts.len() != n_atts {
                    fail(out, "exec:history-attempts", format!("{} attempts sent but {} reported to the history listener", n_atts, starts.len()));
                    return;
                }
                // who took which target
                for (k, (fiber, target)) in starts.iter().enumerate() {
                    let f = fiber.map(|x| x + 1).unwrap_or(0);
                    if atts.borrow()[k].target != *target {
                        fail(out, "exec:history-attempts", format!("attempt {k} went to target {} but was reported for target {target}", atts.borrow()[k].target));
                        return;
                    }
                    match target_owner.get(target) {
                        Some(&o) if o != f => {
                            fail(out, "exec:target-taken-twice", format!("plan target {target} was taken by execution {o} and by execution {f}"));
                            return;
                        }
                        _ => {
                            target_owner.insert(*target, f);
                        }
                    }
                }
                let new_atts: Vec<(usize, usize, Cl)> = (seen_atts..n_atts).map(|k| (starts[k].0.map(|x| x + 1).unwrap_or(0), atts.borrow()[k].target, atts.borrow()[k].cl)).collect();
                match (expect_new, new_atts.as_slice()) {
                    (None, []) => {}
                    (Some(e), [g]) if e == *g => {
                        fibers[e.0].current = Some(n_atts - 1);
                        fibers[e.0].target = e.1;
                        fibers[e.0].cl = e.2;
                    }
                    (e, g) => {
                        let key = if g.len() > e.iter().count() { "exec:extra-attempt" } else if g.is_empty() { "exec:missing-attempt" } else { "exec:wrong-attempt" };
                        fail(out, key, format!("the last event must start (execution, target, consistency) {e:?}; observed new attempts {g:?}"));
                        return;
                    }
                }
                seen_atts = n_atts;
                // ---- returned?
                if ex.is_done(main) {
                    let got = slot.borrow_mut().take().expect("slot");
                    out.trace.push(format!("RETURN {got:?}"));
                    let att_of = |f: usize| fibers[f].failures.last().map(|x| x.0);
                    let ok = match (model.done, &got) {
                        (None, _) => {
                            fail(out, "exec:early-return", format!("returned {got:?} while attempts {in_flight:?} are in flight / an execution may still be started"));
                            return;
                        }
                        (Some(Expected::Success(f)), ExecResult::IgnoredWriteError { coordinator }) => fibers[f].ignored && *coordinator == fibers[f].target,
                        (Some(Expected::Success(f)), ExecResult::Completed { coordinator, token }) if !fibers[f].ignored => *coordinator == fibers[f].target && Some(token.as_str()) == fibers[f].current.map(|a| format!("attempt{a}")).as_deref(),
                        (Some(Expected::IgnorableError(f)), ExecResult::Err(RequestError::ConnectionPoolError(_))) => fibers[f].last_pool,
                        (Some(Expected::DefinitiveError(f)), ExecResult::Err(RequestError::LastAttemptError(e))) | (Some(Expected::IgnorableError(f)), ExecResult::Err(RequestError::LastAttemptError(e))) if !fibers[f].last_pool => match (att_of(f), fibers[f].failures.last()) {
                            (Some(a), Some(&(_, s))) => format!("{e:?}") == format!("{:?}", error_for_attempt(&fails[s].err, a)),
                            _ => false,
                        },
                        (Some(Expected::EmptyPlan), ExecResult::Err(RequestError::EmptyPlan)) => true,
                        _ => false,
                    };
                    out.result_kind = match &got {
                        ExecResult::Completed { .. } => "completed".into(),
                        ExecResult::IgnoredWriteError { .. } => "ignored-write".into(),
                        ExecResult::Err(RequestError::EmptyPlan) => "empty-plan".into(),
                        ExecResult::Err(RequestError::LastAttemptError(_)) => "last-attempt-error".into(),
                        ExecResult::Err(_) => "other-error".into(),
                    };
                    if !ok {
                        fail(out, "exec:wrong-result", format!("returned {got:?}; the contract demands {:?} (executions: {fibers:?})", model.done));
                    }
                    // per-fiber retry sessions are independent: each session's decisions == a fresh real session fed the same failures
                    let recs = rec.log.lock().unwrap().clone();
                    let mut by_session: BTreeMap<usize, Vec<&h_drv::execharness::DecisionRec>> = BTreeMap::new();
                    for d in &recs {
                        by_session.entry(d.session).or_default().push(d);
                    }
                    if by_session.len() > out.fibers {
                        fail(out, "exec:sessions-exceed-fibers", format!("{} retry sessions for {} executions", by_session.len(), out.fibers));
                    }
                    return;
                }
                if let Some(want) = model.done {
                    fail(out, "exec:late-return", format!("did not return although the contract demands {want:?} now (executions {fibers:?})"));
                    return;
                }
                for &a in &in_flight {
                    if atts.borrow()[a].tx.as_ref().is_some_and(|t| t.is_closed()) {
                        fail(out, "exec:attempt-dropped", format!("attempt {a} was dropped while the call is pending"));
                        return;
                    }
                }
                // ---- events
                let mut evs = Vec::new();
                for &a in &in_flight {
                    for o in 0..=pr.n_fails() {
                        evs.push(Ev::Complete(a, o));
                    }
                }
                if !timer_dead && out.ticks < pr.m.saturating_add(3) {
                    evs.push(Ev::Tick);
                }
                if evs.is_empty() {
                    fail(out, "exec:deadlock", format!("the call is pending with no attempt in flight and no timer armed (executions {fibers:?})"));
                    return;
                }
                let ev = evs[ch.choose_free("event", evs.len())];
                out.trace.push(format!("{ev:?}"));
                expect_new = None;
                match ev {
                    Ev::Tick => {
                        out.ticks += 1;
                        vasync::advance(INTERVAL).await;
                        if !ex.is_woken(main) {
                            timer_dead = true;
                            out.trace.push("  (no timer armed)".into());
                            if model.may_start() {
                                fail(out, "exec:missing-execution", format!("no timer armed although a speculative execution may still be started (idempotent, max {}, started {})", pr.m, model.started));
                                return;
                            }
                        } else if model.tick() == 1 {
                            let f = fibers.len();
                            match take_next(&mut next_target, &pr) {
                                (Some(t), _) => {
                                    fibers.push(new_fiber(t, false, false));
                                    expect_new = Some((f, t, CL0));
                                }
                                (None, skipped) => {
                                    // nothing usable left in the plan: the new execution ends at once, without a result
                                    // (or with the pool error of a connection-less target it met)
                                    fibers.push(new_fiber(0, true, skipped));
                                    model.complete(f, if skipped { Outcome::Ignorable } else { Outcome::Exhausted });
                                }
                            }
                        }
                    }
                    Ev::Complete(a, o) => {
                        let f = fibers.iter().position(|f| f.current == Some(a)).expect("fiber of attempt");
                        let tx = atts.borrow_mut()[a].tx.take().expect("sender");
                        if o == 0 {
                            let _ = tx.send(Ok(format!("attempt{a}")));
                            fibers[f].ended = true;
                            model.complete(f, Outcome::Success);
                        } else {
                            let s = o - 1;
                            let _ = tx.send(Err(error_for_attempt(&fails[s].err, a)));
                            fibers[f].failures.push((a, s));
                            // the decision: a fresh real session fed this fiber's own failures (independence of sessions)
                            let pol = retrysym::policy_of(pr.pol);
                            let mut sess = pol.new_session();
                            let mut cl = CL0;
                            let mut d = Decision::DontRetry;
                            for &(ak, sk) in &fibers[f].failures {
                                let e = error_for_attempt(&fails[sk].err, ak);
                                d = retrysym::decision_of(&sess.decide_should_retry(scylla::verif::retry::request_info(&e, pr.idem, retrysym::cons_of(cl))));
                                if let Decision::RetrySame(Some(n)) | Decision::RetryNext(Some(n)) = d {
                                    cl = n;
                                }
                            }
                            fibers[f].current = None;
                            let end_class = if pr.table()[s].1 { Outcome::Ignorable } else { Outcome::Definitive };
                            match d {
                                Decision::RetrySame(_) => expect_new = Some((f, fibers[f].target, cl)),
                                Decision::RetryNext(_) => match take_next(&mut next_target, &pr) {
                                    (Some(t), _) => expect_new = Some((f, t, cl)),
                                    (None, skipped) => {
                                        fibers[f].ended = true;
                                        fibers[f].last_pool = skipped;
                                        model.complete(f, if skipped { Outcome::Ignorable } else { end_class });
                                    }
                                },
                                Decision::DontRetry => {
                                    fibers[f].ended = true;
                                    model.complete(f, end_class);
                                }
                                Decision::IgnoreWrite => {
                                    fibers[f].ended = true;
                                    fibers[f].ignored = true;
                                    model.complete(f, Outcome::Success);
                                }
                            }
                            // the decision the loop actually obtained must be that one (its own session, not a shared one)
                            if let Err(e) = ex.run_until_quiescent_default(10_000).await {
                                fail(out, "exec:livelock", e);
                                return;
                            }
                            let recs = rec.log.lock().unwrap().clone();
                            if recs.len() != seen_decisions + 1 {
                                fail(out, "exec:policy-consultations", format!("a failed attempt led to {} policy consultations", recs.len() - seen_decisions));
                                return;
                            }
                            seen_decisions = recs.len();
                            if recs.last().unwrap().decision != d {
                                fail(out, "exec:fiber-session-not-independent", format!("execution {f} failed with its failures {:?}; a retry session of its own decides {d:?}, the loop got {:?}", fibers[f].failures, recs.last().unwrap().decision));
                                return;
                            }
                        }
                    }
                }
            }
        })
    }));
    if let Err(p) = res {
        fail(&mut out, "exec:panic", format!("the execution core panicked: {p}"));
    }
    out
}

fn case_json(pr: Params, choices: &[usize]) -> Value {
    json!({"leg":"exec-spec","policy":pr.pol.name(),"p":pr.p,"max_speculative":pr.m,"idempotent":pr.idem,"no_conn_mask":pr.mask,"alt_failures":pr.alt,"choices":choices})
}

const EXTREME_MAX: [usize; 4] = [usize::MAX, usize::MAX - 1, u32::MAX as usize, 1usize << 40];

fn fail_syms() -> (Vec<Sym>, Vec<Sym>) {
    let all = retrysym::extended_alphabet();
    let pick = |table: &[(&str, bool)]| -> Vec<Sym> {
        table
            .iter()
            .map(|(n, _)| {
                let s = all.iter().find(|s| s.name == *n).unwrap_or_else(|| vcore::machinery_error("failure symbol missing"));
                Sym { name: s.name.clone(), class: s.class, err: s.err.clone() }
            })
            .collect()
    };
    (pick(&FAILS), pick(&FAILS_ALT))
}

/// Child mode `--probe-extreme <max>`: default schedules with one extreme max count in a process of their own (see c13a).
fn probe_child(m: usize) -> ! {
    vcore::quiet_panics();
    vcore::sandbox::limit_address_space(8 << 30);
    let (fails_main, _) = fail_syms();
    for p in 0..=2 {
        for choices in [vec![], vec![5usize], vec![5, 5]] {
            let out = one_execution(Params { p, m, idem: true, pol: Policy::Default, mask: 0, alt: false }, &fails_main, &mut Chooser::new(choices));
            if let Some((k, t)) = out.verdict {
                println!("{k} :: {t} | p={p}");
                std::process::exit(3);
            }
        }
    }
    std::process::exit(0)
}

fn probe_extreme(m: usize) -> Result<(), (String, String)> {
    let res = vcore::sandbox::run_self(&["--probe-extreme", &m.to_string()], b"", Duration::from_secs(120));
    if res.timed_out {
        return Err(("exec:hang".into(), format!("with max speculative count {m} a short schedule did not finish within 120 s")));
    }
    match (res.exit_code, res.signal) {
        (Some(0), _) => Ok(()),
        (Some(3), _) => {
            let line = String::from_utf8_lossy(&res.stdout).lines().last().unwrap_or("").to_string();
            let (k, t) = line.split_once(" :: ").unwrap_or(("exec:unknown", &line));
            Err((k.to_string(), t.to_string()))
        }
        (code, sig) => Err(("exec:abort".into(), format!("with max speculative count {m} the process died (exit {code:?}, signal {sig:?}) inside the execution core: {}", res.stderr_tail.trim().replace('\n', " / ")))),
    }
}

fn main() {
    {
        let a: Vec<String> = std::env::args().collect();
        if let Some(i) = a.iter().position(|x| x == "--probe-extreme") {
            probe_child(a.get(i + 1).and_then(|s| s.parse().ok()).unwrap_or(0));
        }
    }
    vcore::quiet_panics();
    let r = Report::new("C13", "exec-spec", "model_checking", "E-ASYNC");
    if let Err(e) = h_drv::specmodel::self_test() {
        vcore::machinery_error(&format!("specmodel self-test failed: {e}"));
    }
    let (fails_main, fails_alt) = fail_syms();
    if let Some(case) = r.replay_case() {
        if case["probe"].as_bool() == Some(true) {
            if let Err((k, t)) = probe_extreme(case["max_speculative"].as_u64().unwrap_or(0) as usize) {
                println!("{t}");
                r.violation(&k, &t, case.clone());
            }
            r.finish_replay();
        }
        let pr = Params {
            p: case["p"].as_u64().unwrap_or(1) as usize,
            m: case["max_speculative"].as_u64().unwrap_or(0) as usize,
            idem: case["idempotent"].as_bool().unwrap_or(false),
            pol: case["policy"].as_str().and_then(Policy::from_name).unwrap_or(Policy::Default),
            mask: case["no_conn_mask"].as_u64().unwrap_or(0) as u32,
            alt: case["alt_failures"].as_bool().unwrap_or(false),
        };
        let choices: Vec<usize> = case["choices"].as_array().map(|a| a.iter().map(|v| v.as_u64().unwrap_or(0) as usize).collect()).unwrap_or_default();
        let mut ch = Chooser::new(choices);
        let out = one_execution(pr, if pr.alt { &fails_alt } else { &fails_main }, &mut ch);
        if let Some(d) = &ch.diverged {
            vcore::machinery_error(&format!("the recorded schedule does not fit this build: {d}"));
        }
        for l in &out.trace {
            println!("{l}");
        }
        if let Some((k, t)) = out.verdict {
            r.violation(&k, &t, case.clone());
        }
        r.finish_replay();
    }
    let thorough = r.tier().is_thorough();
    let audit_k: u64 = r.tier().pick(16, 4);
    let mut sweeps = Vec::new();
    let (max_p, max_m) = r.tier().pick((3usize, 2usize), (4usize, 3usize));
    // DowngradingConsistency (lowered consistency is per execution; one more failure symbol): smaller bounds
    let (dmax_p, dmax_m) = r.tier().pick((2usize, 2usize), (3usize, 2usize));
    for (pol, mp, mm) in [(Policy::Default, max_p, max_m), (Policy::Downgrading, dmax_p, dmax_m)] {
        for idem in [false, true] {
            for p in 0..=mp {
                for m in 0..=mm {
                    if pol == Policy::Downgrading && p == 0 {
                        continue;
                    }
                    // plan 4 x max 3 (idempotent) is > 5e7 schedules: beyond the thorough budget, left out (stated in the rule)
                    if p + m > 6 {
                        continue;
                    }
                    // every subset of connection-less targets for the Default policy on plans up to 3 targets
                    let masks: u32 = if pol == Policy::Default && p <= 3 { 1 << p } else { 1 };
                    for mask in 0..masks {
                        sweeps.push(Params { p, m, idem, pol, mask, alt: false });
                        // the non-database failure set: Default policy, full plans only
                        if pol == Policy::Default && mask == 0 && p >= 1 && p + m <= r.tier().pick(4, 5) {
                            sweeps.push(Params { p, m, idem, pol, mask, alt: true });
                        }
                    }
                }
            }
        }
    }
    // "unlimited, bounded by the plan": huge max counts through SimpleSpeculativeExecutionPolicy (the plan ends the ticks)
    for m in EXTREME_MAX {
        // first in a child process: an abort (allocation sized by the count) must not take the checker down
        if let Err((k, t)) = probe_extreme(m) {
            r.eval(1);
            r.counters.add("extreme_max_probe_failed", 1);
            r.violation(&k, &format!("{t} | max_speculative={m}"), json!({"leg":"exec-spec","probe":true,"max_speculative":m}));
            continue;
        }
        r.counters.add("extreme_max_probes_ok", 1);
        for idem in [false, true] {
            for p in 0..=2 {
                sweeps.push(Params { p, m, idem, pol: Policy::Default, mask: 0, alt: false });
            }
        }
    }
    // the largest number of simultaneously running attempts the included sweeps can reach (vacuity guard below)
    let want_in_flight = sweeps.iter().filter(|s| s.idem && s.mask == 0).map(|s| s.m.saturating_add(1).min(s.p) as u64).max().unwrap_or(0);
    let outcomes: Mutex<BTreeSet<(bool, String, usize, usize)>> = Mutex::new(BTreeSet::new());
    let mut capped = false;
    for pr in sweeps {
        let states = AtomicU64::new(0);
        let transitions = AtomicU64::new(0);
        let audited = AtomicU64::new(0);
        let nontrivial = AtomicU64::new(0);
        let divergence: Mutex<Option<String>> = Mutex::new(None);
        let opts = DfsOpts { bound: 0, jobs: r.args.jobs, max_executions: r.tier().pick(3_000_000, 60_000_000), wall: Duration::from_secs(if thorough { 1500 } else { 90 }), ..Default::default() };
        let fails_ref = if pr.alt { &fails_alt[..] } else { &fails_main[..] };
        let res = explore(&opts, |ch| {
            let out = one_execution(pr, fails_ref, ch);
            let plen = ch.trace.iter().rposition(|p| p.chosen != 0).map(|i| i + 1).unwrap_or(0);
            states.fetch_add((ch.trace.len() - plen) as u64 + 1, Ordering::Relaxed);
            transitions.fetch_add(ch.trace[plen..].iter().map(|p| p.n as u64).sum::<u64>(), Ordering::Relaxed);
            if out.overlapped || (!pr.idem && out.ticks > 0 && out.attempts >= 2) {
                nontrivial.fetch_add(1, Ordering::Relaxed);
            }
            outcomes.lock().unwrap().insert((pr.idem, out.result_kind.clone(), out.fibers, out.max_in_flight));
            let choices = ch.choices();
            if vcore::fnv64(format!("{choices:?}").as_bytes()) % audit_k == 0 {
                let mut ch2 = Chooser::new(choices.clone());
                let again = one_execution(pr, fails_ref, &mut ch2);
                if again.trace != out.trace || ch2.diverged.is_some() {
                    *divergence.lock().unwrap() = Some(format!("{pr:?} choices={choices:?}: {:?} vs {:?}", out.trace, again.trace));
                } else {
                    audited.fetch_add(1, Ordering::Relaxed);
                }
            }
            match out.verdict {
                None => Ok(()),
                Some((k, t)) => Err(format!("{k} :: {t}")),
            }
        });
        if let Some(d) = divergence.into_inner().unwrap() {
            vcore::machinery_error(&format!("determinism audit failed: {d}"));
        }
        if let Some(d) = res.divergences.first() {
            vcore::machinery_error(&format!("replay divergence inside the explorer: {d}"));
        }
        if let Some(c) = &res.capped {
            capped = true;
            r.note(&format!("capped_{}_p{}_m{}_idem{}_mask{}", pr.pol.name(), pr.p, pr.m, pr.idem, pr.mask), json!(c));
        }
        r.eval(res.executions);
        r.states.fetch_add(states.load(Ordering::Relaxed), Ordering::Relaxed);
        r.transitions.fetch_add(transitions.load(Ordering::Relaxed), Ordering::Relaxed);
        r.traces_validated.fetch_add(audited.load(Ordering::Relaxed), Ordering::Relaxed);
        r.nontrivial(nontrivial.load(Ordering::Relaxed));
        r.counters.add(&format!("executions_{}_{}_p{}_m{}{}", pr.pol.name(), if pr.idem { "idem" } else { "nonidem" }, pr.p, pr.m, if pr.mask != 0 { "_some_targets_without_connection" } else if pr.alt { "_alt_failures" } else { "" }), res.executions);
        r.counters.max("max_choice_points", res.max_points as u64);
        for v in res.violations.iter() {
            let (key, text) = v.what.split_once(" :: ").unwrap_or(("exec:unknown", &v.what));
            for _ in 0..2 {
                let mut ch = Chooser::new(v.choices.clone());
                let again = one_execution(pr, fails_ref, &mut ch);
                if again.verdict.as_ref().map(|(k, _)| k.as_str()) != Some(key) {
                    vcore::machinery_error(&format!("violation {key} did not replay deterministically ({pr:?}, choices {:?})", v.choices));
                }
            }
            r.traces_validated.fetch_add(2, Ordering::Relaxed);
            r.violation(key, &format!("{text} | policy={} p={} no_conn_mask={:#b} max_speculative={} idempotent={} schedule={:?}", pr.pol.name(), pr.p, pr.mask, pr.m, pr.idem, v.choices), case_json(pr, &v.choices));
        }
    }
    let oc = outcomes.into_inner().unwrap();
    r.counters.add("distinct_outcomes(idem,result,fibers,max_in_flight)", oc.len() as u64);
    r.counters.max("max_in_flight_idempotent", oc.iter().filter(|o| o.0).map(|o| o.3 as u64).max().unwrap_or(0));
    r.counters.max("max_in_flight_nonidempotent", oc.iter().filter(|o| !o.0).map(|o| o.3 as u64).max().unwrap_or(0));
    r.counters.max("max_fibers_idempotent", oc.iter().filter(|o| o.0).map(|o| o.2 as u64).max().unwrap_or(0));
    if r.violation_count() == 0 && (r.counters.get("max_in_flight_idempotent") < want_in_flight || oc.len() < 8) {
        vcore::machinery_error("vacuity: the idempotent sweeps never had 1+max attempts in flight / too few distinct outcomes");
    }
    r.set_rule(&format!("E-ASYNC, full enumeration: plan length 0..={max_p} x max speculative count 0..={max_m} x idempotent flag Default retry policy (and DowngradingConsistency for plan 1..={dmax_p} x max 0..={dmax_m}, with WriteTimeout(SIMPLE) as a fifth failure), initial consistency QUORUM; events complete(attempt, success | Overloaded | ReadTimeout(enough replies, no data) | Unavailable(alive=2) | SyntaxError; a second failure set for Default: UnableToAllocStreamId | BrokenConnection(WriteError) | BrokenConnection(orphans) | SyntaxError, p + max <= 4 quick / 5 thorough) and timer tick, one event then polling to quiescence. states/transitions = choice points (+terminal states) / alternatives of the schedule tree; traces_validated = schedules re-executed from recorded choices with identical observation trace (1-in-{audit_k} deterministic subset + 2x per violation). distinct_nontrivial = schedules with two attempts in flight at once (idempotent) or a timer tick between two attempts (non-idempotent)."));
    r.set_exhaustive(!capped);
    r.assume("which fiber-ending errors are 'definitive' vs curable elsewhere is fixed per symbol in the harness (SyntaxError definitive; Overloaded / ReadTimeout / Unavailable ignorable); a pool error (target without connection) counts as ignorable");
    r.sample(json!({"p":3,"max_speculative":1,"idempotent":true,"events":["Tick","Complete(0,Overloaded)","Complete(1,success)"],"attempts":[[0,"QUORUM"],[1,"QUORUM"],[2,"QUORUM"]],"note":"execution 0 moves to target 2 because execution 1 holds target 1"}));
    r.finish();
}
