//! C04 - computed replica sets equal the cluster's placement.
//! Engine E-ENUM over ALL small topologies up to relabelling symmetry (see h_drv::topo), on the
//! real `ClusterState` / `ReplicaLocator` built through the production constructors (hook
//! H-CLUSTER, no pools, no sockets), against `cqlref::placement` (the property statement, word
//! for word).
//!
//! Per (topology, strategy, token) the unrestricted replica set and every datacenter-restricted
//! one is examined through all of its views - len, iteration, nth, choose_filtered (with an RNG
//! the harness owns), ring-ordered view - on three kinds of locator: nothing precomputed ("otf"),
//! every enumerated strategy precomputed ("pre"), and sparse keyspace sets that make the compressed
//! prefix path, the per-RF above-rack-count path and the on-the-fly path all occur ("sparse").
//! `ClusterState::get_token_endpoints` is checked on the "pre" cluster.
use cqlref::placement::{Ring, Strat};
use h_drv::topo::{self, Concrete, EnumBounds, Family, MinViolations, SPELLINGS, ScriptedRng, Topo};
use scylla::cluster::ClusterState;
use scylla::cluster::metadata::Strategy;
use scylla::frame::response::result::TableSpec;
use scylla::routing::Token;
use scylla::routing::locator::ReplicaLocator;
use serde_json::{Value, json};
use std::collections::{BTreeMap, BTreeSet};
use std::panic::AssertUnwindSafe;
use std::sync::Mutex;
use std::sync::atomic::Ordering;
use vcore::{Report, catch};

const TABLE: TableSpec<'static> = TableSpec::borrowed("ks", "t");

#[derive(Default)]
struct Tally {
    triples: u64,
    nontrivial: u64,
    sets_examined: u64,
    ordered_differs_from_iter: u64,
    rf_above_rack_count: u64,
    rf_within_rack_count: u64,
    by_kind: BTreeMap<&'static str, u64>,
    by_size: BTreeMap<usize, u64>,
}

struct Env<'a> {
    r: &'a Report,
    sink: &'a MinViolations,
    sizes: Mutex<BTreeMap<usize, u64>>,
}
impl Env<'_> {
    fn absorb(&self, t: Tally) {
        self.r.eval(t.triples);
        self.r.nontrivial(t.nontrivial);
        self.r.counters.add("replica_sets_examined_through_all_views", t.sets_examined);
        self.r.counters.add("sets_whose_ring_ordered_view_differs_from_iteration_order", t.ordered_differs_from_iter);
        self.r.counters.add("nts_dc_cases_rf_above_rack_count", t.rf_above_rack_count);
        self.r.counters.add("nts_dc_cases_rf_within_rack_count", t.rf_within_rack_count);
        for (k, v) in t.by_kind {
            self.r.counters.add(&format!("triples_{k}"), v);
        }
        let mut g = self.sizes.lock().unwrap();
        for (k, v) in t.by_size {
            *g.entry(k).or_default() += v;
        }
    }
}

fn sorted(v: &[usize]) -> Vec<usize> {
    let mut s = v.to_vec();
    s.sort_unstable();
    s
}

#[derive(Clone, Copy, PartialEq)]
enum OrderedDemand {
    /// ring-ordered view must equal the reference list
    Exact,
    /// no demand on the ring-ordered view (ring order undefined: a token is owned twice)
    Skip,
}

/// What may be demanded of one replica set.
#[derive(Clone, Copy)]
struct Demand {
    /// the member set is defined by the statement (false only for rings with one token owned twice)
    set: bool,
    ordered: OrderedDemand,
    /// deep examination (on the on-the-fly locator; these paths do not depend on precomputation):
    /// choose_filtered with a rejecting predicate, nth on partly consumed iterators
    reject: bool,
}

fn idx(n: &std::sync::Arc<scylla::cluster::Node>) -> usize {
    topo::node_index(n.host_id)
}

/// Examine every view of `replicas_for_token(token, strategy, dc)`; returns (view, complaint) pairs.
fn examine(tally: &mut Tally, loc: &ReplicaLocator, strategy: &Strategy, token: Token, dc: Option<&str>, want: &[usize], demand: Demand, cap: usize) -> Vec<(&'static str, String)> {
    let mut bad: Vec<(&'static str, String)> = Vec::new();
    tally.sets_examined += 1;
    let fresh = || loc.replicas_for_token(token, strategy, dc, &TABLE);

    // len + iteration + ring-ordered view
    let got = catch(AssertUnwindSafe(|| {
        let len = fresh().len();
        let empty = fresh().is_empty();
        // nothing here is sized by a number the driver reports: no collect() (it pre-allocates by size_hint), capped drains
        let (iter, endless_a) = topo::drain_capped(fresh().into_iter().map(|(n, _)| idx(n)), cap);
        let (ordered, endless_b) = topo::drain_capped(fresh().into_replicas_ordered().into_iter().map(|(n, _)| idx(n)), cap);
        (len, empty, iter, ordered, endless_a || endless_b)
    }));
    let (len, empty, iter, ordered) = match got {
        Ok((_, _, iter, ordered, true)) => {
            bad.push(("iter-endless", format!("iteration / ring-ordered view yields more than {cap} elements for a cluster this small (first ones {:?} / {:?})", &iter[..iter.len().min(8)], &ordered[..ordered.len().min(8)])));
            return bad;
        }
        Ok((a, b, c, d, false)) => (a, b, c, d),
        Err(p) => {
            bad.push(("panic", format!("len/iteration/ordered view panicked at {}: {p}", vcore::last_panic_location())));
            return bad;
        }
    };
    let want_set = sorted(want);
    let iter_set = sorted(&iter);
    if iter_set.windows(2).any(|w| w[0] == w[1]) {
        bad.push(("iter-dup", format!("iteration names a node twice: {iter:?}")));
    }
    if demand.set && iter_set != want_set {
        bad.push(("iter-set", format!("iteration yields nodes {iter:?}, the placement is {want:?}")));
    }
    if len != iter.len() || empty != (len == 0) {
        bad.push(("len", format!("len()={len} is_empty()={empty} but iteration yields {} nodes {iter:?}", iter.len())));
    }
    if demand.ordered == OrderedDemand::Exact && ordered != want {
        bad.push(("ordered", format!("ring-ordered view is {ordered:?}, the placement in ring order is {want:?} (iteration {iter:?}, len {len})")));
    }
    if ordered != iter {
        tally.ordered_differs_from_iter += 1;
    }

    // nth: fresh iterator, nth(k) then next()
    let nth = catch(AssertUnwindSafe(|| {
        for k in 0..=iter.len() + 1 {
            let mut it = fresh().into_iter();
            let a = it.nth(k).map(|(n, _)| idx(n));
            let b = it.next().map(|(n, _)| idx(n));
            let (wa, wb) = (iter.get(k).copied(), if k < iter.len() { iter.get(k + 1).copied() } else { None });
            if a != wa || b != wb {
                return Some(format!("nth({k}) then next() = ({a:?}, {b:?}); iteration {iter:?} says ({wa:?}, {wb:?})"));
            }
        }
        if demand.reject {
            // Iterator contract beside next/nth: size_hint brackets what is left at every step, a clone taken mid-way
            // yields the same rest, count() and last() agree with the iteration
            let mut it = fresh().into_iter();
            let mut ord = fresh().into_replicas_ordered().into_iter();
            for k in 0..=iter.len() {
                let left = iter.len() - k;
                let (lo, hi) = it.size_hint();
                if lo > left || hi.is_some_and(|h| h < left) {
                    return Some(format!("[contract] size_hint() after {k} elements is ({lo}, {hi:?}) but {left} elements follow (iteration {iter:?})"));
                }
                let rest: Vec<usize> = topo::drain_capped(it.clone().map(|(n, _)| idx(n)), cap).0;
                if rest != iter[k..] {
                    return Some(format!("[contract] a clone taken after {k} elements yields {rest:?}, the iteration continues with {:?}", &iter[k..]));
                }
                let oleft = ordered.len().saturating_sub(k);
                let (olo, ohi) = ord.size_hint();
                if demand.ordered == OrderedDemand::Exact && (olo > oleft || ohi.is_some_and(|h| h < oleft)) {
                    return Some(format!("[contract] ring-ordered view: size_hint() after {k} elements is ({olo}, {ohi:?}) but {oleft} elements follow ({ordered:?})"));
                }
                it.next();
                ord.next();
            }
            let (cnt, last) = (fresh().into_iter().take(cap + 1).count(), fresh().into_iter().take(cap + 1).last().map(|(n, _)| idx(n)));
            if cnt != iter.len() || last != iter.last().copied() {
                return Some(format!("[contract] count() = {cnt}, last() = {last:?}; iteration {iter:?}"));
            }
        }
        // a partly consumed iterator: nth(a) then nth(b) is element a+b+1
        for a in 0..if demand.reject { iter.len() } else { 0 } {
            for b in 0..=iter.len() - a {
                let mut it = fresh().into_iter();
                let x = it.nth(a).map(|(n, _)| idx(n));
                let y = it.nth(b).map(|(n, _)| idx(n));
                let (wx, wy) = (iter.get(a).copied(), iter.get(a + b + 1).copied());
                if x != wx || y != wy {
                    return Some(format!("nth({a}) then nth({b}) = ({x:?}, {y:?}); iteration {iter:?} says ({wx:?}, {wy:?})"));
                }
            }
        }
        None
    }));
    match nth {
        Ok(Some(c)) if c.starts_with("[contract] ") => bad.push(("iterator-contract", c)),
        Ok(Some(c)) => bad.push(("nth", c)),
        Ok(None) => {}
        Err(p) => bad.push(("panic", format!("nth panicked at {}: {p}", vcore::last_panic_location()))),
    }

    // choose_filtered with an owned RNG: index i of 0..len in turn, accept-all predicate
    let choose = catch(AssertUnwindSafe(|| {
        let mut complaints = Vec::new();
        let mut picked: Vec<usize> = Vec::new();
        // loop bound: what the iteration showed, never the reported len() (a wrong len() is reported above, not followed)
        for i in 0..iter.len().max(1) {
            let mut rng = ScriptedRng::new(vec![ScriptedRng::word_for(i.min(len.saturating_sub(1)), len.max(1))]);
            match fresh().choose_filtered(&mut rng, |_| true) {
                Some((n, _)) => picked.push(idx(n)),
                None if iter.is_empty() => {}
                None => complaints.push(("choose", format!("choose_filtered(index {i} of {len}, accept all) returned nothing; iteration yields {iter:?}"))),
            }
        }
        if complaints.is_empty() && sorted(&picked) != iter_set {
            complaints.push(("choose", format!("choose_filtered over every index 0..{len} returns {picked:?}; iteration yields {iter:?}")));
        }
        if demand.reject {
            // a predicate that rejects one member: result must be another member; nothing only if there is no other
            for x in &iter {
                for i in [0, len.saturating_sub(1)] {
                    let mut rng = ScriptedRng::new(vec![ScriptedRng::word_for(i, len.max(1)), 0x9E37_79B9, 0x1234_5678, 0xFFFF_0000]);
                    let got = fresh().choose_filtered(&mut rng, |(n, _)| idx(n) != *x).map(|(n, _)| idx(n));
                    let ok = match got {
                        Some(y) => y != *x && iter.contains(&y),
                        None => iter.iter().all(|y| y == x),
                    };
                    if !ok {
                        complaints.push(("choose-filtered", format!("choose_filtered(reject node {x}) returned {got:?}; iteration yields {iter:?}")));
                        return complaints;
                    }
                }
            }
        }
        complaints
    }));
    match choose {
        Ok(c) => bad.extend(c),
        Err(p) => bad.push(("panic", format!("choose_filtered panicked at {}: {p}", vcore::last_panic_location()))),
    }
    bad
}

struct Clusters {
    otf: ClusterState,
    pre: ClusterState,
    sparse: Vec<ClusterState>,
}

/// Sparse keyspace sets: per ring datacenter with c racks, variant v precomputes NTS {dc: max(c - v, 0)}
/// (the compressed ring: smaller RFs are answered from its prefix) and NTS {dc: c + 2 - v} (its own
/// above-rack-count ring); the RFs in between are computed on the fly. Simple: RF n-1-v (prefix below, on the fly above).
fn sparse_keyspaces(ring: &Ring, variant: usize) -> Vec<Strat> {
    let mut out = Vec::new();
    let n = ring.token_owners().len();
    out.push(Strat::Simple(n.saturating_sub(1 + variant).max(1)));
    let dcs = ring.datacenters();
    let low: Vec<(String, usize)> = dcs.iter().map(|d| (d.clone(), ring.rack_count(d).saturating_sub(variant))).collect();
    let high: Vec<(String, usize)> = dcs.iter().map(|d| (d.clone(), ring.rack_count(d) + 2 - variant)).collect();
    out.push(Strat::Nts(low));
    out.push(Strat::Nts(high));
    out
}

fn build_clusters(c: &Concrete, ring: &Ring, strats: &[Strat], sparse_variants: usize) -> Result<Clusters, String> {
    catch(AssertUnwindSafe(|| {
        let all: Vec<_> = strats.iter().enumerate().map(|(i, s)| topo::keyspace(&format!("ks{i}"), s, false)).collect();
        let sparse = (0..sparse_variants)
            .map(|v| {
                let ks: Vec<_> = sparse_keyspaces(ring, v).iter().enumerate().map(|(i, s)| topo::keyspace(&format!("sp{i}"), s, false)).collect();
                topo::build_cluster(c, &ks)
            })
            .collect();
        Clusters { otf: topo::build_cluster(c, &[]), pre: topo::build_cluster(c, &all), sparse }
    }))
}

#[derive(Clone)]
struct Params {
    /// additionally strategies with the largest replication factor a server accepts (i32::MAX)
    huge_rf: bool,
    family: Family,
    sparse_variants: usize,
    dense_tokens: bool,
    ask_never_mentioned_dc: bool,
}
impl Params {
    fn to_json(&self) -> Value {
        json!({"huge_rf": self.huge_rf, "family": self.family.to_json(), "sparse_variants": self.sparse_variants, "dense_tokens": self.dense_tokens, "ask_never_mentioned_dc": self.ask_never_mentioned_dc})
    }
    fn from_json(v: &Value) -> Params {
        Params { huge_rf: v["huge_rf"].as_bool().unwrap_or(false), family: Family::from_json(&v["family"]), sparse_variants: v["sparse_variants"].as_u64().unwrap_or(1) as usize, dense_tokens: v["dense_tokens"].as_bool().unwrap_or(true), ask_never_mentioned_dc: v["ask_never_mentioned_dc"].as_bool().unwrap_or(true) }
    }
}

fn case_json(c: &Concrete, absent_dc: &str, s: &Strat, token: i64, p: &Params) -> Value {
    json!({"cluster": c.to_json(), "absent_dc": absent_dc, "strategy": topo::strat_to_json(s), "token": token, "params": p.to_json()})
}

/// All strategies x all query tokens of one concrete cluster (or only `only`, for replay).
fn run_topology(env: &Env, c: &Concrete, absent_dc: &str, topo_rank: u64, p: &Params, only: Option<(&Strat, i64)>) {
    let mut tally = Tally::default();
    let ring = c.ring();
    let dup = ring.duplicate_tokens();
    let dup_dc = ring.duplicate_tokens_within_a_dc();
    let cap = topo::node_cap(ring.nodes.len());
    let mut strats = topo::strategies(c, absent_dc, &p.family);
    if p.huge_rf {
        const HUGE: usize = i32::MAX as usize;
        strats.push(Strat::Simple(HUGE));
        let dcs = ring.datacenters();
        strats.push(Strat::Nts(dcs.iter().map(|d| (d.clone(), HUGE)).chain(std::iter::once((absent_dc.to_string(), HUGE))).collect()));
        if let Some(d) = dcs.first() {
            strats.push(Strat::Nts(vec![(d.clone(), HUGE)]));
        }
    }
    let clusters = match build_clusters(c, &ring, &strats, p.sparse_variants) {
        Ok(x) => x,
        Err(pn) => {
            env.sink.report("construct:panic", topo_rank << 24, || (format!("ClusterState::new panicked at {}: {pn}", vcore::last_panic_location()), case_json(c, absent_dc, &Strat::Local, 0, p)));
            return;
        }
    };
    // sanity of the built object against the reference ring (machinery + datacenter bookkeeping)
    {
        let loc = clusters.otf.replica_locator();
        let got: Vec<usize> = loc.unique_nodes_in_global_ring().iter().map(idx).collect();
        if got != ring.token_owners() && !dup {
            env.sink.report("ring:unique-nodes", topo_rank << 24, || (format!("unique_nodes_in_global_ring = {got:?}, ring order of token owners is {:?}", ring.token_owners()), case_json(c, absent_dc, &Strat::Local, 0, p)));
        }
        // per-datacenter node lists (what the load balancer calls "local nodes") and the public token ring
        for dc in ring.datacenters() {
            let got: Option<Vec<usize>> = loc.unique_nodes_in_datacenter_ring(&dc).map(|v| v.iter().map(idx).collect());
            let want: Vec<usize> = ring.token_owners().into_iter().filter(|n| ring.nodes[*n].dc.as_deref() == Some(dc.as_str())).collect();
            if !dup && got.as_ref() != Some(&want) {
                env.sink.report("ring:datacenter-nodes", topo_rank << 24, || (format!("unique_nodes_in_datacenter_ring({dc}) = {got:?}, ring order of that datacenter's token owners is {want:?}"), case_json(c, absent_dc, &Strat::Local, 0, p)));
            }
        }
        if loc.unique_nodes_in_datacenter_ring(absent_dc).is_some() {
            env.sink.report("ring:datacenter-nodes", topo_rank << 24, || (format!("unique_nodes_in_datacenter_ring({absent_dc}) answers for a datacenter without token owners"), case_json(c, absent_dc, &Strat::Local, 0, p)));
        }
        {
            let mut got: Vec<(i64, usize)> = loc.ring().iter().map(|(t, n)| (t.value(), idx(n))).collect();
            let sorted_by_token = got.windows(2).all(|w| w[0].0 <= w[1].0);
            let mut want = ring.entries.clone();
            got.sort_unstable();
            want.sort_unstable();
            if got != want || !sorted_by_token || loc.ring().len() != want.len() || loc.ring().is_empty() != want.is_empty() {
                env.sink.report("ring:entries", topo_rank << 24, || (format!("ring() holds {got:?} (sorted by token: {sorted_by_token}, len {}), the metadata says {want:?}", loc.ring().len()), case_json(c, absent_dc, &Strat::Local, 0, p)));
            }
            if !dup {
                for t in ring.query_tokens(false) {
                    let owner = loc.ring().get_elem_for_token(Token::new(t)).map(idx);
                    let walk: Vec<usize> = topo::drain_capped(loc.ring().ring_range(Token::new(t)).map(idx), topo::node_cap(ring.entries.len())).0;
                    if owner != ring.walk(t).first().copied() || walk != ring.walk(t) {
                        env.sink.report("ring:walk", topo_rank << 24, || (format!("ring().get_elem_for_token({t}) = {owner:?}, ring_range = {walk:?}; clockwise from {t} the ring is {:?}", ring.walk(t)), case_json(c, absent_dc, &Strat::Local, t, p)));
                    }
                }
            }
        }
        let dcs: BTreeSet<String> = loc.datacenter_names().iter().cloned().collect();
        let want: BTreeSet<String> = ring.datacenters().into_iter().collect();
        if dcs != want {
            env.sink.report("ring:datacenters", topo_rank << 24, || (format!("datacenter_names = {dcs:?}, ring has {want:?}"), case_json(c, absent_dc, &Strat::Local, 0, p)));
        }
    }
    let mut tokens = ring.query_tokens(p.dense_tokens);
    tokens.push(i64::MIN); // the driver folds it onto i64::MAX
    // datacenters asked for in restricted queries: every ring DC, the absent one, (a never-mentioned one)
    let mut ask_dcs: Vec<String> = ring.datacenters();
    ask_dcs.push(absent_dc.to_string());
    if p.ask_never_mentioned_dc {
        ask_dcs.push("never-mentioned".to_string());
    }
    let rack_counts: Vec<(String, usize)> = ring.datacenters().into_iter().map(|d| (d.clone(), ring.rack_count(&d))).collect();

    for (si, s) in strats.iter().enumerate() {
        if let Some((os, _)) = only {
            if os != s {
                continue;
            }
        }
        let kind = topo::strat_kind(s);
        let strategy = topo::to_driver_strategy(s);
        let is_nts = matches!(s, Strat::Nts(_));
        // a token owned twice: Simple-like answers are undefined; the global ring order is undefined
        let demand = Demand { set: if is_nts { !dup_dc } else { !dup }, ordered: if dup { OrderedDemand::Skip } else { OrderedDemand::Exact }, reject: true };
        if let Strat::Nts(e) = s {
            for (dc, rf) in e {
                if let Some((_, racks)) = rack_counts.iter().find(|(d, _)| d == dc) {
                    if rf > racks {
                        tally.rf_above_rack_count += tokens.len() as u64;
                    } else {
                        tally.rf_within_rack_count += tokens.len() as u64;
                    }
                }
            }
        }
        for (ti, &tok) in tokens.iter().enumerate() {
            if let Some((_, ot)) = only {
                if ot != tok {
                    continue;
                }
            }
            let token = Token::new(tok);
            let tv = token.value(); // the reference is asked about the token value the driver holds
            let rank = (topo_rank << 24) | ((si as u64) << 8) | ti as u64;
            let want_all = ring.replicas_ring_order(tv, s);
            tally.triples += 1;
            *tally.by_kind.entry(kind).or_default() += 1;
            if demand.set {
                *tally.by_size.entry(want_all.len()).or_default() += 1;
                if want_all.len() >= 2 && want_all != ring.simple(tv, want_all.len()) {
                    tally.nontrivial += 1;
                }
            }
            let report = |path: &str, dc: Option<&str>, view: &str, text: String, precomputed_only: bool| {
                let key = format!("{}{}{}:{}", if precomputed_only { "precomputed:" } else { "" }, if dc.is_some() { "dc-restricted:" } else { "" }, view, kind);
                env.sink.report(&key, rank, || {
                    (
                        format!("[{path} locator{}] strategy {} token {tok}: {text}; ring (token,node) = {:?}, nodes (dc,rack) = {:?}", dc.map(|d| format!(", restricted to {d}")).unwrap_or_default(), topo::strat_to_json(s), ring.entries, ring.nodes.iter().map(|n| (n.dc.as_deref().unwrap_or("-"), n.rack.as_deref().unwrap_or("-"))).collect::<Vec<_>>()),
                        case_json(c, absent_dc, s, tok, p),
                    )
                });
            };
            // unrestricted + each restricted query, on each locator
            let mut queries: Vec<(Option<&str>, Vec<usize>, Demand)> = vec![(None, want_all.clone(), demand)];
            for dc in &ask_dcs {
                // inside one DC the NTS walk order is defined even if other DCs share tokens
                let d = if is_nts { Demand { set: !dup_dc, ordered: if dup_dc { OrderedDemand::Skip } else { OrderedDemand::Exact }, reject: true } } else { demand };
                queries.push((Some(dc.as_str()), ring.replicas_ring_order_in_dc(tv, s, dc), d));
            }
            for (dc, want, d) in &queries {
                let otf_bad = examine(&mut tally, clusters.otf.replica_locator(), &strategy, token, *dc, want, *d, cap);
                let otf_views: BTreeSet<&str> = otf_bad.iter().map(|b| b.0).collect();
                for (view, text) in &otf_bad {
                    report("on-the-fly", *dc, view, text.clone(), false);
                }
                let mut others: Vec<(&str, &ClusterState)> = vec![("precomputed", &clusters.pre)];
                for sp in &clusters.sparse {
                    others.push(("sparse-precomputed", sp));
                }
                let d2 = Demand { reject: false, ..*d }; // the rejecting-predicate path does not depend on precomputation
                for (path, cl) in others {
                    for (view, text) in examine(&mut tally, cl.replica_locator(), &strategy, token, *dc, want, d2, cap) {
                        report(path, *dc, view, text, !otf_views.contains(view));
                    }
                }
            }
            // ClusterState::get_token_endpoints through the keyspace name (precomputed cluster)
            let ep = catch(AssertUnwindSafe(|| clusters.pre.get_token_endpoints(&format!("ks{si}"), "t", token).iter().map(|(n, _)| idx(n)).collect::<Vec<usize>>()));
            match ep {
                Ok(got) => {
                    if demand.set && sorted(&got) != sorted(&want_all) {
                        report("precomputed", None, "endpoints", format!("get_token_endpoints = {got:?}, the placement is {want_all:?}"), false);
                    }
                }
                Err(pn) => report("precomputed", None, "panic", format!("get_token_endpoints panicked: {pn}"), false),
            }
            if si == 0 {
                // unknown keyspace: documented as the token's owner
                let got: Vec<usize> = clusters.otf.get_token_endpoints("no_such_keyspace", "t", token).iter().map(|(n, _)| idx(n)).collect();
                let want = ring.simple(tv, 1);
                if !dup && got != want {
                    env.sink.report("endpoints:unknown-keyspace", rank, || (format!("get_token_endpoints(unknown keyspace, token {tok}) = {got:?}, token owner is {want:?}"), case_json(c, absent_dc, s, tok, p)));
                }
            }
        }
    }
    env.absorb(tally);
}

fn replay(env: &Env, case: &Value) {
    let Some(c) = Concrete::from_json(&case["cluster"]) else { vcore::machinery_error("replay: bad cluster") };
    let Some(s) = topo::strat_from_json(&case["strategy"]) else { vcore::machinery_error("replay: bad strategy") };
    let tok = case["token"].as_i64().unwrap_or(0);
    let absent = case["absent_dc"].as_str().unwrap_or("dcX").to_string();
    let p = Params::from_json(&case["params"]);
    let ring = c.ring();
    println!("replay: ring (token,node) = {:?}", ring.entries);
    println!("replay: nodes = {:?}", ring.nodes);
    println!("replay: strategy = {}, token = {tok}", topo::strat_to_json(&s));
    println!("replay: reference placement in ring order = {:?}", ring.replicas_ring_order(Token::new(tok).value(), &s));
    let mut strats = topo::strategies(&c, &absent, &p.family);
    if p.huge_rf {
        const HUGE: usize = i32::MAX as usize;
        strats.push(Strat::Simple(HUGE));
        let dcs = ring.datacenters();
        strats.push(Strat::Nts(dcs.iter().map(|d| (d.clone(), HUGE)).chain(std::iter::once((absent.clone(), HUGE))).collect()));
        if let Some(d) = dcs.first() {
            strats.push(Strat::Nts(vec![(d.clone(), HUGE)]));
        }
    }
    // the artefact's strategy is matched structurally (NTS entries as a map)
    let canon = |s: &Strat| match s {
        Strat::Nts(e) => {
            let mut e = e.clone();
            e.sort();
            Strat::Nts(e)
        }
        o => o.clone(),
    };
    match strats.iter().find(|x| canon(x) == canon(&s)) {
        Some(found) => {
            // observation trace: what the driver answers on each locator
            if let Ok(cl) = build_clusters(&c, &ring, &strats, p.sparse_variants) {
                let strategy = topo::to_driver_strategy(found);
                let mut locs: Vec<(&str, &ClusterState)> = vec![("on-the-fly", &cl.otf), ("precomputed", &cl.pre)];
                for sp in &cl.sparse {
                    locs.push(("sparse-precomputed", sp));
                }
                let mut dcs: Vec<Option<String>> = vec![None];
                dcs.extend(ring.datacenters().into_iter().map(Some));
                for (name, st) in locs {
                    for dc in &dcs {
                        let got = catch(AssertUnwindSafe(|| {
                            let f = || st.replica_locator().replicas_for_token(Token::new(tok), &strategy, dc.as_deref(), &TABLE);
                            (f().len(), topo::drain_capped(f().into_iter().map(|(n, _)| idx(n)), topo::node_cap(ring.nodes.len())).0, topo::drain_capped(f().into_replicas_ordered().into_iter().map(|(n, _)| idx(n)), topo::node_cap(ring.nodes.len())).0)
                        }));
                        println!("replay: [{name}] restricted to {dc:?}: (len, iteration, ring-ordered view) = {got:?}");
                    }
                }
            }
            run_topology(env, &c, &absent, 0, &p, Some((found, tok)))
        }
        None => vcore::machinery_error("replay: strategy is not in the enumerated family for this cluster"),
    }
}

/// One random cluster of 5..=12 nodes in 1..=3 datacenters with up to 4 racks each (some nodes rack-less,
/// occasionally DC-less), 1..=3 distinct random full-range tokens per node (at most 24 ring entries).
fn sampled_cluster(seed: u64) -> Concrete {
    let mut rng = vcore::Rng::new(seed);
    let n = 5 + rng.below(8) as usize;
    let ndc = 1 + rng.below(3) as usize;
    let nrack = 1 + rng.below(4) as usize;
    let mut used: BTreeSet<i64> = BTreeSet::new();
    let mut nodes = Vec::new();
    for _ in 0..n {
        let dc = if rng.below(20) == 0 { None } else { Some(format!("dc{}", rng.below(ndc as u64))) };
        let rack = if dc.is_none() || rng.below(10) == 0 { None } else { Some(format!("r{}", rng.below(nrack as u64))) };
        let vn = if n > 8 { 1 + rng.below(2) } else { 1 + rng.below(3) };
        let mut tokens = Vec::new();
        for _ in 0..vn {
            let mut t = rng.next_u64() as i64;
            while t == i64::MIN || !used.insert(t) {
                t = rng.next_u64() as i64;
            }
            tokens.push(t);
        }
        nodes.push(topo::CNode { dc, rack, tokens });
    }
    Concrete { nodes }
}

/// Which strategies / tokens / extras are spent on which class of topology.
fn params_for(t: &Topo, thorough: bool) -> Params {
    let (slots, nodes) = (t.slots(), t.n());
    if thorough {
        let heavy = slots >= 6 && nodes >= 4 || nodes >= 5 || slots >= 7;
        Params {
            huge_rf: slots <= 2,
            family: if heavy { Family { rf_extra: 1, absent_rfs: vec![1] } } else { Family { rf_extra: 2, absent_rfs: vec![0, 1, 2] } },
            sparse_variants: 2,
            dense_tokens: !heavy,
            ask_never_mentioned_dc: !heavy,
        }
    } else {
        let light = slots <= 3;
        let heavy = slots >= 5 && nodes >= 4;
        Params {
            huge_rf: slots <= 2,
            family: if light {
                Family { rf_extra: 2, absent_rfs: vec![0, 1, 2] }
            } else if heavy {
                Family { rf_extra: 1, absent_rfs: vec![] }
            } else {
                Family { rf_extra: 1, absent_rfs: vec![1] }
            },
            sparse_variants: 1,
            dense_tokens: light,
            ask_never_mentioned_dc: light,
        }
    }
}

fn main() {
    vcore::quiet_panics();
    let r = Report::new("C04", "placement", "exploration", "E-ENUM");
    let sink = MinViolations::default();
    let env = Env { r: &r, sink: &sink, sizes: Mutex::new(BTreeMap::new()) };
    if let Some(case) = r.replay_case() {
        replay(&env, &case);
        sink.flush(&r);
        r.finish_replay();
    }
    // machinery self-tests: reference vs the repo's pinned expectations; owned RNG
    let bad = cqlref::placement::self_test();
    if !bad.is_empty() {
        vcore::machinery_error(&format!("cqlref::placement disagrees with the pinned 7-node ring expectations: {bad:?}"));
    }
    if let Err(e) = topo::scripted_rng_self_test() {
        vcore::machinery_error(&e);
    }
    let thorough = r.tier().is_thorough();
    let bounds = if thorough {
        // <= 5 slots: up to 5 nodes; 6 slots: up to 4 nodes; 7 slots (vnode-heavy): up to 3 nodes
        EnumBounds { max_slots: 7, max_nodes: 5, max_dcs: 3, max_racks: 3, extremes_upto_slots: 4, dup_upto_slots: 4, node_cap: |t| if t <= 5 { 5 } else if t == 6 { 4 } else { 3 } }
    } else {
        EnumBounds { max_slots: 5, max_nodes: 4, max_dcs: 3, max_racks: 3, extremes_upto_slots: 3, dup_upto_slots: 3, node_cap: |_| usize::MAX }
    };
    let mut topos = topo::enumerate(&bounds);
    if !thorough {
        // quick: the 5-slot x 4-node rings are taken with at most 2 datacenters (3-DC ones: thorough tier)
        topos.retain(|t| !(t.slots() >= 5 && t.n() >= 4 && t.dc_count() >= 3));
    }
    let n_topos = topos.len();
    // the second name spelling (shakes hash-map iteration orders) is spent on the rings with <= 4 slots
    let spellings_for = |t: &Topo| -> &'static [usize] { if thorough && t.slots() <= 4 { &[0, 1] } else { &[0] } };
    if r.args.has_flag("--count") {
        println!("topologies: {n_topos}");
        let mut by: BTreeMap<(usize, usize, usize), (u64, u64)> = Default::default();
        for t in &topos {
            let c = t.concrete(&SPELLINGS[0]);
            let p = params_for(t, thorough);
            let ns = topo::strategies(&c, "dcX", &p.family).len() as u64;
            let nt = c.ring().query_tokens(p.dense_tokens).len() as u64 + 1;
            let e = by.entry((t.slots(), t.n(), t.dc_count())).or_default();
            e.0 += 1;
            e.1 += ns * nt;
        }
        let mut total = 0;
        for (k, v) in by {
            println!("slots={} nodes={} dcs={}: topologies={} triples={}", k.0, k.1, k.2, v.0, v.1);
            total += v.1;
        }
        println!("total triples per spelling: {total}");
        std::process::exit(0);
    }
    // the repo's pinned 7-node ring first (RF up to dc size, unknown DC with RF 2 as in the repo's test)
    {
        let pinned = cqlref::placement::pinned_seven_node_ring();
        let mut nodes: Vec<topo::CNode> = pinned.nodes.iter().map(|n| topo::CNode { dc: n.dc.clone(), rack: n.rack.clone(), tokens: vec![] }).collect();
        for (t, n) in &pinned.entries {
            nodes[*n].tokens.push(*t);
        }
        let p = Params { huge_rf: true, family: Family { rf_extra: 1, absent_rfs: vec![2] }, sparse_variants: 2, dense_tokens: false, ask_never_mentioned_dc: true };
        run_topology(&env, &Concrete { nodes }, "unknown", u32::MAX as u64, &p, None);
        r.counters.add("pinned_seven_node_ring_triples", r.evaluations.load(Ordering::Relaxed));
    }
    let env_ref = &env;
    vcore::par::for_each(r.args.jobs, 2, topos.iter().enumerate(), |(i, t)| {
        let p = params_for(t, thorough);
        for &sp in spellings_for(t) {
            let names = &SPELLINGS[sp];
            let c = t.concrete(names);
            run_topology(env_ref, &c, names.absent_dc, i as u64, &p, None);
            // small rings again with one more peer that owns no token (known node, not on the ring):
            // once in an existing datacenter, once in a datacenter of its own (which must then not become a ring DC)
            if t.slots() <= (if thorough { 3 } else { 2 }) && sp == 0 {
                for (k, dc) in [names.dcs[0], "dc-of-the-tokenless-node"].into_iter().enumerate() {
                    let mut c2 = c.clone();
                    c2.nodes.push(topo::CNode { dc: Some(dc.to_string()), rack: Some(names.racks[0].to_string()), tokens: vec![] });
                    run_topology(env_ref, &c2, names.absent_dc, (n_topos * (k + 1) + i) as u64, &p, None);
                    env_ref.r.counters.add("topologies_with_a_peer_that_owns_no_token", 1);
                }
            }
        }
    });
    // clusters whose ring is empty (known peers, none owns a token): every answer is the empty set, nothing panics
    for k in 1..=2usize {
        let c = Concrete { nodes: (0..k).map(|i| topo::CNode { dc: Some(SPELLINGS[0].dcs[i % 2].to_string()), rack: Some(SPELLINGS[0].racks[0].to_string()), tokens: vec![] }).collect() };
        let p = Params { huge_rf: true, family: Family { rf_extra: 2, absent_rfs: vec![0, 1] }, sparse_variants: 1, dense_tokens: true, ask_never_mentioned_dc: true };
        run_topology(&env, &c, "dcX", (n_topos as u64) * 5 + k as u64, &p, None);
        r.counters.add("clusters_with_an_empty_ring", 1);
    }
    // SAMPLED sweep at the scale the property names (up to 12 nodes x 3 DCs x 4 racks, vnodes, random
    // full-range tokens): seeded, labelled sampled, not what the coverage claim rests on.
    {
        let n_big = if thorough { 1500 } else { 40 };
        let seed = r.args.seed;
        let p = Params { huge_rf: false, family: Family { rf_extra: 1, absent_rfs: vec![1] }, sparse_variants: 1, dense_tokens: false, ask_never_mentioned_dc: false };
        let p_ref = &p;
        let triples_before = r.evaluations.load(Ordering::Relaxed);
        vcore::par::for_range(r.args.jobs, n_big, |i| {
            let c = sampled_cluster(seed.wrapping_mul(0x9E37_79B9).wrapping_add(i));
            run_topology(env_ref, &c, "dcX", (n_topos as u64) * 4 + i, p_ref, None);
        });
        r.counters.add("sampled_large_clusters", n_big);
        r.counters.add("sampled_large_cluster_triples", r.evaluations.load(Ordering::Relaxed) - triples_before);
    }
    sink.flush(&r);
    r.counters.add("topologies", n_topos as u64);
    r.counters.add("topologies_with_a_token_owned_twice", topos.iter().filter(|t| matches!(t.layout, topo::Layout::Dup(_))).count() as u64);
    r.counters.add("topologies_with_boundary_tokens", topos.iter().filter(|t| matches!(t.layout, topo::Layout::Extremes)).count() as u64);
    r.counters.add("topologies_with_rackless_or_dcless_nodes", topos.iter().filter(|t| t.dc.iter().any(|d| d.is_none()) || t.rack.iter().zip(&t.dc).any(|(r, d)| r.is_none() && d.is_some())).count() as u64);
    let sizes = env.sizes.lock().unwrap().clone();
    r.note("triples_by_placement_size", json!(sizes.iter().map(|(k, v)| (k.to_string(), *v)).collect::<BTreeMap<String, u64>>()));
    r.counters.add("distinct_placement_sizes", sizes.len() as u64);
    r.note(
        "bounds",
        json!({"max_token_slots": bounds.max_slots, "max_nodes": bounds.max_nodes, "max_dcs": bounds.max_dcs, "max_racks_per_dc": bounds.max_racks,
        "strategy_family": "Local, Other, Simple RF 0..nodes+e, NTS: every RF 0..dc size+e on every subset of ring DCs x {no entry | RF in A} for one DC absent from the ring; (e, A) by topology class - see params_for()",
        "name_spellings": if thorough { "2 for rings with <= 4 slots, 1 above" } else { "1" }, "node_cap_by_slots": if thorough { "<=5 slots: 5 nodes; 6 slots: 4 nodes; 7 slots: 3 nodes" } else { "5 slots x 4 nodes only with <= 2 datacenters" }}),
    );
    r.set_rule("E-ENUM. evaluations = (topology, strategy, query token) triples; for each, the unrestricted replica set and one per datacenter (ring DCs, a DC absent from the ring, for small rings also a never-mentioned DC) is examined through len/is_empty, iteration, nth+next, choose_filtered (owned RNG: every index, and a predicate rejecting each member), ring-ordered view, on 3+ locators (nothing / everything / sparse sets precomputed), plus get_token_endpoints by keyspace name; compared with cqlref::placement. Topologies: every canonical (slot sequence x dc/rack placement incl. DC-less and rack-less nodes) within bounds, plus boundary-token and duplicate-token layouts for the small ones, plus the repo's pinned 7-node ring, plus a seeded SAMPLED sweep of clusters of 5..12 nodes x <= 3 DCs x <= 4 racks with random full-range tokens (counter sampled_large_clusters; the coverage claim does not rest on it). distinct_nontrivial = triples whose placement has >= 2 nodes and is not the plain ring prefix of that length.");
    r.set_exhaustive(true);
    r.assume("a node without a rack belongs to one shared 'no rack' rack of its datacenter (counted and walked consistently); a node without a datacenter is in no datacenter");
    r.assume("rings where two nodes own the same token: ring order between the owners is undefined - only per-DC NTS answers (duplicates in different DCs) and the mutual agreement of len/iteration/nth/choose are checked there");
    r.assume("LocalStrategy / unknown strategies: one replica, the token's owner (the driver's documented fallback)");
    r.assume("exhaustive = the canonical small-topology space was covered without a cap; the additional sweep over 5..12-node clusters is SAMPLED (seeded) and is not what the coverage claim rests on");
    r.sample(json!({"cluster": topos[topos.len() / 2].concrete(&SPELLINGS[0]).to_json()}));
    r.sample(json!({"cluster": topos[topos.len() - 1].concrete(&SPELLINGS[0]).to_json()}));
    r.finish();
}
