//! C03 (leg keys) - partition-key extraction and token of a prepared statement, for every
//! arrangement of bind markers. Engine E-ENUM against `cqlref::murmur3`.
//!
//! A real `PreparedStatement` is built by hook H-PREPARED from the *body bytes of a RESULT/Prepared
//! response* written here from the CQL v4 specification (section 4.2.5.4): the production parser
//! creates `pk_indexes` (index + sequence, sorted by index), the production constructor builds the
//! statement, the partitioner comes from the table's `partitioner` string in a real `ClusterState`.
//! For k key components among m bind markers in EVERY injective arrangement (positions x order),
//! non-key markers interleaved (valued, NULL or unset), component byte strings from
//! {empty, 1, 15, 16, 17, 65535 bytes}:
//!   compute_partition_key == reference framing (single: raw bytes; composite: len16|bytes|0 in KEY order)
//!   calculate_token       == reference token of that framing (Murmur3 or CDC by table partitioner)
//!   ClusterState::compute_token(values in key order) == the same token
//!   a 65536-byte component of a composite key is refused.
use scylla::cluster::ClusterState;
use scylla::frame::response::result::{ColumnType, NativeType};
use scylla::statement::prepared::PreparedStatement;
use scylla::value::MaybeUnset;
use scylla::verif::prepared as hook;
use serde_json::{Value, json};
use std::collections::BTreeSet;
use vcore::{Report, catch};

const KS: &str = "ks";
const TABLE: &str = "t";

// ---- RESULT/Prepared body, from the protocol specification ---------------------------------------
fn put_int(o: &mut Vec<u8>, v: i32) {
    o.extend_from_slice(&v.to_be_bytes());
}
fn put_short(o: &mut Vec<u8>, v: u16) {
    o.extend_from_slice(&v.to_be_bytes());
}
fn put_string(o: &mut Vec<u8>, s: &str) {
    put_short(o, s.len() as u16);
    o.extend_from_slice(s.as_bytes());
}
/// `pk_marker[j]` = index of the bind marker that binds partition-key component j.
fn prepared_body(m: usize, pk_marker: &[usize], global_spec: bool) -> Vec<u8> {
    let mut o = Vec::new();
    put_int(&mut o, 0x0004); // kind: Prepared
    put_short(&mut o, 4); // id
    o.extend_from_slice(&[0xca, 0xfe, m as u8, pk_marker.len() as u8]);
    // prepared metadata
    put_int(&mut o, if global_spec { 0x0001 } else { 0 });
    put_int(&mut o, m as i32);
    put_int(&mut o, pk_marker.len() as i32);
    for p in pk_marker {
        put_short(&mut o, *p as u16);
    }
    if global_spec {
        put_string(&mut o, KS);
        put_string(&mut o, TABLE);
    }
    for i in 0..m {
        if !global_spec {
            put_string(&mut o, KS);
            put_string(&mut o, TABLE);
        }
        put_string(&mut o, &format!("c{i}"));
        put_short(&mut o, 0x0003); // blob
    }
    // result metadata: No_metadata, 0 columns
    put_int(&mut o, 0x0004);
    put_int(&mut o, 0);
    o
}

/// Component j of length `len`: distinct content per component so that any misplacement shows.
fn component(j: usize, len: usize) -> Vec<u8> {
    (0..len).map(|i| (0x80 + 29 * j + 7 * i) as u8).collect()
}

#[derive(Clone, Copy, Debug, PartialEq, Eq)]
enum NonKey {
    Valued,
    Null,
    Unset,
    Long,
}

#[derive(Clone, Debug)]
struct Case {
    m: usize,
    pk_marker: Vec<usize>,
    lens: Vec<usize>,
    nonkey: NonKey,
    partitioner: Option<&'static str>,
    global_spec: bool,
    /// explicit component bytes (constructed preimages); empty = generated from `lens`
    explicit: Vec<Vec<u8>>,
}

impl Case {
    fn to_json(&self) -> Value {
        json!({"leg":"keys","markers":self.m,"pk_marker":self.pk_marker,"lens":self.lens,"nonkey":format!("{:?}", self.nonkey),"partitioner":self.partitioner,"global_spec":self.global_spec,"explicit_hex":self.explicit.iter().map(|c| vcore::hex(c)).collect::<Vec<_>>()})
    }
    fn from_json(v: &Value) -> Option<Case> {
        let us = |k: &str| -> Option<Vec<usize>> { v[k].as_array()?.iter().map(|x| x.as_u64().map(|x| x as usize)).collect() };
        Some(Case {
            m: v["markers"].as_u64()? as usize,
            pk_marker: us("pk_marker")?,
            lens: us("lens")?,
            nonkey: match v["nonkey"].as_str()? {
                "Null" => NonKey::Null,
                "Unset" => NonKey::Unset,
                "Long" => NonKey::Long,
                _ => NonKey::Valued,
            },
            partitioner: match v["partitioner"].as_str() {
                None => None,
                Some(s) => Some(SPELLINGS.iter().flatten().copied().find(|x| *x == s)?),
            },
            global_spec: v["global_spec"].as_bool().unwrap_or(true),
            explicit: v["explicit_hex"].as_array().map(|a| a.iter().map(|x| vcore::unhex(x.as_str().unwrap_or(""))).collect()).unwrap_or_default(),
        })
    }
}

const MURMUR: &str = "org.apache.cassandra.dht.Murmur3Partitioner";
const CDC: &str = "com.scylladb.dht.CDCPartitioner";
/// `system_schema.scylla_tables.partitioner` values: absent, the two class names the servers send, their
/// bare forms, and names the driver does not know (it then falls back to the default partitioner, Murmur3).
const SPELLINGS: [Option<&str>; 8] = [None, Some(MURMUR), Some(CDC), Some("Murmur3Partitioner"), Some("CDCPartitioner"), Some("org.apache.cassandra.dht.RandomPartitioner"), Some("org.apache.cassandra.dht.ByteOrderedPartitioner"), Some("")];
fn spelling_is_cdc(p: Option<&str>) -> bool {
    p.is_some_and(|s| s.ends_with("CDCPartitioner"))
}

struct Worlds {
    /// (partitioner string, number of pk columns) -> cluster state with that table
    states: Vec<(Option<&'static str>, usize, ClusterState)>,
}
impl Worlds {
    fn new(max_k: usize) -> Worlds {
        let mut states = Vec::new();
        for p in SPELLINGS {
            for k in 0..=max_k {
                let types: Vec<ColumnType<'static>> = (0..k).map(|_| ColumnType::Native(NativeType::Blob)).collect();
                states.push((p, k, hook::cluster_state_with_table(KS, TABLE, &types, p)));
            }
        }
        Worlds { states }
    }
    fn get(&self, p: Option<&'static str>, k: usize) -> &ClusterState {
        &self.states.iter().find(|(pp, kk, _)| *pp == p && *kk == k).unwrap_or_else(|| vcore::machinery_error("no cluster state for this key width")).2
    }
}

fn check(r: &Report, w: &Worlds, c: &Case, verbose: bool) {
    r.eval(1);
    let k = c.pk_marker.len();
    let cs = w.get(c.partitioner, k);
    let body = prepared_body(c.m, &c.pk_marker, c.global_spec);
    let ps: PreparedStatement = match catch(std::panic::AssertUnwindSafe(|| hook::prepared_from_response_body("INSERT INTO ks.t (...) VALUES (...)", &body, cs))) {
        Ok(Ok(p)) => p,
        Ok(Err(e)) => {
            r.violation("keys:prepared-rejected", &format!("well-formed PREPARED metadata rejected for {c:?}: {e}"), c.to_json());
            return;
        }
        Err(p) => {
            r.violation("keys:panic", &format!("building the prepared statement panicked for {c:?}: {p}"), c.to_json());
            return;
        }
    };
    // bound values in marker order
    let comps: Vec<Vec<u8>> = if c.explicit.is_empty() { (0..k).map(|j| component(j, c.lens[j])).collect() } else { c.explicit.clone() };
    let mut values: Vec<MaybeUnset<Option<Vec<u8>>>> = Vec::with_capacity(c.m);
    for i in 0..c.m {
        match c.pk_marker.iter().position(|p| *p == i) {
            Some(j) => values.push(MaybeUnset::Set(Some(comps[j].clone()))),
            None => values.push(match c.nonkey {
                NonKey::Valued => MaybeUnset::Set(Some(vec![0xee, i as u8, 0x11])),
                NonKey::Null => MaybeUnset::Set(None),
                NonKey::Unset => MaybeUnset::Unset,
                NonKey::Long => MaybeUnset::Set(Some(vec![0x55; 17 + i])),
            }),
        }
    }
    let comp_refs: Vec<&[u8]> = comps.iter().map(|v| v.as_slice()).collect();
    let want_key = cqlref::murmur3::partition_key_bytes(&comp_refs);
    // deciding spellings: absent and the two class names the servers send. For bare or unknown names the
    // property prescribes nothing (no server sends them / the driver cannot compute such a partitioner's token):
    // there the statement must only be consistent with the partitioner it reports itself.
    let deciding = matches!(c.partitioner, None | Some(MURMUR) | Some(CDC));
    let is_cdc = if deciding { spelling_is_cdc(c.partitioner) } else { matches!(ps.get_partitioner_name(), scylla::routing::partitioner::PartitionerName::CDC) };
    let want_token = want_key.as_ref().map(|kb| if is_cdc { cqlref::murmur3::cdc_token(kb) } else { cqlref::murmur3::murmur3_token(kb) });
    if verbose {
        println!("case {c:?}\n  reference key bytes ({}): {}\n  reference token: {want_token:?}", want_key.as_ref().map(|k| k.len()).unwrap_or(0), want_key.as_ref().map(|k| vcore::hex(&k[..k.len().min(64)])).unwrap_or_else(|| "refused (component > 65535 bytes)".into()));
    }
    // what the statement says about itself
    {
        use scylla::routing::partitioner::PartitionerName;
        let got_cdc = matches!(ps.get_partitioner_name(), PartitionerName::CDC);
        if deciding && got_cdc != is_cdc {
            r.violation("keys:partitioner-name", &format!("table partitioner string {:?}: statement uses {:?}", c.partitioner, ps.get_partitioner_name()), c.to_json());
        }
        if ps.is_token_aware() != (k > 0) {
            r.violation("keys:is-token-aware", &format!("is_token_aware() = {} with {k} partition-key markers: {c:?}", ps.is_token_aware()), c.to_json());
        }
        let mut want_idx: Vec<(u16, u16)> = c.pk_marker.iter().enumerate().map(|(j, p)| (*p as u16, j as u16)).collect();
        want_idx.sort_unstable();
        let got_idx: Vec<(u16, u16)> = ps.get_variable_pk_indexes().iter().map(|p| (p.index, p.sequence)).collect();
        if got_idx != want_idx {
            r.violation("keys:pk-indexes", &format!("get_variable_pk_indexes() = {got_idx:?} (marker, key position), the response said {want_idx:?}: {c:?}"), c.to_json());
        }
    }
    // the same values bound BY NAME (a map is serialized into marker order by the driver)
    if c.m <= 16 {
        let named: std::collections::BTreeMap<String, MaybeUnset<Option<Vec<u8>>>> = values.iter().enumerate().map(|(i, v)| (format!("c{i}"), v.clone())).collect();
        let got_key = catch(std::panic::AssertUnwindSafe(|| ps.compute_partition_key(&named).map(|b| b.to_vec())));
        let got_tok = catch(std::panic::AssertUnwindSafe(|| ps.calculate_token(&named).map(|o| o.map(|t| t.value()))));
        let key_ok = match (&got_key, &want_key) {
            (Ok(Ok(g)), Some(wk)) => g == wk,
            (Ok(Err(_)), None) => true,
            _ => false,
        };
        let tok_ok = match (&got_tok, want_token) {
            (Ok(Ok(None)), Some(_)) => k == 0,
            (Ok(Ok(Some(g))), Some(wt)) => *g == wt && k > 0,
            (Ok(Err(_)), None) => true,
            _ => false,
        };
        if !key_ok || !tok_ok {
            r.violation("keys:named-values", &format!("values bound by name for {c:?}: partition key {:?} / token {got_tok:?}; reference key {} bytes, token {want_token:?}", got_key.as_ref().map(|r| r.as_ref().map(|b| b.len())), want_key.as_ref().map(|k| k.len()).unwrap_or(0)), c.to_json());
        }
    }
    // Every handle to the statement a user can hold must route identically: the statement as
    // prepared, a clone, a clone of a clone, a clone reconfigured through the setters, and the
    // CachingSession path (unconfigured cached handle -> configured handle).
    let variants: Vec<(&str, PreparedStatement)> = {
        let clone1 = ps.clone();
        let clone2 = clone1.clone();
        let mut tuned = ps.clone();
        tuned.set_page_size(77);
        tuned.set_consistency(scylla::statement::Consistency::One);
        tuned.set_is_idempotent(true);
        tuned.set_tracing(true);
        tuned.set_timestamp(Some(42));
        tuned.set_request_timeout(Some(std::time::Duration::from_secs(3)));
        let tuned_clone = tuned.clone();
        let cached = hook::through_unconfigured_handle(&ps);
        let cached_clone = cached.clone();
        vec![("prepared", ps), ("clone", clone1), ("clone-of-clone", clone2), ("setters", tuned), ("clone-after-setters", tuned_clone), ("cached-handle", cached), ("clone-of-cached-handle", cached_clone)]
    };
    for (variant, ps) in &variants {
        let vkey = |k: &str| if *variant == "prepared" { k.to_string() } else { format!("{k}:{variant}") };
        // 1. compute_partition_key
        let got_key = catch(std::panic::AssertUnwindSafe(|| ps.compute_partition_key(&values)));
        match (&got_key, &want_key) {
            (Err(p), _) => r.violation(&vkey("keys:panic"), &format!("compute_partition_key panicked for {c:?} [handle: {variant}]: {p}"), c.to_json()),
            (Ok(Ok(g)), Some(wk)) if g.as_ref() == wk.as_slice() => {}
            (Ok(Ok(g)), Some(wk)) => r.violation(&vkey("keys:partition-key"), &format!("compute_partition_key for {c:?} [handle: {variant}]: got {} bytes {}.., server-side framing is {} bytes {}..", g.len(), vcore::hex(&g[..g.len().min(24)]), wk.len(), vcore::hex(&wk[..wk.len().min(24)])), c.to_json()),
            (Ok(Ok(_)), None) => r.violation(&vkey("keys:oversize-accepted"), &format!("compute_partition_key accepted a composite key with a component > 65535 bytes: {c:?}"), c.to_json()),
            (Ok(Err(_)), None) => {}
            (Ok(Err(e)), Some(_)) => r.violation(&vkey("keys:partition-key-error"), &format!("compute_partition_key failed for {c:?} [handle: {variant}]: {e}"), c.to_json()),
        }
        // 2. calculate_token
        let got_tok = catch(std::panic::AssertUnwindSafe(|| ps.calculate_token(&values).map(|o| o.map(|t| t.value()))));
        match (&got_tok, want_token) {
            (Err(p), _) => r.violation(&vkey("keys:panic"), &format!("calculate_token panicked for {c:?} [handle: {variant}]: {p}"), c.to_json()),
            (Ok(Ok(None)), Some(_)) if k == 0 => {} // not token aware: nothing to route by
            (Ok(Ok(Some(g))), Some(wt)) if *g == wt && k > 0 => {}
            (Ok(Ok(g)), Some(wt)) => r.violation(&vkey(if is_cdc { "keys:token:cdc" } else { "keys:token" }), &format!("calculate_token for {c:?} [handle: {variant}]: driver {g:?}, server-side partitioner gives {wt}"), c.to_json()),
            (Ok(Ok(g)), None) => r.violation(&vkey("keys:oversize-accepted"), &format!("calculate_token produced {g:?} for a composite key with a component > 65535 bytes: {c:?}"), c.to_json()),
            (Ok(Err(_)), None) => {}
            (Ok(Err(e)), Some(_)) => r.violation(&vkey("keys:token-error"), &format!("calculate_token failed for {c:?} [handle: {variant}]: {e}"), c.to_json()),
        }
    }
    // 3. ClusterState::compute_token with the key values in partition-key order
    if k > 0 {
        let got = catch(std::panic::AssertUnwindSafe(|| cs.compute_token(KS, TABLE, &comps).map(|t| t.value())));
        match (&got, want_token) {
            (Err(p), _) => r.violation("keys:panic", &format!("ClusterState::compute_token panicked for {c:?}: {p}"), c.to_json()),
            (Ok(Ok(g)), Some(wt)) if *g == wt => {}
            (Ok(Ok(g)), Some(wt)) => r.violation("keys:cluster-compute-token", &format!("ClusterState::compute_token for {c:?}: driver {g}, server-side {wt}"), c.to_json()),
            (Ok(Ok(g)), None) => r.violation("keys:oversize-accepted", &format!("ClusterState::compute_token produced {g} for a component > 65535 bytes: {c:?}"), c.to_json()),
            (Ok(Err(_)), None) => {}
            (Ok(Err(e)), Some(_)) => r.violation("keys:cluster-compute-token-error", &format!("ClusterState::compute_token failed for {c:?}: {e}"), c.to_json()),
        }
    }
    // non-trivial: composite key whose bind-marker order differs from the key order, or with interleaved non-key markers
    let sorted = c.pk_marker.windows(2).all(|w| w[0] < w[1]);
    if k >= 2 && (!sorted || c.m > k) {
        r.nontrivial(1);
    }
}

/// Every injective map {0..k} -> {0..m} (key component -> marker position).
fn arrangements(k: usize, m: usize) -> Vec<Vec<usize>> {
    fn rec(k: usize, m: usize, cur: &mut Vec<usize>, out: &mut Vec<Vec<usize>>) {
        if cur.len() == k {
            out.push(cur.clone());
            return;
        }
        for p in 0..m {
            if !cur.contains(&p) {
                cur.push(p);
                rec(k, m, cur, out);
                cur.pop();
            }
        }
    }
    let mut out = Vec::new();
    rec(k, m, &mut Vec::new(), &mut out);
    out
}

fn main() {
    vcore::quiet_panics();
    let r = Report::new("C03", "keys", "exploration", "E-ENUM");
    if let Err(e) = cqlref::murmur3::self_test() {
        vcore::machinery_error(&format!("cqlref::murmur3 fails its pinned vectors: {e}"));
    }
    if let Some(case) = r.replay_case() {
        let Some(c) = Case::from_json(&case) else { vcore::machinery_error("replay: bad case") };
        let w = Worlds::new(c.pk_marker.len().max(1));
        println!("(replay) partitioner string {:?}", c.partitioner);
        check(&r, &w, &c, true);
        r.finish_replay();
    }
    let thorough = r.tier().is_thorough();
    let (kmax, mmax) = r.tier().pick((4usize, 6usize), (6usize, 8usize));
    let w = Worlds::new(10);
    let jobs = r.args.jobs;
    let small = [0usize, 1, 15, 16, 17, 30, 33, 255, 257];
    let mut cases: Vec<Case> = Vec::new();
    // not token aware: no pk indexes
    cases.push(Case { m: 2, pk_marker: vec![], lens: vec![], nonkey: NonKey::Valued, partitioner: None, global_spec: true, explicit: vec![] });
    let mut n_arr = 0u64;
    for k in 1..=kmax {
        for m in k..=mmax {
            for (ai, arr) in arrangements(k, m).into_iter().enumerate() {
                n_arr += 1;
                // length assignments: exhaustive over the small menu for k<=2 (k<=3 thorough), rotating otherwise
                let mut lens_menu: Vec<Vec<usize>> = Vec::new();
                if k == 1 {
                    for &a in &small {
                        lens_menu.push(vec![a]);
                    }
                } else if k == 4 && thorough && m <= 7 {
                    // thorough: every 4-tuple over the lengths around the 16-byte block
                    for t in 0..625usize {
                        lens_menu.push(vec![small[t % 5], small[t / 5 % 5], small[t / 25 % 5], small[t / 125]]);
                    }
                } else if k == 2 || (k == 3 && thorough) {
                    let mut cur = vec![0usize; k];
                    loop {
                        lens_menu.push(cur.iter().map(|i| small[*i]).collect());
                        let mut d = 0;
                        while d < k {
                            cur[d] += 1;
                            if cur[d] < small.len() {
                                break;
                            }
                            cur[d] = 0;
                            d += 1;
                        }
                        if d == k {
                            break;
                        }
                    }
                } else {
                    for rot in 0..small.len() {
                        lens_menu.push((0..k).map(|j| small[(j + rot + ai) % small.len()]).collect());
                    }
                    lens_menu.push(vec![16; k]);
                    lens_menu.push(vec![0; k]);
                }
                let nonkeys: &[NonKey] = if m > k { &[NonKey::Valued, NonKey::Null, NonKey::Unset, NonKey::Long] } else { &[NonKey::Valued] };
                for (li, lens) in lens_menu.iter().enumerate() {
                    for (ni, nk) in nonkeys.iter().enumerate() {
                        // partitioner: default for all; explicit Murmur3 string and per-column table spec on a rotating subset
                        let part = if (li + ni + ai) % 7 == 3 { Some(MURMUR) } else { None };
                        cases.push(Case { m, pk_marker: arr.clone(), lens: lens.clone(), nonkey: *nk, partitioner: part, global_spec: (li + ai) % 5 != 2, explicit: vec![] });
                    }
                }
                // 65535 (largest legal) and 65536 (must be refused in a composite key) in each position
                if m <= k + 1 || thorough {
                    for big_at in 0..k {
                        for big in [65535usize, 65536] {
                            let mut lens: Vec<usize> = (0..k).map(|j| small[(j + ai) % small.len()]).collect();
                            lens[big_at] = big;
                            cases.push(Case { m, pk_marker: arr.clone(), lens, nonkey: NonKey::Valued, partitioner: None, global_spec: true, explicit: vec![] });
                        }
                    }
                }
            }
        }
    }
    // CDC tables: single blob key (a 16-byte stream id and neighbours), every marker position
    for m in 1..=4usize {
        for p in 0..m {
            for len in [0usize, 7, 8, 15, 16, 17] {
                for nk in [NonKey::Valued, NonKey::Null] {
                    cases.push(Case { m, pk_marker: vec![p], lens: vec![len], nonkey: nk, partitioner: Some(CDC), global_spec: true, explicit: vec![] });
                }
            }
        }
    }
    // every spelling of the table's partitioner string, single key at every marker position
    for p in SPELLINGS {
        for m in 1..=3usize {
            for pos in 0..m {
                for len in [0usize, 7, 8, 9, 16, 17] {
                    cases.push(Case { m, pk_marker: vec![pos], lens: vec![len], nonkey: NonKey::Valued, partitioner: p, global_spec: true, explicit: vec![] });
                }
            }
        }
        // and a composite key under the Murmur3-like spellings
        if matches!(p, None | Some(MURMUR)) {
            cases.push(Case { m: 3, pk_marker: vec![2, 0], lens: vec![17, 1], nonkey: NonKey::Null, partitioner: p, global_spec: false, explicit: vec![] });
        }
    }
    // wide keys: 8 components fill the on-stack SmallVec of PartitionKey, 9 and 10 spill; keys among many markers
    for k in [8usize, 9, 10] {
        let arrs: Vec<(usize, Vec<usize>)> = vec![(k, (0..k).collect()), (k, (0..k).rev().collect()), (16, (0..k).map(|j| 15 - j).collect()), (16, (0..k).map(|j| (j * 7) % 16).collect())];
        for (m, arr) in arrs {
            for rot in 0..3 {
                let lens: Vec<usize> = (0..k).map(|j| small[(j + rot) % small.len()]).collect();
                cases.push(Case { m, pk_marker: arr.clone(), lens, nonkey: NonKey::Long, partitioner: None, global_spec: rot != 1, explicit: vec![] });
            }
        }
    }
    for (m, arr) in [(300usize, vec![299usize, 0]), (300, vec![150]), (256, vec![255, 254, 0]), (257, vec![0, 256])] {
        let lens = arr.iter().enumerate().map(|(j, _)| [33usize, 1, 16][j % 3]).collect();
        cases.push(Case { m, pk_marker: arr, lens, nonkey: NonKey::Valued, partitioner: None, global_spec: true, explicit: vec![] });
    }
    // two maximal components side by side, and a maximal one between short ones
    cases.push(Case { m: 2, pk_marker: vec![1, 0], lens: vec![65535, 65535], nonkey: NonKey::Valued, partitioner: None, global_spec: true, explicit: vec![] });
    cases.push(Case { m: 4, pk_marker: vec![3, 1, 0], lens: vec![1, 65535, 0], nonkey: NonKey::Null, partitioner: None, global_spec: true, explicit: vec![] });
    if thorough {
        // the widest statement the protocol allows: 65535 bind markers, key at both ends
        cases.push(Case { m: 65535, pk_marker: vec![65534, 0], lens: vec![17, 30], nonkey: NonKey::Valued, partitioner: None, global_spec: true, explicit: vec![] });
    }
    // constructed preimages: single-column keys (16 bytes) and two-component composite keys (framed
    // stream of 32 bytes) whose RAW Murmur3 hash is exactly i64::MIN (-> token i64::MAX) / boundary values
    let mut raw_min_cases = 0u64;
    for target in [i64::MIN, i64::MIN + 1, i64::MAX, -1, 0] {
        for i in 0..r.tier().pick(8u64, 64u64) {
            let single = cqlref::murmur3::invert_block16(target, (i + 3).wrapping_mul(0x9e37_79b9_7f4a_7c15)).to_vec();
            let (a, b) = cqlref::murmur3::composite_preimage(target, i);
            for part in [None, Some(MURMUR)] {
                for m in 1..=3usize {
                    for p in 0..m {
                        cases.push(Case { m, pk_marker: vec![p], lens: vec![16], nonkey: NonKey::Valued, partitioner: part, global_spec: true, explicit: vec![single.clone()] });
                    }
                }
                for arr in [vec![0usize, 1], vec![1, 0], vec![2, 0], vec![1, 3]] {
                    let m = arr.iter().max().unwrap() + 1;
                    cases.push(Case { m, pk_marker: arr, lens: vec![11, 15], nonkey: NonKey::Null, partitioner: part, global_spec: true, explicit: vec![a.clone(), b.clone()] });
                }
                if target == i64::MIN {
                    raw_min_cases += 10;
                }
            }
        }
    }
    r.counters.add("cases_with_raw_hash_exactly_i64_min", raw_min_cases);
    // thorough: a seeded sample of wide statements (k<=8 among m<=16), labelled sampled
    let mut sampled = 0u64;
    if thorough {
        let mut rng = vcore::Rng::new(r.args.seed ^ 0xc03);
        for _ in 0..20_000 {
            let m = 1 + rng.below(16) as usize;
            let k = 1 + rng.below(m.min(8) as u64) as usize;
            let mut pos: Vec<usize> = (0..m).collect();
            for i in 0..k {
                let j = i + rng.below((m - i) as u64) as usize;
                pos.swap(i, j);
            }
            let lens = (0..k).map(|_| [0usize, 1, 2, 15, 16, 17, 31, 32, 33, 70, 255, 256][rng.below(12) as usize]).collect();
            cases.push(Case { m, pk_marker: pos[..k].to_vec(), lens, nonkey: [NonKey::Valued, NonKey::Null, NonKey::Unset, NonKey::Long][rng.below(4) as usize], partitioner: None, global_spec: rng.below(2) == 0, explicit: vec![] });
            sampled += 1;
        }
    }
    r.counters.add("statement_handles_per_case", 7);
    r.counters.add("arrangements", n_arr);
    r.counters.add("cases", cases.len() as u64);
    r.counters.add("sampled_wide_statements", sampled);
    let distinct_orders: BTreeSet<Vec<usize>> = cases.iter().map(|c| c.pk_marker.clone()).collect();
    r.counters.add("distinct_pk_marker_maps", distinct_orders.len() as u64);
    let r_ref = &r;
    let w_ref = &w;
    vcore::par::for_each(jobs, 8, cases.into_iter(), |c| check(r_ref, w_ref, &c, false));
    r.set_rule(&format!("E-ENUM. Real PreparedStatements from RESULT/Prepared body bytes (production parser + constructor; partitioner from the table's partitioner string in a real ClusterState). k=1..{kmax} key components among m=k..{mmax} bind markers in EVERY injective arrangement (positions x order); component lengths: all tuples over {{0,1,15,16,17}} for k<=2{} and rotating assignments otherwise, plus 65535 / 65536 in every position; non-key markers valued / NULL / unset / long; global and per-column table specs; CDC tables with a single key at every marker position; 8 spellings of the table partitioner string (deciding: absent and the two class names servers send; bare / unknown / empty names only have to be consistent with the partitioner the statement reports) with get_partitioner_name / is_token_aware / get_variable_pk_indexes checked; the same values bound BY NAME (BTreeMap); 8/9/10-component keys (SmallVec spill) and keys among 256/257/300 (thorough 65535) markers; component lengths now also 30, 33, 255, 257 and two 65535-byte components side by side; constructed preimages (cqlref::murmur3::invert_block16 / composite_preimage): single-column 16-byte keys and two-component composite keys whose framed stream has RAW Murmur3 hash exactly i64::MIN (token must be i64::MAX), MIN+1, MAX, -1, 0. Every partition-key/token computation runs on 7 handles of each statement: as prepared, clone, clone of clone, clone reconfigured through setters (page size, consistency, idempotence, tracing, timestamp, timeout), its clone, the CachingSession path (unconfigured cached handle -> configured handle) and its clone. Oracles: compute_partition_key == len16|bytes|0 framing in KEY order (single column: raw bytes); calculate_token and ClusterState::compute_token == reference Murmur3/CDC token; 65536-byte component of a composite key refused. distinct_nontrivial = cases with a composite key whose marker order differs from key order or with interleaved non-key markers.", if thorough { " (k<=3 thorough; k=4 thorough: all 625 tuples over {0,1,15,16,17} for m<=7)" } else { "" }));
    r.set_exhaustive(true);
    r.sample(json!({"markers":5,"pk_marker":[4,0,3],"meaning":"key component 0 bound by marker 4, component 1 by marker 0, component 2 by marker 3 (the repo's single shuffled unit test)"}));
    r.assume("PreparedStatement is obtained through hook H-PREPARED from response body bytes instead of Session::prepare against a mock node; the partitioner choice mirrors Session::extract_partitioner_name (6 lines) instead of calling it");
    r.assume("all columns are blobs so that component byte strings are arbitrary; composite keys with the CDC partitioner and NULL key components are outside the property (the server rejects them)");
    if thorough {
        r.assume("statements with k<=8 among m<=16 markers are a seeded sample (sampled), not exhaustive");
    }
    r.finish();
}
