//! cqlref::murmur3 - independent reference for C03 (see DESIGN.md 1.3).
//!
//! Written from Cassandra's `MurmurHash.hash3_x64_128` / `Murmur3Partitioner.getToken` and
//! ScyllaDB's `cdc_partitioner`, one-shot over a contiguous buffer, unsigned 64-bit arithmetic
//! with the sign extension of the tail bytes spelled out (Cassandra reads tail bytes as Java
//! `byte`, i.e. signed, and widens them to `long` before shifting; the 16-byte blocks are
//! assembled from bytes masked with 0xff, i.e. unsigned). Shares no code and no arithmetic
//! style (no `Wrapping<i64>`, no streaming state) with the driver.

const C1: u64 = 0x87c3_7b91_1142_53d5;
const C2: u64 = 0x4cf5_ad43_2745_937f;

fn fmix(mut k: u64) -> u64 {
    k ^= k >> 33;
    k = k.wrapping_mul(0xff51_afd7_ed55_8ccd);
    k ^= k >> 33;
    k = k.wrapping_mul(0xc4ce_b9fe_1a85_ec53);
    k ^= k >> 33;
    k
}

/// 8 little-endian bytes, each taken unsigned (Cassandra `getblock`).
fn block(b: &[u8]) -> u64 {
    let mut v = 0u64;
    for (i, x) in b.iter().enumerate().take(8) {
        v |= (*x as u64) << (8 * i);
    }
    v
}

/// Java `(long) byteValue`: sign-extending widening of a tail byte.
fn widen_signed(b: u8) -> u64 {
    if b >= 0x80 { 0xffff_ffff_ffff_ff00 | b as u64 } else { b as u64 }
}

/// Cassandra's MurmurHash3 x64-128 with seed 0; returns (h1, h2).
pub fn hash3_x64_128(data: &[u8]) -> (u64, u64) {
    let len = data.len();
    let nblocks = len / 16;
    let mut h1 = 0u64;
    let mut h2 = 0u64;
    for i in 0..nblocks {
        let mut k1 = block(&data[16 * i..16 * i + 8]);
        let mut k2 = block(&data[16 * i + 8..16 * i + 16]);
        k1 = k1.wrapping_mul(C1).rotate_left(31).wrapping_mul(C2);
        h1 ^= k1;
        h1 = h1.rotate_left(27).wrapping_add(h2).wrapping_mul(5).wrapping_add(0x52dc_e729);
        k2 = k2.wrapping_mul(C2).rotate_left(33).wrapping_mul(C1);
        h2 ^= k2;
        h2 = h2.rotate_left(31).wrapping_add(h1).wrapping_mul(5).wrapping_add(0x3849_5ab5);
    }
    let tail = &data[16 * nblocks..];
    let mut k1 = 0u64;
    let mut k2 = 0u64;
    // the Java switch falls through from the highest tail index down; XOR is order independent,
    // the shift of a sign-extended value is what matters
    for (j, b) in tail.iter().enumerate() {
        let w = widen_signed(*b);
        if j >= 8 {
            k2 ^= w << (8 * (j - 8));
        } else {
            k1 ^= w << (8 * j);
        }
    }
    if tail.len() > 8 {
        k2 = k2.wrapping_mul(C2).rotate_left(33).wrapping_mul(C1);
        h2 ^= k2;
    }
    if !tail.is_empty() {
        k1 = k1.wrapping_mul(C1).rotate_left(31).wrapping_mul(C2);
        h1 ^= k1;
    }
    h1 ^= len as u64;
    h2 ^= len as u64;
    h1 = h1.wrapping_add(h2);
    h2 = h2.wrapping_add(h1);
    h1 = fmix(h1);
    h2 = fmix(h2);
    h1 = h1.wrapping_add(h2);
    h2 = h2.wrapping_add(h1);
    (h1, h2)
}

/// (h1, h2) after the full 16-byte blocks of `data` (seed 0); `data.len()` must be a multiple of 16.
fn state_after_blocks(data: &[u8]) -> (u64, u64) {
    assert!(data.len() % 16 == 0);
    let (mut h1, mut h2) = (0u64, 0u64);
    for blk in data.chunks(16) {
        let k1 = block(&blk[..8]).wrapping_mul(C1).rotate_left(31).wrapping_mul(C2);
        let k2 = block(&blk[8..]).wrapping_mul(C2).rotate_left(33).wrapping_mul(C1);
        h1 ^= k1;
        h1 = h1.rotate_left(27).wrapping_add(h2).wrapping_mul(5).wrapping_add(0x52dc_e729);
        h2 ^= k2;
        h2 = h2.rotate_left(31).wrapping_add(h1).wrapping_mul(5).wrapping_add(0x3849_5ab5);
    }
    (h1, h2)
}

/// Inverse of an odd number modulo 2^64 (Newton iteration; a*a = 1 mod 8 gives 3 correct bits to start).
fn inv_odd(a: u64) -> u64 {
    let mut x = a;
    for _ in 0..6 {
        x = x.wrapping_mul(2u64.wrapping_sub(a.wrapping_mul(x)));
    }
    x
}

/// Inverse of `fmix`: `k ^= k >> 33` is its own inverse (shift >= 32), the multipliers are odd.
fn fmix_inv(mut k: u64) -> u64 {
    k ^= k >> 33;
    k = k.wrapping_mul(inv_odd(0xc4ce_b9fe_1a85_ec53));
    k ^= k >> 33;
    k = k.wrapping_mul(inv_odd(0xff51_afd7_ed55_8ccd));
    k ^= k >> 33;
    k
}

/// The 16-byte block B such that `hash3_x64_128(prefix ++ B).0 == target_h1`, for any `prefix` whose
/// length is a multiple of 16. `free_h2` is the value of h2 after its `fmix` (any value: it selects one
/// of the 2^64 preimage blocks). Works because every step of the algorithm on full blocks is a
/// bijection: the final `h1 += h2; h2 += h1`, `fmix`, the xor with the length, and the block step
/// (xor, rotate, add, multiply by 5 / by the odd constants). The signed-byte quirk concerns tail bytes only.
pub fn invert_last_block(prefix: &[u8], target_h1: i64, free_h2: u64) -> [u8; 16] {
    let len = (prefix.len() + 16) as u64;
    // undo: h1 += h2 (h2 += h1 does not influence the returned h1)
    let f1 = (target_h1 as u64).wrapping_sub(free_h2);
    let a = fmix_inv(f1); // h1 before fmix
    let b = fmix_inv(free_h2); // h2 before fmix
    // undo: h1 += h2; h2 += h1
    let y = b.wrapping_sub(a);
    let x = a.wrapping_sub(y);
    let (s1, s2) = (x ^ len, y ^ len); // state after the last block
    let (p1, p2) = state_after_blocks(prefix); // state before it
    let inv5 = inv_odd(5);
    let u = s1.wrapping_sub(0x52dc_e729).wrapping_mul(inv5).wrapping_sub(p2).rotate_right(27) ^ p1;
    let k1 = u.wrapping_mul(inv_odd(C2)).rotate_right(31).wrapping_mul(inv_odd(C1));
    let v = s2.wrapping_sub(0x3849_5ab5).wrapping_mul(inv5).wrapping_sub(s1).rotate_right(31) ^ p2;
    let k2 = v.wrapping_mul(inv_odd(C1)).rotate_right(33).wrapping_mul(inv_odd(C2));
    let mut out = [0u8; 16];
    out[..8].copy_from_slice(&k1.to_le_bytes());
    out[8..].copy_from_slice(&k2.to_le_bytes());
    out
}

/// A single-block (16-byte) key whose raw Murmur3 h1 is exactly `target_h1`.
pub fn invert_block16(target_h1: i64, free_h2: u64) -> [u8; 16] {
    invert_last_block(&[], target_h1, free_h2)
}

/// A two-component composite key whose framed stream (len16|a|0|len16|b|0 = 32 bytes) hashes to
/// exactly `target_h1`: a = 11 chosen bytes, so the first block is `00 0b a 00 00 0f`, and the second
/// block is `b (15 bytes) 00`; the free parameter is searched until the inverted block ends in 0x00.
pub fn composite_preimage(target_h1: i64, salt: u64) -> (Vec<u8>, Vec<u8>) {
    let a: Vec<u8> = (0..11).map(|i| (0x90 + 13 * i as u64 + salt) as u8).collect();
    let mut first = vec![0x00, 0x0b];
    first.extend_from_slice(&a);
    first.extend_from_slice(&[0x00, 0x00, 0x0f]);
    let mut free = salt.wrapping_mul(0x9e37_79b9_7f4a_7c15);
    loop {
        let blk = invert_last_block(&first, target_h1, free);
        if blk[15] == 0 {
            return (a, blk[..15].to_vec());
        }
        free = free.wrapping_add(0x2545_f491_4f6c_dd1d);
    }
}

/// Standard (canonical, unsigned-tail) MurmurHash3 x64-128, seed 0. Only used to show in the
/// evidence on which inputs the Cassandra variant differs from the textbook algorithm.
pub fn hash3_x64_128_canonical_h1(data: &[u8]) -> u64 {
    let len = data.len();
    let nblocks = len / 16;
    let (mut h1, mut h2) = (0u64, 0u64);
    for i in 0..nblocks {
        let k1 = block(&data[16 * i..16 * i + 8]).wrapping_mul(C1).rotate_left(31).wrapping_mul(C2);
        let k2 = block(&data[16 * i + 8..16 * i + 16]).wrapping_mul(C2).rotate_left(33).wrapping_mul(C1);
        h1 ^= k1;
        h1 = h1.rotate_left(27).wrapping_add(h2).wrapping_mul(5).wrapping_add(0x52dc_e729);
        h2 ^= k2;
        h2 = h2.rotate_left(31).wrapping_add(h1).wrapping_mul(5).wrapping_add(0x3849_5ab5);
    }
    let tail = &data[16 * nblocks..];
    let (mut k1, mut k2) = (0u64, 0u64);
    for (j, b) in tail.iter().enumerate() {
        if j >= 8 {
            k2 |= (*b as u64) << (8 * (j - 8));
        } else {
            k1 |= (*b as u64) << (8 * j);
        }
    }
    h2 ^= k2.wrapping_mul(C2).rotate_left(33).wrapping_mul(C1);
    h1 ^= k1.wrapping_mul(C1).rotate_left(31).wrapping_mul(C2);
    h1 ^= len as u64;
    h2 ^= len as u64;
    h1 = h1.wrapping_add(h2);
    h2 = h2.wrapping_add(h1);
    h1 = fmix(h1);
    h2 = fmix(h2);
    h1.wrapping_add(h2)
}

/// `Long.MIN_VALUE` is not a valid ring token; Cassandra/ScyllaDB map it to `Long.MAX_VALUE`.
pub fn normalize(t: i64) -> i64 {
    if t == i64::MIN { i64::MAX } else { t }
}

/// Token of the Murmur3 partitioner for an already framed partition key.
pub fn murmur3_token(key: &[u8]) -> i64 {
    normalize(hash3_x64_128(key).0 as i64)
}

/// The partition key bytes the server hashes: a single key column's bytes as they are; for a
/// composite key every component as big-endian u16 length, bytes, one zero byte, in key order.
/// `None` when a component of a composite key does not fit the 16-bit length (must be refused).
pub fn partition_key_bytes(components: &[&[u8]]) -> Option<Vec<u8>> {
    match components {
        [] => Some(Vec::new()),
        [one] => Some(one.to_vec()),
        many => {
            let mut out = Vec::new();
            for c in many {
                if c.len() > 0xffff {
                    return None;
                }
                out.push((c.len() >> 8) as u8);
                out.push((c.len() & 0xff) as u8);
                out.extend_from_slice(c);
                out.push(0);
            }
            Some(out)
        }
    }
}

/// ScyllaDB `cdc_partitioner`: the first 8 bytes of the key (a 16-byte stream id) read as a
/// big-endian int64 and normalised like any token; a key that is too short gets the minimum
/// token, whose long value is `i64::MIN` (returned raw, it is not a ring token).
pub fn cdc_token(key: &[u8]) -> i64 {
    if key.len() < 8 {
        return i64::MIN;
    }
    let mut v = 0u64;
    for b in &key[..8] {
        v = (v << 8) | *b as u64;
    }
    normalize(v as i64)
}

/// Known-answer self-test. Vectors: the four strings pinned by the repo's
/// `routing/partitioner.rs` unit tests (Murmur3 and CDC), plus the textbook MurmurHash3 x64-128
/// known answers (empty input; "hello" -> cbd8a7b341bd9b02...; pure-ASCII inputs coincide with
/// the canonical algorithm, which validates the block loop and finaliser independently of the
/// repository). Returns Err(description) when the reference is wrong (exit 2 in the callers).
pub fn self_test() -> Result<(), String> {
    let pinned: [(&str, i64); 4] = [("test", -6017608668500074083), ("xd", 4507812186440344727), ("primary_key", -1632642444691073360), ("kremówki", 4354931215268080151)];
    for (s, want) in pinned {
        let got = murmur3_token(s.as_bytes());
        if got != want {
            return Err(format!("murmur3_token({s:?}) = {got}, pinned {want}"));
        }
    }
    let cdc: [(&str, i64); 4] = [("test", i64::MIN), ("xd", i64::MIN), ("primary_key", 8102654598100187487), ("kremówki", 7742362231512463211)];
    for (s, want) in cdc {
        let got = cdc_token(s.as_bytes());
        if got != want {
            return Err(format!("cdc_token({s:?}) = {got}, pinned {want}"));
        }
    }
    if hash3_x64_128(b"") != (0, 0) {
        return Err("hash3_x64_128(\"\") != (0,0)".into());
    }
    // textbook MurmurHash3_x64_128("hello", seed 0) = cbd8a7b341bd9b025b1e906a48ae1d19
    if hash3_x64_128(b"hello") != (0xcbd8_a7b3_41bd_9b02, 0x5b1e_906a_48ae_1d19) {
        return Err(format!("hash3_x64_128(\"hello\") = {:x?}", hash3_x64_128(b"hello")));
    }
    // ASCII input of 37 bytes (2 blocks + 5 tail): variant == canonical
    let ascii = b"The quick brown fox jumps over the la";
    if hash3_x64_128(ascii).0 != hash3_x64_128_canonical_h1(ascii) {
        return Err("variant differs from canonical on ASCII".into());
    }
    // a tail byte >= 0x80 must make the variant differ from the canonical algorithm
    if hash3_x64_128(&[0x80]).0 == hash3_x64_128_canonical_h1(&[0x80]) {
        return Err("signed-tail quirk has no effect on [0x80]".into());
    }
    // a byte >= 0x80 inside a full block must NOT (blocks are read unsigned)
    let mut blk = [0x41u8; 16];
    blk[3] = 0xfe;
    if hash3_x64_128(&blk).0 != hash3_x64_128_canonical_h1(&blk) {
        return Err("block bytes treated as signed".into());
    }
    // constructed preimages: the reference hash of the inverted block is exactly the target
    for (i, target) in [i64::MIN, i64::MIN + 1, i64::MAX, -1, 0, 0x0123_4567_89ab_cdef].into_iter().enumerate() {
        for free in [0u64, 1, u64::MAX, 0xdead_beef_0bad_f00d, i as u64 * 0x9e37_79b9] {
            let b = invert_block16(target, free);
            if hash3_x64_128(&b).0 as i64 != target {
                return Err(format!("invert_block16({target}, {free}) does not hash back"));
            }
            let prefix = [0x80u8 + i as u8; 32];
            let b2 = invert_last_block(&prefix, target, free);
            let mut whole = prefix.to_vec();
            whole.extend_from_slice(&b2);
            if hash3_x64_128(&whole).0 as i64 != target {
                return Err(format!("invert_last_block(32-byte prefix, {target}, {free}) does not hash back"));
            }
        }
        let (a, b) = composite_preimage(target, i as u64);
        let framed = partition_key_bytes(&[&a, &b]).unwrap();
        if framed.len() != 32 || hash3_x64_128(&framed).0 as i64 != target {
            return Err(format!("composite_preimage({target}) does not hash back"));
        }
    }
    if murmur3_token(&invert_block16(i64::MIN, 7)) != i64::MAX {
        return Err("MIN preimage is not normalised to MAX".into());
    }
    if partition_key_bytes(&[b"ab", b""]) != Some(vec![0, 2, b'a', b'b', 0, 0, 0, 0]) {
        return Err("composite framing".into());
    }
    Ok(())
}

#[cfg(test)]
mod tests {
    #[test]
    fn known_answers() {
        super::self_test().unwrap();
    }
}
