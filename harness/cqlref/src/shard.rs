//! ScyllaDB's token -> shard function and the shard-aware port set, written from the
//! ScyllaDB documentation (`dht::shard_of` "biased multiply-high"), with u128 arithmetic
//! in a deliberately different formulation from the driver's (no 64-bit shift that can
//! overflow: the shift is done in 128 bits and masked).

/// shard = floor( ((token + 2^63) * 2^msb mod 2^64) * shards / 2^64 )
pub fn shard_of(token: i64, nr_shards: u16, msb_ignore: u8) -> u32 {
    assert!(nr_shards > 0 && msb_ignore < 64);
    // bias: map i64::MIN..=i64::MAX onto 0..=u64::MAX preserving order
    let biased: u128 = (token as i128 + (1i128 << 63)) as u128;
    let shifted: u128 = (biased << msb_ignore) & ((1u128 << 64) - 1);
    ((shifted * nr_shards as u128) / (1u128 << 64)) as u32
}

/// All ports p in [lo, hi] with p % nr_shards == shard, ascending.
pub fn ports_for_shard(lo: u16, hi: u16, nr_shards: u16, shard: u16) -> Vec<u16> {
    let mut v = Vec::new();
    let mut p = lo as u32;
    while p <= hi as u32 {
        if p % nr_shards as u32 == shard as u32 {
            v.push(p as u16);
        }
        p += 1;
    }
    v
}

/// First token (ascending, signed order) that belongs to `shard` when msb_ignore == 0, by
/// binary search on the monotone reference function; None if the shard owns no token.
pub fn first_token_of_shard(nr_shards: u16, shard: u32) -> Option<i64> {
    let (mut lo, mut hi) = (i64::MIN as i128, i64::MAX as i128);
    if shard_of(i64::MAX, nr_shards, 0) < shard {
        return None;
    }
    while lo < hi {
        let mid = (lo + hi).div_euclid(2);
        if shard_of(mid as i64, nr_shards, 0) >= shard {
            hi = mid;
        } else {
            lo = mid + 1;
        }
    }
    (shard_of(lo as i64, nr_shards, 0) == shard).then_some(lo as i64)
}

#[cfg(test)]
mod tests {
    use super::*;
    #[test]
    fn pinned() {
        // vectors from scylla/src/routing/sharding.rs::test_shard_of
        assert_eq!(shard_of(-9219783007514621794, 4, 12), 3);
        assert_eq!(shard_of(9222582454147032830, 4, 12), 3);
    }
}
