//! cqlref::ksname - independent reference for keyspace identifiers (C20; DESIGN.md 1.3).
//! Grammar as the property states it: 1..=48 characters, each of [A-Za-z0-9_]. Written over bytes with explicit
//! ranges; shares nothing with the driver's validator.

/// Is `name` a keyspace identifier the driver may interpolate into `USE`?
pub fn is_valid(name: &str) -> bool {
    let b = name.as_bytes();
    if b.is_empty() || b.len() > 48 {
        return false;
    }
    for &c in b {
        let ok = (0x30..=0x39).contains(&c) || (0x41..=0x5A).contains(&c) || (0x61..=0x7A).contains(&c) || c == 0x5F;
        if !ok {
            return false;
        }
    }
    true
}

/// The one statement text a valid name may appear in.
pub fn use_statement(name: &str, case_sensitive: bool) -> String {
    let mut s = String::from("USE ");
    if case_sensitive {
        s.push('"');
        s.push_str(name);
        s.push('"');
    } else {
        s.push_str(name);
    }
    s
}

/// The keyspace a server resolves the statement to: unquoted identifiers fold to lower case.
pub fn server_resolves_to(name: &str, case_sensitive: bool) -> String {
    if case_sensitive { name.to_string() } else { name.to_ascii_lowercase() }
}

/// Known answers (run at the start of every check that uses this module; a failing reference is exit 2).
pub fn self_test() -> Result<(), String> {
    let yes = ["a", "_", "_a", "0", "Z9_", "abcdefghijklmnopqrstuvwxyzABCDEFGHIJKLMNOPQRSTUV"]; // last: 48 chars
    let no = ["", " ", "a b", "a;", "a\"", "a'", "a-b", "a.b", "a\0", "é", "😀", "abcdefghijklmnopqrstuvwxyzABCDEFGHIJKLMNOPQRSTUVW"]; // last: 49
    for y in yes {
        if !is_valid(y) {
            return Err(format!("ksname reference rejects {y:?}"));
        }
    }
    for n in no {
        if is_valid(n) {
            return Err(format!("ksname reference accepts {n:?}"));
        }
    }
    if yes[5].len() != 48 || no[11].len() != 49 {
        return Err("ksname self-test vectors have the wrong length".into());
    }
    if use_statement("Ks", true) != "USE \"Ks\"" || use_statement("Ks", false) != "USE Ks" || server_resolves_to("Ks", false) != "ks" {
        return Err("ksname statement rendering".into());
    }
    Ok(())
}
