//! cqlref::proto - independent reference (see DESIGN.md 1.3). Owned by the builder of the property that needs it.
