//! cqlref::proto - independent CQL binary protocol v4 frame codec (DESIGN.md 1.3), written from
//! `native_protocol_v4.spec` plus the ScyllaDB extensions the driver negotiates
//! (SCYLLA_USE_METADATA_ID, SCYLLA_RATE_LIMIT_ERROR, CLIENT_ROUTES_CHANGE event). Shares no code with
//! the driver. Three parts:
//!   1. primitives (`Rd` reader, `W` writer that records where every length / count / flag / id
//!      field was written - C08's field-aware mutations are driven by that list),
//!   2. LZ4 block and Snappy raw codecs written from the format descriptions,
//!   3. request parser (all 8 request kinds; C09's "independent protocol parser") and, in
//!      `resp`, the response encoder (C08's corpus generator, the mock's serializer).
//! Deliberately boring: vectors, linear scans, String errors.

pub mod resp;

// ------------------------------------------------------------------------------------------------
// 1. primitives
// ------------------------------------------------------------------------------------------------

pub type PResult<T> = Result<T, String>;

/// Bounds-checked big-endian reader over a byte slice.
pub struct Rd<'a> {
    pub buf: &'a [u8],
    pub pos: usize,
}

impl<'a> Rd<'a> {
    pub fn new(buf: &'a [u8]) -> Rd<'a> {
        Rd { buf, pos: 0 }
    }
    pub fn remaining(&self) -> usize {
        self.buf.len() - self.pos
    }
    pub fn take(&mut self, n: usize, what: &str) -> PResult<&'a [u8]> {
        if self.remaining() < n {
            return Err(format!("{what}: need {n} bytes at offset {}, only {} left", self.pos, self.remaining()));
        }
        let s = &self.buf[self.pos..self.pos + n];
        self.pos += n;
        Ok(s)
    }
    pub fn u8(&mut self, what: &str) -> PResult<u8> {
        Ok(self.take(1, what)?[0])
    }
    pub fn u16(&mut self, what: &str) -> PResult<u16> {
        let b = self.take(2, what)?;
        Ok(u16::from_be_bytes([b[0], b[1]]))
    }
    pub fn i32(&mut self, what: &str) -> PResult<i32> {
        let b = self.take(4, what)?;
        Ok(i32::from_be_bytes([b[0], b[1], b[2], b[3]]))
    }
    pub fn i64(&mut self, what: &str) -> PResult<i64> {
        let b = self.take(8, what)?;
        let mut a = [0u8; 8];
        a.copy_from_slice(b);
        Ok(i64::from_be_bytes(a))
    }
    /// [string]: u16 length + UTF-8
    pub fn string(&mut self, what: &str) -> PResult<String> {
        let n = self.u16(what)? as usize;
        let b = self.take(n, what)?;
        String::from_utf8(b.to_vec()).map_err(|_| format!("{what}: not UTF-8"))
    }
    /// [long string]: i32 length (>= 0) + UTF-8
    pub fn long_string(&mut self, what: &str) -> PResult<String> {
        let n = self.i32(what)?;
        if n < 0 {
            return Err(format!("{what}: negative [long string] length {n}"));
        }
        let b = self.take(n as usize, what)?;
        String::from_utf8(b.to_vec()).map_err(|_| format!("{what}: not UTF-8"))
    }
    /// [bytes]: i32 length, negative = null
    pub fn bytes_opt(&mut self, what: &str) -> PResult<Option<Vec<u8>>> {
        let n = self.i32(what)?;
        if n < 0 {
            return Ok(None);
        }
        Ok(Some(self.take(n as usize, what)?.to_vec()))
    }
    /// [short bytes]
    pub fn short_bytes(&mut self, what: &str) -> PResult<Vec<u8>> {
        let n = self.u16(what)? as usize;
        Ok(self.take(n, what)?.to_vec())
    }
    pub fn string_list(&mut self, what: &str) -> PResult<Vec<String>> {
        let n = self.u16(what)?;
        let mut v = Vec::new();
        for _ in 0..n {
            v.push(self.string(what)?);
        }
        Ok(v)
    }
    /// [string map] in wire order (duplicates kept)
    pub fn string_map(&mut self, what: &str) -> PResult<Vec<(String, String)>> {
        let n = self.u16(what)?;
        let mut v = Vec::new();
        for _ in 0..n {
            let k = self.string(what)?;
            let val = self.string(what)?;
            v.push((k, val));
        }
        Ok(v)
    }
    /// [value]: i32 length; -1 null; -2 not set
    pub fn value(&mut self, what: &str) -> PResult<Val> {
        let n = self.i32(what)?;
        match n {
            -1 => Ok(Val::Null),
            -2 => Ok(Val::Unset),
            n if n < 0 => Err(format!("{what}: invalid [value] length {n}")),
            n => Ok(Val::Bytes(self.take(n as usize, what)?.to_vec())),
        }
    }
}

#[derive(Debug, Clone, Copy, PartialEq, Eq, PartialOrd, Ord, Hash)]
pub enum FieldKind {
    /// byte length of what follows (string, bytes, frame body)
    Len,
    /// element count of what follows
    Count,
    /// bit flags
    Flags,
    /// discriminator: result kind, type id, error code, opcode, version, consistency ...
    Id,
}

/// A length/count/flag/id field written by the encoder: C08 mutates exactly these.
#[derive(Debug, Clone, PartialEq, Eq)]
pub struct Field {
    pub off: usize,
    pub width: u8,
    pub kind: FieldKind,
    /// stable name of the protocol field (decode-site vocabulary of the violation keys)
    pub site: &'static str,
}

/// Big-endian writer that records field positions.
#[derive(Default, Clone)]
pub struct W {
    pub buf: Vec<u8>,
    pub fields: Vec<Field>,
}

impl W {
    pub fn new() -> W {
        W::default()
    }
    fn mark(&mut self, width: u8, kind: FieldKind, site: &'static str) {
        self.fields.push(Field { off: self.buf.len(), width, kind, site });
    }
    pub fn raw(&mut self, b: &[u8]) {
        self.buf.extend_from_slice(b);
    }
    pub fn u8(&mut self, v: u8) {
        self.buf.push(v);
    }
    pub fn u16(&mut self, v: u16) {
        self.buf.extend_from_slice(&v.to_be_bytes());
    }
    pub fn i32(&mut self, v: i32) {
        self.buf.extend_from_slice(&v.to_be_bytes());
    }
    pub fn i64(&mut self, v: i64) {
        self.buf.extend_from_slice(&v.to_be_bytes());
    }
    pub fn u8f(&mut self, site: &'static str, kind: FieldKind, v: u8) {
        self.mark(1, kind, site);
        self.u8(v);
    }
    pub fn u16f(&mut self, site: &'static str, kind: FieldKind, v: u16) {
        self.mark(2, kind, site);
        self.u16(v);
    }
    pub fn i32f(&mut self, site: &'static str, kind: FieldKind, v: i32) {
        self.mark(4, kind, site);
        self.i32(v);
    }
    pub fn string(&mut self, site: &'static str, s: &str) {
        self.u16f(site, FieldKind::Len, s.len() as u16);
        self.raw(s.as_bytes());
    }
    /// a [string] whose content is raw bytes (used to produce invalid UTF-8 on purpose)
    pub fn string_raw(&mut self, site: &'static str, s: &[u8]) {
        self.u16f(site, FieldKind::Len, s.len() as u16);
        self.raw(s);
    }
    pub fn long_string(&mut self, site: &'static str, s: &str) {
        self.i32f(site, FieldKind::Len, s.len() as i32);
        self.raw(s.as_bytes());
    }
    pub fn bytes_opt(&mut self, site: &'static str, b: Option<&[u8]>) {
        match b {
            None => self.i32f(site, FieldKind::Len, -1),
            Some(b) => {
                self.i32f(site, FieldKind::Len, b.len() as i32);
                self.raw(b);
            }
        }
    }
    pub fn short_bytes(&mut self, site: &'static str, b: &[u8]) {
        self.u16f(site, FieldKind::Len, b.len() as u16);
        self.raw(b);
    }
    pub fn string_list(&mut self, count_site: &'static str, elem_site: &'static str, l: &[String]) {
        self.u16f(count_site, FieldKind::Count, l.len() as u16);
        for s in l {
            self.string(elem_site, s);
        }
    }
}

// ------------------------------------------------------------------------------------------------
// 2. compression (LZ4 block format; Snappy raw format)
// ------------------------------------------------------------------------------------------------

#[derive(Debug, Clone, Copy, PartialEq, Eq, PartialOrd, Ord, Hash)]
pub enum Comp {
    None,
    Lz4,
    Snappy,
}

/// LZ4 block decoder (lz4 Block Format description): a block is a series of sequences
/// `token | [literal length bytes] | literals | offset(2, LE) | [match length bytes]`;
/// the last sequence ends after its literals.
pub fn lz4_block_decompress(src: &[u8], expected_len: usize) -> PResult<Vec<u8>> {
    let mut out: Vec<u8> = Vec::with_capacity(expected_len.min(1 << 24));
    let mut i = 0usize;
    if src.is_empty() {
        return if expected_len == 0 { Ok(out) } else { Err("lz4: empty block".into()) };
    }
    loop {
        let token = *src.get(i).ok_or("lz4: missing token")?;
        i += 1;
        let mut lit = (token >> 4) as usize;
        if lit == 15 {
            loop {
                let b = *src.get(i).ok_or("lz4: truncated literal length")?;
                i += 1;
                lit += b as usize;
                if b != 255 {
                    break;
                }
            }
        }
        if i + lit > src.len() {
            return Err("lz4: literals run past the end".into());
        }
        out.extend_from_slice(&src[i..i + lit]);
        i += lit;
        if i == src.len() {
            break; // last sequence: literals only
        }
        if i + 2 > src.len() {
            return Err("lz4: truncated offset".into());
        }
        let off = src[i] as usize | ((src[i + 1] as usize) << 8);
        i += 2;
        if off == 0 || off > out.len() {
            return Err(format!("lz4: invalid offset {off} with {} bytes produced", out.len()));
        }
        let mut mlen = (token & 0x0f) as usize;
        if mlen == 15 {
            loop {
                let b = *src.get(i).ok_or("lz4: truncated match length")?;
                i += 1;
                mlen += b as usize;
                if b != 255 {
                    break;
                }
            }
        }
        mlen += 4;
        let start = out.len() - off;
        for k in 0..mlen {
            let b = out[start + k];
            out.push(b);
        }
        if out.len() > expected_len {
            return Err("lz4: output longer than announced".into());
        }
    }
    if out.len() != expected_len {
        return Err(format!("lz4: produced {} bytes, announced {}", out.len(), expected_len));
    }
    Ok(out)
}

fn lz4_put_len(out: &mut Vec<u8>, mut extra: usize) {
    while extra >= 255 {
        out.push(255);
        extra -= 255;
    }
    out.push(extra as u8);
}

/// LZ4 block encoder: greedy matcher over a 4-byte hash table, honouring the end-of-block rules
/// (last 5 bytes are literals; last match starts >= 12 bytes before the end). `matches=false`
/// emits one literal-only sequence (also a valid block).
pub fn lz4_block_compress(src: &[u8], matches: bool) -> Vec<u8> {
    let mut out = Vec::with_capacity(src.len() + src.len() / 255 + 16);
    let n = src.len();
    let mut anchor = 0usize;
    let mut i = 0usize;
    let mut table: Vec<usize> = vec![usize::MAX; 1 << 12];
    let emit = |out: &mut Vec<u8>, lits: &[u8], m: Option<(usize, usize)>| {
        let ll = lits.len();
        let ml = m.map(|(_, l)| l - 4).unwrap_or(0);
        let token = ((ll.min(15) as u8) << 4) | (ml.min(15) as u8);
        out.push(token);
        if ll >= 15 {
            lz4_put_len(out, ll - 15);
        }
        out.extend_from_slice(lits);
        if let Some((off, _)) = m {
            out.push(off as u8);
            out.push((off >> 8) as u8);
            if ml >= 15 {
                lz4_put_len(out, ml - 15);
            }
        }
    };
    if matches && n >= 13 {
        let limit = n - 12; // a match may not start after this
        while i < limit {
            let key = u32::from_le_bytes([src[i], src[i + 1], src[i + 2], src[i + 3]]);
            let h = (key.wrapping_mul(2654435761) >> 20) as usize & 0xfff;
            let cand = table[h];
            table[h] = i;
            if cand != usize::MAX && i - cand <= 0xffff && src[cand..cand + 4] == src[i..i + 4] {
                let mut l = 4;
                while i + l < n - 5 && src[cand + l] == src[i + l] {
                    l += 1;
                }
                emit(&mut out, &src[anchor..i], Some((i - cand, l)));
                i += l;
                anchor = i;
            } else {
                i += 1;
            }
        }
    }
    emit(&mut out, &src[anchor..], None);
    out
}

/// CQL's LZ4 body: 4-byte big-endian uncompressed length, then one LZ4 block.
pub fn cql_lz4_decompress(body: &[u8]) -> PResult<Vec<u8>> {
    if body.len() < 4 {
        return Err("lz4 body shorter than its length prefix".into());
    }
    let n = u32::from_be_bytes([body[0], body[1], body[2], body[3]]) as usize;
    lz4_block_decompress(&body[4..], n)
}
pub fn cql_lz4_compress(body: &[u8], matches: bool) -> Vec<u8> {
    let mut out = (body.len() as u32).to_be_bytes().to_vec();
    out.extend(lz4_block_compress(body, matches));
    out
}

/// Snappy raw format decoder (format_description.txt): varint uncompressed length, then elements
/// tagged in the low two bits: 00 literal, 01 copy/1-byte offset, 10 copy/2-byte offset, 11 copy/4-byte offset.
pub fn snappy_decompress(src: &[u8]) -> PResult<Vec<u8>> {
    let mut i = 0usize;
    let mut n: u64 = 0;
    let mut shift = 0;
    loop {
        let b = *src.get(i).ok_or("snappy: truncated length preamble")?;
        i += 1;
        n |= ((b & 0x7f) as u64) << shift;
        if b & 0x80 == 0 {
            break;
        }
        shift += 7;
        if shift > 35 {
            return Err("snappy: length preamble too long".into());
        }
    }
    if n > u32::MAX as u64 {
        return Err("snappy: length above 2^32-1".into());
    }
    let n = n as usize;
    let mut out: Vec<u8> = Vec::with_capacity(n.min(1 << 24));
    while i < src.len() {
        let tag = src[i];
        i += 1;
        let (len, off) = match tag & 3 {
            0 => {
                let mut l = (tag >> 2) as usize;
                if l >= 60 {
                    let nb = l - 59;
                    if i + nb > src.len() {
                        return Err("snappy: truncated literal length".into());
                    }
                    l = 0;
                    for k in 0..nb {
                        l |= (src[i + k] as usize) << (8 * k);
                    }
                    i += nb;
                }
                let l = l + 1;
                if i + l > src.len() {
                    return Err("snappy: literal runs past the end".into());
                }
                out.extend_from_slice(&src[i..i + l]);
                i += l;
                if out.len() > n {
                    return Err("snappy: output longer than announced".into());
                }
                continue;
            }
            1 => {
                let b = *src.get(i).ok_or("snappy: truncated copy")? as usize;
                i += 1;
                ((((tag >> 2) & 7) as usize) + 4, (((tag >> 5) as usize) << 8) | b)
            }
            2 => {
                if i + 2 > src.len() {
                    return Err("snappy: truncated copy".into());
                }
                let o = src[i] as usize | ((src[i + 1] as usize) << 8);
                i += 2;
                ((tag >> 2) as usize + 1, o)
            }
            _ => {
                if i + 4 > src.len() {
                    return Err("snappy: truncated copy".into());
                }
                let o = u32::from_le_bytes([src[i], src[i + 1], src[i + 2], src[i + 3]]) as usize;
                i += 4;
                ((tag >> 2) as usize + 1, o)
            }
        };
        if off == 0 || off > out.len() {
            return Err(format!("snappy: invalid offset {off} with {} bytes produced", out.len()));
        }
        let start = out.len() - off;
        for k in 0..len {
            let b = out[start + k];
            out.push(b);
        }
        if out.len() > n {
            return Err("snappy: output longer than announced".into());
        }
    }
    if out.len() != n {
        return Err(format!("snappy: produced {} bytes, announced {}", out.len(), n));
    }
    Ok(out)
}

/// Snappy raw encoder: varint length + literals (chunks of <= 65536) and, with `matches`, greedy
/// 2-byte-offset copies found through a 4-byte hash table.
pub fn snappy_compress(src: &[u8], matches: bool) -> Vec<u8> {
    let mut out = Vec::with_capacity(src.len() + src.len() / 60 + 8);
    let mut n = src.len() as u64;
    loop {
        let b = (n & 0x7f) as u8;
        n >>= 7;
        if n == 0 {
            out.push(b);
            break;
        }
        out.push(b | 0x80);
    }
    fn literal(out: &mut Vec<u8>, mut lits: &[u8]) {
        while !lits.is_empty() {
            let take = lits.len().min(65536);
            let l = take - 1;
            if l < 60 {
                out.push((l as u8) << 2);
            } else if l < 256 {
                out.push(60 << 2);
                out.push(l as u8);
            } else {
                out.push(61 << 2);
                out.push(l as u8);
                out.push((l >> 8) as u8);
            }
            out.extend_from_slice(&lits[..take]);
            lits = &lits[take..];
        }
    }
    let nlen = src.len();
    let mut anchor = 0usize;
    let mut i = 0usize;
    if matches && nlen >= 8 {
        let mut table: Vec<usize> = vec![usize::MAX; 1 << 12];
        while i + 4 <= nlen {
            let key = u32::from_le_bytes([src[i], src[i + 1], src[i + 2], src[i + 3]]);
            let h = (key.wrapping_mul(0x1e35a7bd) >> 20) as usize & 0xfff;
            let cand = table[h];
            table[h] = i;
            if cand != usize::MAX && i - cand <= 0xffff && src[cand..cand + 4] == src[i..i + 4] {
                let mut l = 4;
                while i + l < nlen && l < 64 && src[cand + l] == src[i + l] {
                    l += 1;
                }
                literal(&mut out, &src[anchor..i]);
                let off = i - cand;
                out.push((((l - 1) as u8) << 2) | 2);
                out.push(off as u8);
                out.push((off >> 8) as u8);
                i += l;
                anchor = i;
            } else {
                i += 1;
            }
        }
    }
    literal(&mut out, &src[anchor..]);
    out
}

pub fn cql_decompress(comp: Comp, body: &[u8]) -> PResult<Vec<u8>> {
    match comp {
        Comp::None => Ok(body.to_vec()),
        Comp::Lz4 => cql_lz4_decompress(body),
        Comp::Snappy => snappy_decompress(body),
    }
}
pub fn cql_compress(comp: Comp, body: &[u8], matches: bool) -> Vec<u8> {
    match comp {
        Comp::None => body.to_vec(),
        Comp::Lz4 => cql_lz4_compress(body, matches),
        Comp::Snappy => snappy_compress(body, matches),
    }
}

// ------------------------------------------------------------------------------------------------
// 3. frame header + request parser
// ------------------------------------------------------------------------------------------------

pub const FLAG_COMPRESSION: u8 = 0x01;
pub const FLAG_TRACING: u8 = 0x02;
pub const FLAG_CUSTOM_PAYLOAD: u8 = 0x04;
pub const FLAG_WARNING: u8 = 0x08;

pub mod opcode {
    pub const ERROR: u8 = 0x00;
    pub const STARTUP: u8 = 0x01;
    pub const READY: u8 = 0x02;
    pub const AUTHENTICATE: u8 = 0x03;
    pub const OPTIONS: u8 = 0x05;
    pub const SUPPORTED: u8 = 0x06;
    pub const QUERY: u8 = 0x07;
    pub const RESULT: u8 = 0x08;
    pub const PREPARE: u8 = 0x09;
    pub const EXECUTE: u8 = 0x0A;
    pub const REGISTER: u8 = 0x0B;
    pub const EVENT: u8 = 0x0C;
    pub const BATCH: u8 = 0x0D;
    pub const AUTH_CHALLENGE: u8 = 0x0E;
    pub const AUTH_RESPONSE: u8 = 0x0F;
    pub const AUTH_SUCCESS: u8 = 0x10;
}

#[derive(Debug, Clone, Copy, PartialEq, Eq)]
pub struct Header {
    pub version: u8,
    pub flags: u8,
    pub stream: i16,
    pub opcode: u8,
    pub length: u32,
}

pub const HEADER_LEN: usize = 9;

pub fn parse_header(frame: &[u8]) -> PResult<Header> {
    if frame.len() < HEADER_LEN {
        return Err(format!("frame of {} bytes is shorter than a header", frame.len()));
    }
    Ok(Header {
        version: frame[0],
        flags: frame[1],
        stream: i16::from_be_bytes([frame[2], frame[3]]),
        opcode: frame[4],
        length: u32::from_be_bytes([frame[5], frame[6], frame[7], frame[8]]),
    })
}

#[derive(Debug, Clone, PartialEq, Eq)]
pub enum Val {
    Null,
    Unset,
    Bytes(Vec<u8>),
}

/// `<query_parameters>` of QUERY / EXECUTE.
#[derive(Debug, Clone, PartialEq, Eq)]
pub struct QueryParams {
    pub consistency: u16,
    pub flags: u8,
    /// Some iff flag 0x01 was set
    pub values: Option<Vec<Val>>,
    pub skip_metadata: bool,
    pub page_size: Option<i32>,
    pub paging_state: Option<Vec<u8>>,
    pub serial_consistency: Option<u16>,
    pub timestamp: Option<i64>,
}

#[derive(Debug, Clone, PartialEq, Eq)]
pub enum BatchStmt {
    Query(String),
    Prepared(Vec<u8>),
}

#[derive(Debug, Clone, PartialEq, Eq)]
pub enum Request {
    Startup(Vec<(String, String)>),
    Options,
    Query { text: String, params: QueryParams },
    Prepare { text: String },
    Execute { id: Vec<u8>, result_metadata_id: Option<Vec<u8>>, params: QueryParams },
    Register(Vec<String>),
    Batch { batch_type: u8, statements: Vec<(BatchStmt, Vec<Val>)>, consistency: u16, flags: u8, serial_consistency: Option<u16>, timestamp: Option<i64> },
    AuthResponse(Option<Vec<u8>>),
}

fn check_consistency(c: u16, what: &str) -> PResult<u16> {
    if c <= 0x000A { Ok(c) } else { Err(format!("{what}: unknown consistency {c:#06x}")) }
}
fn check_serial(c: u16) -> PResult<u16> {
    if c == 0x0008 || c == 0x0009 { Ok(c) } else { Err(format!("serial consistency must be SERIAL or LOCAL_SERIAL, got {c:#06x}")) }
}

fn parse_values(r: &mut Rd, what: &str) -> PResult<Vec<Val>> {
    let n = r.u16(what)?;
    let mut v = Vec::with_capacity(n as usize);
    for _ in 0..n {
        v.push(r.value(what)?);
    }
    Ok(v)
}

pub fn parse_query_params(r: &mut Rd) -> PResult<QueryParams> {
    let consistency = check_consistency(r.u16("consistency")?, "query parameters")?;
    let flags = r.u8("query flags")?;
    if flags & 0x80 != 0 {
        return Err(format!("unknown query flag bits in {flags:#04x}"));
    }
    if flags & 0x40 != 0 {
        return Err("names-for-values flag set (the driver never sends named values)".into());
    }
    let values = if flags & 0x01 != 0 { Some(parse_values(r, "values")?) } else { None };
    let skip_metadata = flags & 0x02 != 0;
    let page_size = if flags & 0x04 != 0 { Some(r.i32("result_page_size")?) } else { None };
    let paging_state = if flags & 0x08 != 0 {
        Some(r.bytes_opt("paging_state")?.ok_or("paging_state flag set but [bytes] is null")?)
    } else {
        None
    };
    let serial_consistency = if flags & 0x10 != 0 { Some(check_serial(r.u16("serial_consistency")?)?) } else { None };
    let timestamp = if flags & 0x20 != 0 { Some(r.i64("timestamp")?) } else { None };
    Ok(QueryParams { consistency, flags, values, skip_metadata, page_size, paging_state, serial_consistency, timestamp })
}

pub const KNOWN_EVENT_TYPES: [&str; 4] = ["TOPOLOGY_CHANGE", "STATUS_CHANGE", "SCHEMA_CHANGE", "CLIENT_ROUTES_CHANGE"];

/// Parse a request body (already decompressed). `metadata_id_ext`: SCYLLA_USE_METADATA_ID negotiated,
/// i.e. EXECUTE carries `<result_metadata_id>` after `<id>`. The whole body must be consumed.
pub fn parse_request_body(op: u8, body: &[u8], metadata_id_ext: bool) -> PResult<Request> {
    let mut r = Rd::new(body);
    let req = match op {
        opcode::STARTUP => Request::Startup(r.string_map("STARTUP options")?),
        opcode::OPTIONS => Request::Options,
        opcode::QUERY => {
            let text = r.long_string("QUERY text")?;
            let params = parse_query_params(&mut r)?;
            Request::Query { text, params }
        }
        opcode::PREPARE => Request::Prepare { text: r.long_string("PREPARE text")? },
        opcode::EXECUTE => {
            let id = r.short_bytes("EXECUTE id")?;
            let result_metadata_id = if metadata_id_ext { Some(r.short_bytes("EXECUTE result_metadata_id")?) } else { None };
            let params = parse_query_params(&mut r)?;
            Request::Execute { id, result_metadata_id, params }
        }
        opcode::REGISTER => {
            let l = r.string_list("REGISTER event types")?;
            for e in &l {
                if !KNOWN_EVENT_TYPES.contains(&e.as_str()) {
                    return Err(format!("REGISTER: unknown event type {e:?}"));
                }
            }
            Request::Register(l)
        }
        opcode::BATCH => {
            let batch_type = r.u8("BATCH type")?;
            if batch_type > 2 {
                return Err(format!("BATCH: unknown type {batch_type}"));
            }
            let n = r.u16("BATCH statement count")?;
            let mut statements = Vec::with_capacity(n as usize);
            for i in 0..n {
                let kind = r.u8("BATCH statement kind")?;
                let st = match kind {
                    0 => BatchStmt::Query(r.long_string("BATCH statement text")?),
                    1 => BatchStmt::Prepared(r.short_bytes("BATCH statement id")?),
                    k => return Err(format!("BATCH statement {i}: unknown kind {k}")),
                };
                let vals = parse_values(&mut r, "BATCH statement values")?;
                statements.push((st, vals));
            }
            let consistency = check_consistency(r.u16("BATCH consistency")?, "BATCH")?;
            let flags = r.u8("BATCH flags")?;
            if flags & !(0x10 | 0x20) != 0 {
                return Err(format!("BATCH: unknown/unsupported flag bits in {flags:#04x}"));
            }
            let serial_consistency = if flags & 0x10 != 0 { Some(check_serial(r.u16("BATCH serial_consistency")?)?) } else { None };
            let timestamp = if flags & 0x20 != 0 { Some(r.i64("BATCH timestamp")?) } else { None };
            Request::Batch { batch_type, statements, consistency, flags, serial_consistency, timestamp }
        }
        opcode::AUTH_RESPONSE => Request::AuthResponse(r.bytes_opt("AUTH_RESPONSE token")?),
        other => return Err(format!("opcode {other:#04x} is not a request opcode")),
    };
    if r.remaining() != 0 {
        return Err(format!("{} trailing bytes after the request body", r.remaining()));
    }
    Ok(req)
}

/// A fully parsed request frame.
#[derive(Debug, Clone, PartialEq, Eq)]
pub struct RequestFrame {
    pub header: Header,
    /// body after decompression
    pub body: Vec<u8>,
    pub request: Request,
}

/// Parse a complete request frame as a server would: header checks (version 4 request direction,
/// only COMPRESSION/TRACING flags, length == bytes that follow), decompression with the
/// negotiated algorithm, body parse.
pub fn parse_request_frame(frame: &[u8], negotiated: Comp, metadata_id_ext: bool) -> PResult<RequestFrame> {
    let header = parse_header(frame)?;
    if header.version != 0x04 {
        return Err(format!("version byte {:#04x}, expected 0x04 (request, protocol v4)", header.version));
    }
    if header.flags & !(FLAG_COMPRESSION | FLAG_TRACING) != 0 {
        return Err(format!("unexpected header flags {:#04x}", header.flags));
    }
    let rest = &frame[HEADER_LEN..];
    if header.length as usize != rest.len() {
        return Err(format!("header length {} but {} body bytes follow", header.length, rest.len()));
    }
    let body = if header.flags & FLAG_COMPRESSION != 0 {
        if negotiated == Comp::None {
            return Err("COMPRESSION flag set but no compression negotiated".into());
        }
        cql_decompress(negotiated, rest)?
    } else {
        rest.to_vec()
    };
    let request = parse_request_body(header.opcode, &body, metadata_id_ext)?;
    Ok(RequestFrame { header, body, request })
}

#[cfg(test)]
mod tests {
    use super::*;

    #[test]
    fn lz4_known_vector() {
        // vector pinned in the repo's unit test: ", World!" -> 0x80 + literals
        assert_eq!(lz4_block_decompress(&[128, 44, 32, 87, 111, 114, 108, 100, 33], 8).unwrap(), b", World!");
        let s = "Hello, World!".repeat(100);
        for m in [false, true] {
            let c = lz4_block_compress(s.as_bytes(), m);
            assert_eq!(lz4_block_decompress(&c, s.len()).unwrap(), s.as_bytes());
            if m {
                assert!(c.len() < 60);
            }
        }
    }

    #[test]
    fn snappy_round_trip() {
        let s = "Hello, World!".repeat(100);
        for m in [false, true] {
            let c = snappy_compress(s.as_bytes(), m);
            assert_eq!(snappy_decompress(&c).unwrap(), s.as_bytes());
        }
        // spec example: "Wikipedia" style literal
        assert_eq!(snappy_decompress(&[3, 0x08, b'a', b'b', b'c']).unwrap(), b"abc");
    }
}
