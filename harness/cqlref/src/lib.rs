//! Independent reference models (written from the CQL v4 spec / ScyllaDB algorithms; shares no code with the driver).
pub mod shard;
