//! Independent reference models (written from the CQL v4 spec / ScyllaDB & Cassandra algorithms;
//! shares no code with the driver). Deliberately boring: vectors and linear scans.
pub mod binder; // C16: reference by-name / ordered binder for derived structs
pub mod ksname; // C20: keyspace identifier grammar
pub mod murmur3; // C03: Murmur3 x64-128 Cassandra variant, composite key framing, CDC token
pub mod placement; // C04/C05/C12: SimpleStrategy / NetworkTopologyStrategy replica placement
pub mod proto; // C08/C09: CQL v4 frame codec (request parser, response encoder), LZ4 block / Snappy raw
pub mod retry; // C06: retry safety table
pub mod shard; // C11
pub mod tablets; // C15: latest-wins interval map
pub mod value; // C01/C17: CQL value codec for every type
