//! cqlref::placement - independent reference for replica placement (C04, C05, C12).
//!
//! Written from the property statement, word for word:
//!
//! * SimpleStrategy - the first RF distinct nodes clockwise from the token;
//! * NetworkTopologyStrategy - per datacenter, walking that datacenter's nodes clockwise,
//!   taking a node if its rack is new or if rack repeats are still allowed (RF minus rack
//!   count), until min(RF, nodes) are found.
//!
//! "Clockwise from the token" = starting at the first ring entry whose token is >= the query
//! token, wrapping to the lowest token after the highest. Deliberately boring: vectors and
//! linear scans, no binary search, no precomputation, no shared code with the driver.
//!
//! Conventions the statement leaves open (reported as assumptions by the checks):
//! * a node without a rack belongs to one shared "no rack" rack of its datacenter, both when
//!   racks are counted and when the walk asks whether a rack is new;
//! * a node without a datacenter belongs to no datacenter (NTS never selects it);
//! * rings in which two different nodes own the same token have no defined clockwise order
//!   between the two owners: `Ring::duplicate_tokens*` let callers exclude them.

use std::collections::BTreeSet;

#[derive(Clone, Debug, PartialEq, Eq)]
pub struct RNode {
    pub dc: Option<String>,
    pub rack: Option<String>,
}

/// A token ring: `nodes[i]` is node i; `entries` = (token, node index), ascending by token
/// (stable with respect to the order given to `Ring::new`).
#[derive(Clone, Debug)]
pub struct Ring {
    pub nodes: Vec<RNode>,
    pub entries: Vec<(i64, usize)>,
}

#[derive(Clone, Debug, PartialEq, Eq)]
pub enum Strat {
    Simple(usize),
    /// (datacenter name, replication factor) entries; names need not exist in the ring.
    Nts(Vec<(String, usize)>),
    /// LocalStrategy: one replica, the token's owner.
    Local,
    /// A strategy the driver does not know; documented driver behaviour: as SimpleStrategy RF 1.
    Other,
}

fn distinct(seq: impl IntoIterator<Item = usize>) -> Vec<usize> {
    let mut out: Vec<usize> = Vec::new();
    for x in seq {
        if !out.contains(&x) {
            out.push(x);
        }
    }
    out
}

impl Ring {
    pub fn new(nodes: Vec<RNode>, mut entries: Vec<(i64, usize)>) -> Ring {
        entries.sort_by_key(|e| e.0); // stable
        Ring { nodes, entries }
    }

    /// Nodes owning at least one token, in order of first appearance from the lowest token.
    pub fn token_owners(&self) -> Vec<usize> {
        distinct(self.entries.iter().map(|e| e.1))
    }

    /// Datacenter names present among token owners, in order of first appearance from the lowest token.
    pub fn datacenters(&self) -> Vec<String> {
        let mut out: Vec<String> = Vec::new();
        for (_, n) in &self.entries {
            if let Some(dc) = &self.nodes[*n].dc {
                if !out.contains(dc) {
                    out.push(dc.clone());
                }
            }
        }
        out
    }

    /// True if some token value is owned by two different nodes.
    pub fn duplicate_tokens(&self) -> bool {
        self.entries.windows(2).any(|w| w[0].0 == w[1].0 && w[0].1 != w[1].1)
    }

    /// True if some token value is owned by two different nodes of the same datacenter
    /// (or by two nodes of which one has no datacenter - irrelevant to NTS, so not counted).
    pub fn duplicate_tokens_within_a_dc(&self) -> bool {
        for i in 0..self.entries.len() {
            for j in i + 1..self.entries.len() {
                let (a, b) = (self.entries[i], self.entries[j]);
                if a.0 == b.0 && a.1 != b.1 {
                    let (da, db) = (&self.nodes[a.1].dc, &self.nodes[b.1].dc);
                    if da.is_some() && da == db {
                        return true;
                    }
                }
            }
        }
        false
    }

    /// Ring entries (as node indices, with repeats) clockwise from `token`: starts at the first
    /// entry whose token is >= `token`, wraps around once, visits every entry exactly once.
    pub fn walk(&self, token: i64) -> Vec<usize> {
        let n = self.entries.len();
        let mut start = 0; // wrap: nothing >= token -> lowest token
        for (i, e) in self.entries.iter().enumerate() {
            if e.0 >= token {
                start = i;
                break;
            }
        }
        (0..n).map(|k| self.entries[(start + k) % n].1).collect()
    }

    /// Distinct nodes clockwise from `token`.
    pub fn walk_nodes(&self, token: i64) -> Vec<usize> {
        distinct(self.walk(token))
    }

    /// SimpleStrategy: the first RF distinct nodes clockwise from the token.
    pub fn simple(&self, token: i64, rf: usize) -> Vec<usize> {
        let mut w = self.walk_nodes(token);
        w.truncate(rf);
        w
    }

    /// Distinct nodes of datacenter `dc` clockwise from `token` ("walking that datacenter's nodes clockwise").
    pub fn dc_walk_nodes(&self, token: i64, dc: &str) -> Vec<usize> {
        self.walk_nodes(token).into_iter().filter(|n| self.nodes[*n].dc.as_deref() == Some(dc)).collect()
    }

    /// Number of distinct racks among the token-owning nodes of `dc` ("no rack" counts as one rack).
    pub fn rack_count(&self, dc: &str) -> usize {
        let racks: BTreeSet<Option<&str>> = self
            .token_owners()
            .into_iter()
            .filter(|n| self.nodes[*n].dc.as_deref() == Some(dc))
            .map(|n| self.nodes[n].rack.as_deref())
            .collect();
        racks.len()
    }

    /// NetworkTopologyStrategy inside one datacenter, exactly as the statement words it.
    pub fn nts_dc(&self, token: i64, dc: &str, rf: usize) -> Vec<usize> {
        let walk = self.dc_walk_nodes(token, dc);
        let want = rf.min(walk.len());
        let mut repeats_allowed = rf.saturating_sub(self.rack_count(dc));
        let mut seen_racks: Vec<Option<&str>> = Vec::new();
        let mut out = Vec::new();
        for n in walk {
            if out.len() == want {
                break;
            }
            let rack = self.nodes[n].rack.as_deref();
            if !seen_racks.contains(&rack) {
                seen_racks.push(rack);
                out.push(n);
            } else if repeats_allowed > 0 {
                repeats_allowed -= 1;
                out.push(n);
            }
        }
        out
    }

    /// The replica *set* (sorted node indices) of `token` under `strat`.
    pub fn replica_set(&self, token: i64, strat: &Strat) -> Vec<usize> {
        let mut v = self.replicas_ring_order(token, strat);
        v.sort_unstable();
        v
    }

    /// The replicas of `token` under `strat`, listed in ring order (order of first appearance
    /// when walking the whole ring clockwise from the token).
    pub fn replicas_ring_order(&self, token: i64, strat: &Strat) -> Vec<usize> {
        match strat {
            Strat::Simple(rf) => self.simple(token, *rf),
            Strat::Local | Strat::Other => self.simple(token, 1),
            Strat::Nts(entries) => {
                let mut members: Vec<usize> = Vec::new();
                let mut seen_dcs: Vec<&str> = Vec::new();
                for (dc, rf) in entries {
                    if seen_dcs.contains(&dc.as_str()) {
                        continue; // a map has one entry per name; first wins if a caller repeats one
                    }
                    seen_dcs.push(dc);
                    members.extend(self.nts_dc(token, dc, *rf));
                }
                self.walk_nodes(token).into_iter().filter(|n| members.contains(n)).collect()
            }
        }
    }

    /// "Restricting to a datacenter equals filtering the unrestricted answer" (ring order kept).
    pub fn replicas_ring_order_in_dc(&self, token: i64, strat: &Strat, dc: &str) -> Vec<usize> {
        self.replicas_ring_order(token, strat).into_iter().filter(|n| self.nodes[*n].dc.as_deref() == Some(dc)).collect()
    }

    /// Query tokens that cover the ring: every ring token, a token inside every open interval
    /// between neighbours (token+1 where that is still below the next one), a token below the
    /// lowest and above the highest ring token, and i64::MAX. With `dense` also the midpoint of
    /// every interval, 0 and i64::MIN+1.
    /// (i64::MIN is not a token value; the driver folds it onto i64::MAX - callers add it.)
    pub fn query_tokens(&self, dense: bool) -> Vec<i64> {
        let mut s: BTreeSet<i64> = BTreeSet::new();
        let toks: Vec<i64> = distinct_sorted(self.entries.iter().map(|e| e.0));
        for (i, t) in toks.iter().enumerate() {
            s.insert(*t);
            if let Some(next) = toks.get(i + 1) {
                if *t < i64::MAX && t + 1 < *next {
                    s.insert(t + 1);
                    let mid = ((*t as i128 + *next as i128) / 2) as i64;
                    if dense && mid > *t && mid < *next {
                        s.insert(mid);
                    }
                }
            }
        }
        if let (Some(lo), Some(hi)) = (toks.first(), toks.last()) {
            if *lo > i64::MIN + 1 {
                s.insert(lo - 1);
            }
            if *hi < i64::MAX {
                s.insert(hi + 1);
            }
        }
        if dense {
            s.insert(0);
            s.insert(i64::MIN + 1);
        }
        s.insert(i64::MAX);
        s.into_iter().collect()
    }
}

fn distinct_sorted(it: impl Iterator<Item = i64>) -> Vec<i64> {
    let s: BTreeSet<i64> = it.collect();
    s.into_iter().collect()
}

/// The 7-node, 2-datacenter ring pinned in the driver's own unit tests
/// (scylla/src/routing/locator/test.rs), with node indices A=0 .. G=6.
pub fn pinned_seven_node_ring() -> Ring {
    let n = |dc: &str, rack: &str| RNode { dc: Some(dc.into()), rack: Some(rack.into()) };
    let nodes = vec![n("eu", "r1"), n("eu", "r1"), n("eu", "r1"), n("us", "r1"), n("us", "r1"), n("us", "r2"), n("eu", "r2")];
    let owners: [(i64, usize); 17] = [
        (50, 0),
        (100, 1),
        (150, 4),
        (200, 5),
        (250, 0),
        (300, 2),
        (350, 3),
        (400, 0),
        (450, 5),
        (500, 6),
        (550, 3),
        (600, 1),
        (650, 2),
        (700, 2),
        (750, 4),
        (800, 6),
        (900, 1),
    ];
    Ring::new(nodes, owners.to_vec())
}

/// Known answers copied from the assertions of the driver's unit tests (replication_info.rs,
/// precomputed_replicas.rs, locator/mod.rs `test_replicas_ordered`, locator/test.rs). Returns the
/// list of mismatches (empty = the reference agrees with every pinned expectation).
pub fn self_test() -> Vec<String> {
    const A: usize = 0;
    const B: usize = 1;
    const C: usize = 2;
    const D: usize = 3;
    const E: usize = 4;
    const F: usize = 5;
    const G: usize = 6;
    let ring = pinned_seven_node_ring();
    let mut bad = Vec::new();
    let mut expect = |what: String, got: Vec<usize>, want: Vec<usize>| {
        if got != want {
            bad.push(format!("{what}: reference says {got:?}, pinned expectation {want:?}"));
        }
    };
    // test_simple_strategy
    expect("simple(160,0)".into(), ring.simple(160, 0), vec![]);
    expect("simple(160,2)".into(), ring.simple(160, 2), vec![F, A]);
    let full200 = [F, A, C, D, G, B, E];
    for rf in 1..=7 {
        expect(format!("simple(200,{rf})"), ring.simple(200, rf), full200[..rf].to_vec());
    }
    let full701 = [E, G, B, A, F, C, D];
    for rf in 1..=8usize {
        expect(format!("simple(701,{rf})"), ring.simple(701, rf), full701[..rf.min(7)].to_vec());
    }
    // test_network_topology_strategy
    let eu: [&[usize]; 6] = [&[], &[A], &[A, G], &[A, C, G], &[A, C, G, B], &[A, C, G, B]];
    for (rf, want) in eu.iter().enumerate() {
        expect(format!("nts(160,eu,{rf})"), ring.nts_dc(160, "eu", rf), want.to_vec());
    }
    let us: [&[usize]; 5] = [&[], &[F], &[F, D], &[F, D, E], &[F, D, E]];
    for (rf, want) in us.iter().enumerate() {
        expect(format!("nts(160,us,{rf})"), ring.nts_dc(160, "us", rf), want.to_vec());
    }
    // test_replicas_ordered
    let nts = |k: usize| Strat::Nts(vec![("eu".into(), k), ("us".into(), k)]);
    expect("ordered(160,nts3)".into(), ring.replicas_ring_order(160, &nts(3)), vec![F, A, C, D, G, E]);
    expect("ordered(160,nts2)".into(), ring.replicas_ring_order(160, &nts(2)), vec![F, A, D, G]);
    expect("ordered(160,ss2)".into(), ring.replicas_ring_order(160, &Strat::Simple(2)), vec![F, A]);
    expect("ordered(160,nts3,eu)".into(), ring.replicas_ring_order_in_dc(160, &nts(3), "eu"), vec![A, C, G]);
    expect("ordered(160,nts3,us)".into(), ring.replicas_ring_order_in_dc(160, &nts(3), "us"), vec![F, D, E]);
    expect("ordered(160,ss2,eu)".into(), ring.replicas_ring_order_in_dc(160, &Strat::Simple(2), "eu"), vec![A]);
    // locator/test.rs: sets
    let set = |mut v: Vec<usize>| {
        v.sort_unstable();
        v
    };
    expect("set(450,ss3)".into(), ring.replica_set(450, &Strat::Simple(3)), set(vec![F, G, D]));
    expect("set(450,ss4)".into(), ring.replica_set(450, &Strat::Simple(4)), set(vec![F, G, D, B]));
    expect("set(201,ss4)".into(), ring.replica_set(201, &Strat::Simple(4)), set(vec![A, C, D, F]));
    expect("set(50,ss1,us)".into(), ring.replicas_ring_order_in_dc(50, &Strat::Simple(1), "us"), vec![]);
    expect("set(50,ss3,us)".into(), ring.replicas_ring_order_in_dc(50, &Strat::Simple(3), "us"), vec![E]);
    expect("set(50,ss3,eu)".into(), ring.replicas_ring_order_in_dc(50, &Strat::Simple(3), "eu"), vec![A, B]);
    // test_network_topology_strategy_replicas
    let nts2 = |a: &str, x: usize, b: &str, y: usize| Strat::Nts(vec![(a.into(), x), (b.into(), y)]);
    expect("set(75,nts eu1 us1,eu)".into(), ring.replicas_ring_order_in_dc(75, &nts2("eu", 1, "us", 1), "eu"), vec![B]);
    expect("set(75,nts eu1 us1,us)".into(), ring.replicas_ring_order_in_dc(75, &nts2("eu", 1, "us", 1), "us"), vec![E]);
    expect("set(75,nts eu1 us1)".into(), ring.replica_set(75, &nts2("eu", 1, "us", 1)), set(vec![B, E]));
    expect("set(75,nts eu2 us1)".into(), ring.replica_set(75, &nts2("eu", 2, "us", 1)), set(vec![B, E, G]));
    expect("set(75,nts unknown2 us1)".into(), ring.replica_set(75, &nts2("unknown", 2, "us", 1)), set(vec![E]));
    expect("set(800,nts eu1 us1)".into(), ring.replica_set(800, &nts2("eu", 1, "us", 1)), set(vec![G, E]));
    bad
}

#[cfg(test)]
mod tests {
    #[test]
    fn pinned() {
        assert_eq!(super::self_test(), Vec::<String>::new());
    }
}
