//! cqlref::binder - reference binder for derived structs (C16).
//!
//! Written from the attribute DOCUMENTATION of the four derive macros (scylla-macros/src/lib.rs doc
//! comments and docs/source/data-types/udt.md), not from the generated code. It answers, for a struct
//! model (flavor + attributes + leaf fields) and a database-side field/column list:
//!   * is the combination accepted, rejected, or left open by the documentation;
//!   * which struct leaf is bound to which database position;
//!   * serialization: which bytes belong at each database position;
//!   * deserialization: which value each leaf receives.
//!
//! Documented rules used (quotes abridged):
//!   match_by_name     "does not require the fields ... to be in the same order"; serialization "in the order which
//!                     the database expects"
//!   enforce_order     "requires the fields in the Rust struct to be in the same order ... If the order is incorrect,
//!                     type checking/serialization will fail"; names "will still be checked"
//!   skip_name_checks  (ordered only) "it's OK if i-th field has a different name ... Fields are still being type-checked"
//!   SerializeValue    "Serialization will fail if there are some fields in the Rust struct that don't match to any of
//!                     the UDT fields." UDT fields absent from the struct: by-name "Missing fields in the middle of UDT
//!                     will be sent as NULLs, missing fields at the end will not be sent at all"; ordered "will succeed
//!                     if suffix of UDT fields is missing. If there are missing fields in the middle it will fail."
//!   forbid_excess_udt_fields  "Forces Rust struct to have all the fields present in UDT, otherwise serialization
//!                     fails." / deserialization: "makes sure that no excess fields are present"
//!   DeserializeValue  "enforce_order flavour ignores excess UDT fields in the suffix of the UDT definition, and the
//!                     default unordered flavour ignores excess UDT fields anywhere."
//!   allow_missing     (DeserializeValue) "If the UDT definition does not contain this field, it will be initialized
//!                     with Default::default()."
//!   default_when_null "If the value of the field received from DB is null, the field will be initialized with
//!                     Default::default()."
//!   skip              ser: "Don't use the field during serialization." de: "completely ignored ... Default::default()"
//!   rename            bind to the given database name instead of the Rust name
//!   flatten           (SerializeRow) "Inline fields from a field into the parent struct."  -> modelled as leaves.
//!   SerializeRow      "Serialization will fail if there are some bind markers/columns in the statement that don't match
//!                     to any of the Rust struct fields, or vice versa."
//!   DeserializeRow    "the struct must match the queried names and types"
//!   Option            udt.md: "Wrapping a field in Option will gracefully handle null field values."
//!
//! Where the documentation says nothing the verdict is `Either` (if the driver accepts, the binding below
//! must be what it did) or `Unspecified` (only "Ok or Err, no panic" may be asserted):
//!   * `allow_missing` on the *serialization* side (not listed for SerializeValue);
//!   * excess columns for DeserializeRow;
//!   * ordered UDT whose ignored suffix contains the name of a declared (allow_missing) field;
//!   * null delivered to a non-Option list field (the driver reads null collections as empty).
//!   * an `Option` field holding `None` bound to a column of a different type (null is written without a type check);
//!   * a database field list with a repeated name (Unspecified) - except SerializeRow, where a named bind marker
//!     may occur several times (`a = :x AND b = :x`): the documented rules still apply and, if the row is accepted,
//!     every occurrence must carry the like-named field's value with no cell missing (verdict Either).
//!
//! Cell encoding (CQL v4 spec section 6): int/bigint big-endian two's complement, text UTF-8, boolean one byte,
//! double IEEE-754 big-endian, list<int> = [i32 n] then n x [i32 len][bytes]. A UDT value / a row is a sequence
//! of [i32 len][bytes] cells, len -1 = null; a UDT value may stop early (remaining fields are null).

#[derive(Clone, Copy, PartialEq, Eq, Debug, Hash, PartialOrd, Ord)]
pub enum Kind {
    Int,
    Text,
    Boolean,
    BigInt,
    Double,
    ListInt,
    /// a nested UDT whose Rust carrier is itself a derived struct (`Leaf::nested` / `DbField::fields`)
    Udt,
}

impl Kind {
    pub const ALL: [Kind; 6] = [Kind::Int, Kind::Text, Kind::Boolean, Kind::BigInt, Kind::Double, Kind::ListInt];
    pub fn name(self) -> &'static str {
        match self {
            Kind::Int => "int",
            Kind::Text => "text",
            Kind::Boolean => "boolean",
            Kind::BigInt => "bigint",
            Kind::Double => "double",
            Kind::ListInt => "list<int>",
            Kind::Udt => "udt",
        }
    }
    pub fn from_name(s: &str) -> Option<Kind> {
        if s == "udt" {
            return Some(Kind::Udt);
        }
        Kind::ALL.into_iter().find(|k| k.name() == s)
    }
}

/// A field value. `Double` holds the bit pattern so equality is bitwise.
#[derive(Clone, PartialEq, Eq, Debug, Hash)]
pub enum Val {
    Null,
    Int(i32),
    Text(String),
    Boolean(bool),
    BigInt(i64),
    Double(u64),
    ListInt(Vec<i32>),
    /// value of a nested derived struct: one entry per leaf of that struct
    Udt(Vec<Val>),
}

impl Val {
    pub fn kind(&self) -> Option<Kind> {
        Some(match self {
            Val::Null => return None,
            Val::Int(_) => Kind::Int,
            Val::Text(_) => Kind::Text,
            Val::Boolean(_) => Kind::Boolean,
            Val::BigInt(_) => Kind::BigInt,
            Val::Double(_) => Kind::Double,
            Val::ListInt(_) => Kind::ListInt,
            Val::Udt(_) => Kind::Udt,
        })
    }

    /// Bytes of the cell body; `None` for null.
    pub fn encode(&self) -> Option<Vec<u8>> {
        Some(match self {
            Val::Null => return None,
            Val::Int(v) => v.to_be_bytes().to_vec(),
            Val::Text(s) => s.as_bytes().to_vec(),
            Val::Boolean(b) => vec![*b as u8],
            Val::BigInt(v) => v.to_be_bytes().to_vec(),
            Val::Double(bits) => bits.to_be_bytes().to_vec(),
            Val::ListInt(xs) => {
                let mut out = (xs.len() as i32).to_be_bytes().to_vec();
                for x in xs {
                    out.extend_from_slice(&4i32.to_be_bytes());
                    out.extend_from_slice(&x.to_be_bytes());
                }
                out
            }
            Val::Udt(_) => panic!("reference: a nested struct value is encoded by expect_ser, which knows the database field list"),
        })
    }

    pub fn decode(kind: Kind, cell: Option<&[u8]>) -> Result<Val, String> {
        let Some(b) = cell else { return Ok(Val::Null) };
        let fixed = |n: usize| if b.len() == n { Ok(()) } else { Err(format!("{} cell of {} bytes", kind.name(), b.len())) };
        Ok(match kind {
            Kind::Int => {
                fixed(4)?;
                Val::Int(i32::from_be_bytes(b.try_into().unwrap()))
            }
            Kind::BigInt => {
                fixed(8)?;
                Val::BigInt(i64::from_be_bytes(b.try_into().unwrap()))
            }
            Kind::Double => {
                fixed(8)?;
                Val::Double(u64::from_be_bytes(b.try_into().unwrap()))
            }
            Kind::Boolean => {
                fixed(1)?;
                Val::Boolean(b[0] != 0)
            }
            Kind::Text => Val::Text(String::from_utf8(b.to_vec()).map_err(|e| e.to_string())?),
            Kind::ListInt => {
                if b.len() < 4 {
                    return Err("list cell shorter than its count".into());
                }
                let n = i32::from_be_bytes(b[0..4].try_into().unwrap());
                let mut xs = Vec::new();
                let mut p = 4usize;
                for _ in 0..n {
                    if b.len() < p + 8 || b[p..p + 4] != 4i32.to_be_bytes() {
                        return Err("malformed list<int> element".into());
                    }
                    xs.push(i32::from_be_bytes(b[p + 4..p + 8].try_into().unwrap()));
                    p += 8;
                }
                if p != b.len() {
                    return Err("trailing bytes after list<int>".into());
                }
                Val::ListInt(xs)
            }
            Kind::Udt => return Err("reference: nested UDT cells are decoded by cells_from_body".into()),
        })
    }

    /// `Default::default()` of the Rust carrier of this kind (`Option<_>` -> None).
    pub fn default_for(kind: Kind, optional: bool) -> Val {
        if optional {
            return Val::Null;
        }
        match kind {
            Kind::Int => Val::Int(0),
            Kind::Text => Val::Text(String::new()),
            Kind::Boolean => Val::Boolean(false),
            Kind::BigInt => Val::BigInt(0),
            Kind::Double => Val::Double(0f64.to_bits()),
            Kind::ListInt => Val::ListInt(Vec::new()),
            Kind::Udt => panic!("reference: the default of a nested struct needs its model (default_of_leaf)"),
        }
    }
}

/// `Default::default()` of the Rust carrier of a leaf (derived `Default` of a nested struct = defaults of its fields).
pub fn default_of_leaf(leaf: &Leaf) -> Val {
    if leaf.optional {
        return Val::Null;
    }
    match &leaf.nested {
        Some(m) => Val::Udt(m.leaves.iter().map(default_of_leaf).collect()),
        None => Val::default_for(leaf.kind, false),
    }
}

/// Append one `[i32 len][bytes]` cell (len -1 for null).
pub fn write_cell(out: &mut Vec<u8>, cell: Option<&[u8]>) {
    match cell {
        None => out.extend_from_slice(&(-1i32).to_be_bytes()),
        Some(b) => {
            out.extend_from_slice(&(b.len() as i32).to_be_bytes());
            out.extend_from_slice(b);
        }
    }
}

/// Split a UDT body / serialized row into its cells.
pub fn split_cells(mut body: &[u8]) -> Result<Vec<Option<Vec<u8>>>, String> {
    let mut cells = Vec::new();
    while !body.is_empty() {
        if body.len() < 4 {
            return Err("truncated cell length".into());
        }
        let len = i32::from_be_bytes(body[0..4].try_into().unwrap());
        body = &body[4..];
        if len < 0 {
            // -1 null. (-2 "unset" is never legal inside a UDT; in a row it would be a bound-value marker,
            // which derived structs of plain carriers never produce.)
            if len != -1 {
                return Err(format!("cell length {len}"));
            }
            cells.push(None);
        } else {
            let len = len as usize;
            if body.len() < len {
                return Err("cell longer than the buffer".into());
            }
            cells.push(Some(body[..len].to_vec()));
            body = &body[len..];
        }
    }
    Ok(cells)
}

#[derive(Clone, Copy, PartialEq, Eq, Debug)]
pub enum Flavor {
    ByName,
    Ordered,
}

#[derive(Clone, Copy, PartialEq, Eq, Debug)]
pub enum Target {
    /// UDT: SerializeValue / DeserializeValue
    Udt,
    /// bind markers / result columns: SerializeRow / DeserializeRow
    Row,
}

#[derive(Clone, Copy, PartialEq, Eq, Debug)]
pub enum Dir {
    Ser,
    De,
}

/// One leaf field of the struct after `flatten` has been inlined, in declaration order.
#[derive(Clone, Debug)]
pub struct Leaf {
    pub rust_name: String,
    /// `rename` value or the Rust name
    pub db_name: String,
    pub kind: Kind,
    /// the Rust type is `Option<_>`
    pub optional: bool,
    pub skip: bool,
    pub allow_missing: bool,
    pub default_when_null: bool,
    /// `kind == Kind::Udt`: the model of the derived struct that carries the nested UDT
    pub nested: Option<Box<Model>>,
}

#[derive(Clone, Debug)]
pub struct Model {
    pub flavor: Flavor,
    pub skip_name_checks: bool,
    pub forbid_excess_udt_fields: bool,
    pub leaves: Vec<Leaf>,
}

#[derive(Clone, PartialEq, Eq, Hash)]
pub struct DbField {
    pub name: String,
    pub kind: Kind,
    /// `kind == Kind::Udt`: the nested UDT's field list
    pub fields: Vec<DbField>,
}

impl std::fmt::Debug for DbField {
    fn fmt(&self, f: &mut std::fmt::Formatter<'_>) -> std::fmt::Result {
        if self.kind == Kind::Udt {
            write!(f, "{} udt{:?}", self.name, self.fields)
        } else {
            write!(f, "{} {}", self.name, self.kind.name())
        }
    }
}

impl DbField {
    pub fn leaf(name: &str, kind: Kind) -> DbField {
        DbField { name: name.to_string(), kind, fields: Vec::new() }
    }
}

#[derive(Clone, Copy, PartialEq, Eq, Debug)]
pub enum Verdict {
    /// the documentation promises success
    MustAccept,
    /// the documentation promises an error (type check or (de)serialization error)
    MustReject,
    /// not documented either way; if accepted, the binding/values computed here must be what happened
    Either,
    /// not documented and no sensible binding to demand: only "Ok or Err, never a panic"
    Unspecified,
}

#[derive(Clone, Debug)]
pub struct Binding {
    pub verdict: Verdict,
    /// short stable reason (for counters and messages)
    pub reason: &'static str,
    /// per leaf: database position it is bound to
    pub leaf_to_db: Vec<Option<usize>>,
    /// leaves bound to a database field of a different type
    pub mismatched: Vec<usize>,
    /// the database list repeats a name. Verdict stays Unspecified whatever else holds - except for
    /// SerializeRow, where a named bind marker may legitimately occur several times (`a = :x AND b = :x`).
    pub repeated: bool,
    /// per database position: the leaf that supplies it (by-name: every occurrence of a name)
    pub db_to_leaf: Vec<Option<usize>>,
}

fn worst(cur: &mut (Verdict, &'static str), v: Verdict, why: &'static str) {
    // MustReject > Unspecified > Either > MustAccept; first reason of the winning rank is kept
    let rank = |v: Verdict| match v {
        Verdict::MustAccept => 0,
        Verdict::Either => 1,
        Verdict::Unspecified => 2,
        Verdict::MustReject => 3,
    };
    if rank(v) > rank(cur.0) {
        *cur = (v, why);
    }
}

/// Bind the struct's leaves to the database field list by names / order / count only.
pub fn bind_names(m: &Model, db: &[DbField], target: Target, dir: Dir) -> Binding {
    let mut res = (Verdict::MustAccept, "ok");
    let mut leaf_to_db: Vec<Option<usize>> = vec![None; m.leaves.len()];
    let active: Vec<usize> = (0..m.leaves.len()).filter(|i| !m.leaves[*i].skip).collect();
    let mut db_used = vec![false; db.len()];
    // what an unbound leaf means
    let unbound = |leaf: &Leaf, res: &mut (Verdict, &'static str)| match (target, dir) {
        (Target::Udt, Dir::De) if leaf.allow_missing => {}
        (Target::Udt, Dir::Ser) if leaf.allow_missing => worst(res, Verdict::Either, "ser-allow-missing-undocumented"),
        _ => worst(res, Verdict::MustReject, "struct-field-without-db-field"),
    };
    match (m.flavor, m.skip_name_checks) {
        (Flavor::ByName, _) => {
            for &i in &active {
                let leaf = &m.leaves[i];
                // database names are unique; linear scan
                match db.iter().position(|f| f.name == leaf.db_name) {
                    Some(j) => {
                        leaf_to_db[i] = Some(j);
                        db_used[j] = true;
                    }
                    None => unbound(leaf, &mut res),
                }
            }
            // database positions whose name no active leaf carries (a repeated name is not excess)
            let excess = db.iter().filter(|f| !active.iter().any(|&i| m.leaves[i].db_name == f.name)).count();
            if excess > 0 {
                match (target, dir) {
                    (Target::Udt, _) => {
                        if m.forbid_excess_udt_fields {
                            worst(&mut res, Verdict::MustReject, "excess-udt-field-forbidden");
                        }
                    }
                    (Target::Row, Dir::Ser) => worst(&mut res, Verdict::MustReject, "bind-marker-without-struct-field"),
                    (Target::Row, Dir::De) => worst(&mut res, Verdict::Either, "de-row-excess-column-undocumented"),
                }
            }
        }
        (Flavor::Ordered, false) => {
            // names are checked: walk both lists; a leaf whose name is not next may only be stepped over
            // when it is allow_missing (UDT); everything after the last leaf is the excess suffix.
            let mut j = 0usize;
            let mut failed = false;
            for &i in &active {
                let leaf = &m.leaves[i];
                if j < db.len() && db[j].name == leaf.db_name {
                    leaf_to_db[i] = Some(j);
                    db_used[j] = true;
                    j += 1;
                } else if target == Target::Udt && leaf.allow_missing {
                    unbound(leaf, &mut res);
                } else {
                    failed = true;
                    break;
                }
            }
            if failed {
                worst(&mut res, Verdict::MustReject, "order-or-name-mismatch");
            } else if j < db.len() {
                let suffix = &db[j..];
                match (target, dir) {
                    (Target::Udt, _) => {
                        if m.forbid_excess_udt_fields {
                            worst(&mut res, Verdict::MustReject, "excess-udt-field-forbidden");
                        } else if suffix.iter().any(|f| active.iter().any(|&i| m.leaves[i].db_name == f.name)) {
                            worst(&mut res, Verdict::Unspecified, "declared-name-in-ignored-suffix");
                        }
                    }
                    (Target::Row, Dir::Ser) => worst(&mut res, Verdict::MustReject, "bind-marker-without-struct-field"),
                    (Target::Row, Dir::De) => worst(&mut res, Verdict::Either, "de-row-excess-column-undocumented"),
                }
            }
        }
        (Flavor::Ordered, true) => {
            // position only
            for (pos, &i) in active.iter().enumerate() {
                let leaf = &m.leaves[i];
                if pos < db.len() {
                    leaf_to_db[i] = Some(pos);
                    db_used[pos] = true;
                } else {
                    unbound(leaf, &mut res);
                }
            }
            if db.len() > active.len() {
                match (target, dir) {
                    (Target::Udt, _) => {
                        if m.forbid_excess_udt_fields {
                            worst(&mut res, Verdict::MustReject, "excess-udt-field-forbidden");
                        }
                    }
                    (Target::Row, Dir::Ser) => worst(&mut res, Verdict::MustReject, "bind-marker-without-struct-field"),
                    (Target::Row, Dir::De) => worst(&mut res, Verdict::Either, "de-row-excess-column-undocumented"),
                }
            }
        }
    }
    // a repeated database name: nothing is documented (by-name deserializers report a duplicate, by-name
    // serializers write the field twice) - only "no panic" is demanded
    let repeated_names = (0..db.len()).any(|i| (0..i).any(|j| db[i].name == db[j].name));
    // who supplies each database position
    let mut db_to_leaf: Vec<Option<usize>> = vec![None; db.len()];
    for (i, j) in leaf_to_db.iter().enumerate() {
        if let Some(j) = j {
            db_to_leaf[*j] = Some(i);
        }
    }
    let row_ser = target == Target::Row && dir == Dir::Ser;
    let mut repeated = repeated_names;
    if repeated_names && row_ser {
        // SerializeRow with a bind marker that occurs more than once. The documentation does not mention the
        // case; what it does say still applies (every column needs a struct field and vice versa, ordered
        // flavours compare position by position), and in the by-name flavour every occurrence of a name is a
        // column of its own that the like-named field has to fill. Success itself is not promised: Either.
        repeated = false;
        if m.flavor == Flavor::ByName {
            for (j, f) in db.iter().enumerate() {
                db_to_leaf[j] = active.iter().copied().find(|&i| m.leaves[i].db_name == f.name);
            }
            worst(&mut res, Verdict::Either, "repeated-bind-marker-undocumented");
        }
    } else if repeated_names {
        res = (Verdict::Unspecified, "repeated-db-name-undocumented");
    }
    let mut mismatched: Vec<usize> = db_to_leaf
        .iter()
        .enumerate()
        .filter_map(|(j, i)| i.filter(|i| db[j].kind != m.leaves[*i].kind))
        .collect();
    mismatched.sort_unstable();
    mismatched.dedup();
    Binding { verdict: res.0, reason: res.1, leaf_to_db, mismatched, repeated, db_to_leaf }
}

/// Names/order/count verdict combined with the static type check of every bound pair
/// ("Fields are still being type-checked"). This is the verdict of a `type_check` (deserialization) and
/// of a serialization in which every mismatched field carries a non-null value.
pub fn bind(m: &Model, db: &[DbField], target: Target, dir: Dir) -> Binding {
    let mut b = bind_names(m, db, target, dir);
    if !b.repeated {
        let mut res = (b.verdict, b.reason);
        if !b.mismatched.is_empty() {
            worst(&mut res, Verdict::MustReject, "type-mismatch");
        }
        // a nested derived struct type-checks its own field list
        for (i, j) in b.leaf_to_db.iter().enumerate() {
            if let (Some(j), Some(nm)) = (j, &m.leaves[i].nested) {
                if db[*j].kind == Kind::Udt {
                    let inner = bind(nm, &db[*j].fields, Target::Udt, dir);
                    worst(&mut res, inner.verdict, inner.reason);
                }
            }
        }
        b.verdict = res.0;
        b.reason = res.1;
    }
    b
}

/// Expected serialization.
#[derive(Clone, Debug)]
pub struct SerExpect {
    pub verdict: Verdict,
    pub reason: &'static str,
    /// per database position: the cell body (None = null / not supplied by the struct)
    pub cells: Vec<Option<Vec<u8>>>,
    /// number of leading cells that must be present in the output. UDT: cells after the last bound
    /// position may be written as null or not at all; rows: every cell must be present.
    pub min_cells: usize,
}

/// `vals` has one entry per leaf (also for skipped leaves; `Val::Null` only for optional leaves).
pub fn expect_ser(m: &Model, vals: &[Val], db: &[DbField], target: Target) -> SerExpect {
    assert_eq!(vals.len(), m.leaves.len());
    let mut b = bind_names(m, db, target, Dir::Ser);
    {
        // A mismatched field with a value must be refused. A mismatched `None` writes a null whatever the
        // column type is; nothing documents whether that is checked.
        let mut res = (b.verdict, b.reason);
        for &i in &b.mismatched {
            if vals[i] == Val::Null {
                worst(&mut res, Verdict::Either, "null-into-mismatched-type-undocumented");
            } else {
                worst(&mut res, Verdict::MustReject, "type-mismatch");
            }
        }
        if !b.repeated {
            b.verdict = res.0;
            b.reason = res.1;
        }
    }
    let mut cells: Vec<Option<Vec<u8>>> = vec![None; db.len()];
    let mut min_cells = 0usize;
    let mut res = (b.verdict, b.reason);
    for (j, i) in b.db_to_leaf.iter().enumerate() {
        if let Some(i) = *i {
            min_cells = min_cells.max(j + 1);
            match (&m.leaves[i].nested, &vals[i]) {
                (Some(nm), Val::Udt(inner_vals)) if db[j].kind == Kind::Udt => {
                    // the nested struct serializes itself against the nested field list; the expected
                    // cell is the canonical body (every nested position written)
                    let inner = expect_ser(nm, inner_vals, &db[j].fields, Target::Udt);
                    worst(&mut res, inner.verdict, inner.reason);
                    let mut body = Vec::new();
                    for c in &inner.cells {
                        write_cell(&mut body, c.as_deref());
                    }
                    cells[j] = Some(body);
                }
                (Some(nm), Val::Null) if db[j].kind == Kind::Udt => {
                    // None: nothing of the nested struct runs; undocumented whether its field list is checked
                    if bind(nm, &db[j].fields, Target::Udt, Dir::Ser).verdict != Verdict::MustAccept {
                        worst(&mut res, Verdict::Either, "null-into-mismatched-type-undocumented");
                    }
                }
                (Some(_), _) => {} // bound to a non-UDT column: already in `mismatched`
                (None, v) => cells[j] = v.encode(),
            }
        }
    }
    if !b.repeated {
        b.verdict = res.0;
        b.reason = res.1;
    }
    if target == Target::Row {
        min_cells = db.len();
    }
    SerExpect { verdict: b.verdict, reason: b.reason, cells, min_cells }
}

/// Compare the cells the driver produced with the expectation. `Err` describes the first difference.
pub fn compare_ser_cells(exp: &SerExpect, db: &[DbField], got: &[Option<Vec<u8>>]) -> Result<(), String> {
    if got.len() < exp.min_cells || got.len() > exp.cells.len() {
        return Err(format!("{} cells written, expected between {} and {}", got.len(), exp.min_cells, exp.cells.len()));
    }
    for (pos, g) in got.iter().enumerate() {
        let g = match (g, db[pos].kind) {
            (Some(body), Kind::Udt) => Some(canonical_body(&db[pos].fields, body).map_err(|e| format!("database position {pos}: nested UDT: {e}"))?),
            _ => g.clone(),
        };
        if g != exp.cells[pos] {
            return Err(format!("database position {pos}: wrote {:?}, expected {:?}", g, exp.cells[pos]));
        }
    }
    Ok(())
}

/// A UDT body with every position written (omitted trailing fields as nulls), nested bodies likewise.
pub fn canonical_body(fields: &[DbField], body: &[u8]) -> Result<Vec<u8>, String> {
    let cells = split_cells(body)?;
    if cells.len() > fields.len() {
        return Err(format!("{} cells for a UDT of {} fields", cells.len(), fields.len()));
    }
    let mut out = Vec::new();
    for (pos, f) in fields.iter().enumerate() {
        match (cells.get(pos), f.kind) {
            (Some(Some(b)), Kind::Udt) => write_cell(&mut out, Some(&canonical_body(&f.fields, b)?)),
            (Some(Some(b)), _) => write_cell(&mut out, Some(b)),
            _ => write_cell(&mut out, None),
        }
    }
    Ok(out)
}

/// Reference decoder: what a UDT body / row delivers at each position of `fields`.
pub fn cells_from_body(fields: &[DbField], body: &[u8]) -> Result<Vec<Cell>, String> {
    let cells = split_cells(body)?;
    if cells.len() > fields.len() {
        return Err(format!("{} cells for {} fields", cells.len(), fields.len()));
    }
    fields
        .iter()
        .enumerate()
        .map(|(pos, f)| {
            Ok(match (cells.get(pos), f.kind) {
                (None, _) => Cell::Absent,
                (Some(None), _) => Cell::Null,
                (Some(Some(b)), Kind::Udt) => Cell::Udt(cells_from_body(&f.fields, b)?),
                (Some(Some(b)), k) => Cell::Value(Val::decode(k, Some(b))?),
            })
        })
        .collect()
}

/// What the database delivered at one position.
#[derive(Clone, Debug, PartialEq, Eq)]
pub enum Cell {
    /// UDT value ended before this field (protocol: same as null)
    Absent,
    Null,
    Value(Val),
    /// a nested UDT value: what it delivers at each position of `DbField::fields`
    Udt(Vec<Cell>),
}

#[derive(Clone, Debug)]
pub struct DeExpect {
    pub verdict: Verdict,
    pub reason: &'static str,
    /// per leaf: value the struct must hold when deserialization succeeds
    pub vals: Vec<Val>,
}

pub fn expect_de(m: &Model, db: &[DbField], cells: &[Cell], target: Target) -> DeExpect {
    assert_eq!(db.len(), cells.len());
    let b = bind(m, db, target, Dir::De);
    let mut res = (b.verdict, b.reason);
    let mut vals = Vec::with_capacity(m.leaves.len());
    for (i, leaf) in m.leaves.iter().enumerate() {
        let dflt = default_of_leaf(leaf);
        let v = match b.leaf_to_db[i] {
            // skipped, or allow_missing and not in the database
            None => dflt,
            Some(j) => match &cells[j] {
                Cell::Value(v) => v.clone(),
                Cell::Udt(inner_cells) => match &leaf.nested {
                    Some(nm) if db[j].kind == Kind::Udt => {
                        let inner = expect_de(nm, &db[j].fields, inner_cells, Target::Udt);
                        worst(&mut res, inner.verdict, inner.reason);
                        Val::Udt(inner.vals)
                    }
                    _ => dflt, // type mismatch: already MustReject
                },
                Cell::Absent | Cell::Null => {
                    if leaf.optional {
                        Val::Null
                    } else if leaf.default_when_null {
                        dflt
                    } else if leaf.kind == Kind::ListInt {
                        // undocumented: the driver reads a null collection as an empty one
                        worst(&mut res, Verdict::Either, "null-into-non-option-list-undocumented");
                        Val::ListInt(Vec::new())
                    } else {
                        worst(&mut res, Verdict::MustReject, "null-into-non-option-field");
                        dflt
                    }
                }
            },
        };
        vals.push(v);
    }
    if b.repeated {
        res = (b.verdict, b.reason);
    }
    DeExpect { verdict: res.0, reason: res.1, vals }
}

/// Encode what the database delivers (reference encoder; independent of the driver's serializer).
pub fn encode_cells(cells: &[Cell]) -> Vec<u8> {
    let mut out = Vec::new();
    let mut ended = false;
    for c in cells {
        match c {
            Cell::Absent => ended = true,
            Cell::Null => {
                assert!(!ended, "Absent cells must form a suffix");
                write_cell(&mut out, None)
            }
            Cell::Value(v) => {
                assert!(!ended, "Absent cells must form a suffix");
                write_cell(&mut out, v.encode().as_deref())
            }
            Cell::Udt(inner) => {
                assert!(!ended, "Absent cells must form a suffix");
                write_cell(&mut out, Some(&encode_cells(inner)))
            }
        }
    }
    out
}

#[cfg(test)]
mod tests {
    use super::*;

    fn leaf(n: &str, k: Kind) -> Leaf {
        Leaf { rust_name: n.into(), db_name: n.into(), kind: k, optional: false, skip: false, allow_missing: false, default_when_null: false, nested: None }
    }
    fn f(n: &str, k: Kind) -> DbField {
        DbField::leaf(n, k)
    }

    // pinned from the repo's macros_tests.rs expectations (loose ordering UDT test)
    #[test]
    fn by_name_permuted() {
        let m = Model { flavor: Flavor::ByName, skip_name_checks: false, forbid_excess_udt_fields: false, leaves: vec![leaf("a", Kind::Text), leaf("b", Kind::Int), leaf("c", Kind::BigInt)] };
        let db = [f("b", Kind::Int), f("a", Kind::Text), f("c", Kind::BigInt)];
        let e = expect_ser(&m, &[Val::Text("x".into()), Val::Int(42), Val::BigInt(2137)], &db, Target::Udt);
        assert_eq!(e.verdict, Verdict::MustAccept);
        assert_eq!(e.cells[0], Some(vec![0, 0, 0, 42]));
        assert_eq!(e.cells[1], Some(b"x".to_vec()));
    }

    #[test]
    fn ordered_rejects_permutation() {
        let m = Model { flavor: Flavor::Ordered, skip_name_checks: false, forbid_excess_udt_fields: false, leaves: vec![leaf("a", Kind::Text), leaf("b", Kind::Int)] };
        let db = [f("b", Kind::Int), f("a", Kind::Text)];
        assert_eq!(bind(&m, &db, Target::Udt, Dir::De).verdict, Verdict::MustReject);
        let db = [f("a", Kind::Text), f("b", Kind::Int), f("d", Kind::Boolean)];
        assert_eq!(bind(&m, &db, Target::Udt, Dir::De).verdict, Verdict::MustAccept);
        assert_eq!(bind(&m, &db, Target::Row, Dir::Ser).verdict, Verdict::MustReject);
    }

    #[test]
    fn list_roundtrip() {
        let v = Val::ListInt(vec![1, -1]);
        assert_eq!(Val::decode(Kind::ListInt, v.encode().as_deref()).unwrap(), v);
    }
}
