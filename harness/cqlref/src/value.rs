//! cqlref::value - independent reference codec for CQL v4 values (DESIGN.md 1.3, C01/C17).
//!
//! Written from the native protocol v4 specification (section 6, "Data type serialization
//! formats"), Cassandra's `VIntCoding` (duration) and Cassandra 5.0's `VectorType` layout.
//! Shares no code with the crates under test and has no dependencies. Deliberately boring.
//!
//! Model
//! * `Type`   - a column type (20 natives, list/set/map, tuple, UDT, vector).
//! * `Value`  - a logical value; floats are carried as bit patterns, uuids/varints as raw bytes so that
//!              equality on `Value` is *bitwise* equality of what goes on the wire.
//! * `Cell`   - a `[value]` of the protocol: null (-1), not set (-2) or a byte body.
//! * `encode` - (type, value) -> cell, `decode` - (type, cell) -> canonical value,
//!   `canon`  - (type, value) -> the value a conforming decoder must hand back for it, computed
//!              structurally (without going through bytes); `decode(encode(v)) == canon(v)` is the
//!              reference's own consistency check and is asserted by the checks for every case.
//!
//! Canonical-form rules (each is a wire-level identity, not a liberty of the oracle):
//! * a tuple value with fewer elements than its type, or a UDT value that does not name every field,
//!   decodes with the missing positions as null;
//! * a zero-length body is the legacy "empty" value for every type except ascii/text/blob, where it is
//!   the empty string/blob (so `Empty` bound to text comes back as `""`, and a zero-byte varint, a tuple
//!   given zero elements, a 0-dimensional vector all come back as `Empty`).

use std::fmt;

#[derive(Clone, Copy, Debug, PartialEq, Eq, Hash, PartialOrd, Ord)]
pub enum Native {
    Ascii,
    Boolean,
    Blob,
    Counter,
    Date,
    Decimal,
    Double,
    Duration,
    Float,
    Int,
    BigInt,
    Text,
    Timestamp,
    Inet,
    SmallInt,
    TinyInt,
    Time,
    Timeuuid,
    Uuid,
    Varint,
}

impl Native {
    pub const ALL: [Native; 20] = [
        Native::Int,
        Native::Text,
        Native::Boolean,
        Native::BigInt,
        Native::Varint,
        Native::Ascii,
        Native::Blob,
        Native::Counter,
        Native::Date,
        Native::Decimal,
        Native::Double,
        Native::Duration,
        Native::Float,
        Native::Timestamp,
        Native::Inet,
        Native::SmallInt,
        Native::TinyInt,
        Native::Time,
        Native::Timeuuid,
        Native::Uuid,
    ];

    pub fn name(self) -> &'static str {
        match self {
            Native::Ascii => "ascii",
            Native::Boolean => "boolean",
            Native::Blob => "blob",
            Native::Counter => "counter",
            Native::Date => "date",
            Native::Decimal => "decimal",
            Native::Double => "double",
            Native::Duration => "duration",
            Native::Float => "float",
            Native::Int => "int",
            Native::BigInt => "bigint",
            Native::Text => "text",
            Native::Timestamp => "timestamp",
            Native::Inet => "inet",
            Native::SmallInt => "smallint",
            Native::TinyInt => "tinyint",
            Native::Time => "time",
            Native::Timeuuid => "timeuuid",
            Native::Uuid => "uuid",
            Native::Varint => "varint",
        }
    }

    pub fn from_name(s: &str) -> Option<Native> {
        Native::ALL.iter().copied().find(|n| n.name() == s)
    }

    /// Serialized width if Cassandra's `VectorType` treats the element type as fixed-length
    /// (`AbstractType.valueLengthIfFixed`): boolean 1, int/float 4, bigint/double/timestamp 8,
    /// uuid/timeuuid 16. Everything else (incl. tinyint, smallint, date, time, counter) is variable-length.
    pub fn vector_fixed_width(self) -> Option<usize> {
        match self {
            Native::Boolean => Some(1),
            Native::Int | Native::Float => Some(4),
            Native::BigInt | Native::Double | Native::Timestamp => Some(8),
            Native::Uuid | Native::Timeuuid => Some(16),
            _ => None,
        }
    }

    /// ascii/text/blob: a zero-length body is an ordinary value (the empty string), not "empty".
    pub fn is_stringish(self) -> bool {
        matches!(self, Native::Ascii | Native::Text | Native::Blob)
    }
}

#[derive(Clone, Debug, PartialEq, Eq, Hash, PartialOrd, Ord)]
pub enum Type {
    Native(Native),
    List(Box<Type>),
    Set(Box<Type>),
    Map(Box<Type>, Box<Type>),
    Tuple(Vec<Type>),
    Udt { keyspace: String, name: String, fields: Vec<(String, Type)> },
    Vector(Box<Type>, u16),
}

impl Type {
    pub fn depth(&self) -> usize {
        match self {
            Type::Native(_) => 0,
            Type::List(t) | Type::Set(t) | Type::Vector(t, _) => 1 + t.depth(),
            Type::Map(k, v) => 1 + k.depth().max(v.depth()),
            Type::Tuple(ts) => 1 + ts.iter().map(|t| t.depth()).max().unwrap_or(0),
            Type::Udt { fields, .. } => 1 + fields.iter().map(|(_, t)| t.depth()).max().unwrap_or(0),
        }
    }

    /// Width if a vector treats this as a fixed-length element (natives per table; vector of fixed = w x dim).
    pub fn vector_fixed_width(&self) -> Option<usize> {
        match self {
            Type::Native(n) => n.vector_fixed_width(),
            Type::Vector(t, d) => t.vector_fixed_width().map(|w| w * *d as usize),
            _ => None,
        }
    }

    pub fn is_stringish(&self) -> bool {
        matches!(self, Type::Native(n) if n.is_stringish())
    }

    /// Shape string without dimensions/names: used in stable violation keys.
    pub fn shape(&self) -> String {
        match self {
            Type::Native(n) => n.name().to_string(),
            Type::List(t) => format!("list<{}>", t.shape()),
            Type::Set(t) => format!("set<{}>", t.shape()),
            Type::Map(k, v) => format!("map<{},{}>", k.shape(), v.shape()),
            Type::Tuple(ts) => format!("tuple<{}>", ts.iter().map(|t| t.shape()).collect::<Vec<_>>().join(",")),
            Type::Udt { fields, .. } => format!("udt<{}>", fields.iter().map(|(_, t)| t.shape()).collect::<Vec<_>>().join(",")),
            Type::Vector(t, _) => format!("vector<{}>", t.shape()),
        }
    }
}

impl fmt::Display for Type {
    fn fmt(&self, f: &mut fmt::Formatter<'_>) -> fmt::Result {
        match self {
            Type::Native(n) => f.write_str(n.name()),
            Type::List(t) => write!(f, "list<{t}>"),
            Type::Set(t) => write!(f, "set<{t}>"),
            Type::Map(k, v) => write!(f, "map<{k},{v}>"),
            Type::Tuple(ts) => {
                f.write_str("tuple<")?;
                for (i, t) in ts.iter().enumerate() {
                    if i > 0 {
                        f.write_str(",")?;
                    }
                    write!(f, "{t}")?;
                }
                f.write_str(">")
            }
            Type::Udt { keyspace, name, fields } => {
                write!(f, "udt:{keyspace}.{name}<")?;
                for (i, (n, t)) in fields.iter().enumerate() {
                    if i > 0 {
                        f.write_str(",")?;
                    }
                    write!(f, "{n}:{t}")?;
                }
                f.write_str(">")
            }
            Type::Vector(t, d) => write!(f, "vector<{t},{d}>"),
        }
    }
}

/// Parse the `Display` form back (used by replay artefacts). Names must not contain `<>,:.`.
pub fn parse_type(s: &str) -> Result<Type, String> {
    let mut p = TypeParser { s: s.as_bytes(), i: 0 };
    let t = p.ty()?;
    if p.i != p.s.len() {
        return Err(format!("trailing input at {} in {s:?}", p.i));
    }
    Ok(t)
}

struct TypeParser<'a> {
    s: &'a [u8],
    i: usize,
}
impl TypeParser<'_> {
    fn ident(&mut self) -> String {
        let st = self.i;
        while self.i < self.s.len() && !b"<>,:.".contains(&self.s[self.i]) {
            self.i += 1;
        }
        String::from_utf8_lossy(&self.s[st..self.i]).into_owned()
    }
    fn eat(&mut self, c: u8) -> Result<(), String> {
        if self.i < self.s.len() && self.s[self.i] == c {
            self.i += 1;
            Ok(())
        } else {
            Err(format!("expected {:?} at {}", c as char, self.i))
        }
    }
    fn peek(&self) -> Option<u8> {
        self.s.get(self.i).copied()
    }
    fn ty(&mut self) -> Result<Type, String> {
        let id = self.ident();
        match id.as_str() {
            "list" | "set" => {
                self.eat(b'<')?;
                let t = self.ty()?;
                self.eat(b'>')?;
                Ok(if id == "list" { Type::List(Box::new(t)) } else { Type::Set(Box::new(t)) })
            }
            "map" => {
                self.eat(b'<')?;
                let k = self.ty()?;
                self.eat(b',')?;
                let v = self.ty()?;
                self.eat(b'>')?;
                Ok(Type::Map(Box::new(k), Box::new(v)))
            }
            "vector" => {
                self.eat(b'<')?;
                let t = self.ty()?;
                self.eat(b',')?;
                let d = self.ident().parse::<u16>().map_err(|e| e.to_string())?;
                self.eat(b'>')?;
                Ok(Type::Vector(Box::new(t), d))
            }
            "tuple" => {
                self.eat(b'<')?;
                let mut ts = Vec::new();
                if self.peek() == Some(b'>') {
                    self.i += 1;
                    return Ok(Type::Tuple(ts));
                }
                loop {
                    ts.push(self.ty()?);
                    if self.peek() == Some(b',') {
                        self.i += 1;
                    } else {
                        break;
                    }
                }
                self.eat(b'>')?;
                Ok(Type::Tuple(ts))
            }
            "udt" => {
                self.eat(b':')?;
                let keyspace = self.ident();
                self.eat(b'.')?;
                let name = self.ident();
                self.eat(b'<')?;
                let mut fields = Vec::new();
                if self.peek() == Some(b'>') {
                    self.i += 1;
                    return Ok(Type::Udt { keyspace, name, fields });
                }
                loop {
                    let n = self.ident();
                    self.eat(b':')?;
                    let t = self.ty()?;
                    fields.push((n, t));
                    if self.peek() == Some(b',') {
                        self.i += 1;
                    } else {
                        break;
                    }
                }
                self.eat(b'>')?;
                Ok(Type::Udt { keyspace, name, fields })
            }
            other => Native::from_name(other).map(Type::Native).ok_or_else(|| format!("unknown type name {other:?}")),
        }
    }
}

#[derive(Clone, Debug, PartialEq, Eq, Hash, PartialOrd, Ord)]
pub enum Value {
    /// null `[bytes]` (length -1); allowed wherever the protocol has a `[bytes]`/`[value]` slot.
    Null,
    /// "not set" (length -2); only meaningful as a top-level bound value.
    Unset,
    /// the zero-length legacy "empty" value.
    Empty,
    Ascii(String),
    Text(String),
    Blob(Vec<u8>),
    Boolean(bool),
    TinyInt(i8),
    SmallInt(i16),
    Int(i32),
    BigInt(i64),
    Counter(i64),
    /// IEEE-754 bit pattern (so NaN payloads and -0.0 are compared exactly)
    Float(u32),
    Double(u64),
    /// days since epoch, centred at 2^31
    Date(u32),
    /// nanoseconds since midnight
    Time(i64),
    /// milliseconds since epoch
    Timestamp(i64),
    Duration { months: i32, days: i32, nanos: i64 },
    /// 4 or 16 address bytes
    Inet(Vec<u8>),
    Uuid([u8; 16]),
    Timeuuid([u8; 16]),
    /// two's-complement big-endian bytes exactly as given (possibly sign-padded, possibly zero-length)
    Varint(Vec<u8>),
    Decimal { scale: i32, unscaled: Vec<u8> },
    List(Vec<Value>),
    Set(Vec<Value>),
    Map(Vec<(Value, Value)>),
    /// positional; may be shorter than the type; elements may be `Null`
    Tuple(Vec<Value>),
    /// bound by field *name* into the type's field order; unnamed fields are null
    Udt(Vec<(String, Value)>),
    Vector(Vec<Value>),
}

#[derive(Clone, Debug, PartialEq, Eq)]
pub enum Cell {
    Null,
    Unset,
    Bytes(Vec<u8>),
}

impl Cell {
    /// The `[value]` framing: 4-byte big-endian signed length, then the body; -1 null; -2 not set.
    pub fn framed(&self) -> Vec<u8> {
        match self {
            Cell::Null => (-1i32).to_be_bytes().to_vec(),
            Cell::Unset => (-2i32).to_be_bytes().to_vec(),
            Cell::Bytes(b) => {
                let mut v = (b.len() as i32).to_be_bytes().to_vec();
                v.extend_from_slice(b);
                v
            }
        }
    }
}

// ------------------------------------------------------------------------------------------------
// vints (Cassandra VIntCoding): the number of leading 1 bits of the first byte is the number of
// extra bytes; the remaining bits of the first byte are the most significant bits of the value.

pub fn unsigned_vint(v: u64) -> Vec<u8> {
    let bits = 64 - v.leading_zeros() as usize; // significant bits
    // n bytes carry 7n value bits for n = 1..8; 9 bytes carry 64
    let mut n = 9;
    for cand in 1..=8usize {
        if bits <= 7 * cand {
            n = cand;
            break;
        }
    }
    if n == 9 {
        let mut out = vec![0xFFu8];
        out.extend_from_slice(&v.to_be_bytes());
        return out;
    }
    let be = v.to_be_bytes();
    let mut out = be[8 - n..].to_vec();
    // prefix: n-1 one bits then a zero bit
    let prefix: u8 = if n == 1 { 0 } else { !(0xFFu8 >> (n - 1)) };
    out[0] |= prefix;
    out
}

pub fn read_unsigned_vint(buf: &mut &[u8]) -> Result<u64, String> {
    let first = *buf.first().ok_or("vint: no bytes")?;
    let extra = first.leading_ones() as usize;
    if buf.len() < 1 + extra {
        return Err(format!("vint: need {} bytes, have {}", 1 + extra, buf.len()));
    }
    let mut v: u64 = if extra >= 8 { 0 } else { (first & (0xFFu8 >> extra)) as u64 };
    for b in &buf[1..1 + extra] {
        v = (v << 8) | *b as u64;
    }
    *buf = &buf[1 + extra..];
    Ok(v)
}

pub fn zigzag(v: i64) -> u64 {
    ((v << 1) ^ (v >> 63)) as u64
}
pub fn unzigzag(u: u64) -> i64 {
    ((u >> 1) as i64) ^ -((u & 1) as i64)
}
pub fn signed_vint(v: i64) -> Vec<u8> {
    unsigned_vint(zigzag(v))
}

// ------------------------------------------------------------------------------------------------
// encode

#[derive(Clone, Copy, Debug, Default)]
pub struct EncodeOpts {
    /// Alternative, equally valid encoding: omit trailing null fields of UDT values (the protocol lets a
    /// UDT value carry fewer fields than the type, e.g. after ALTER TYPE ADD). Used to drive decoders.
    pub udt_drop_trailing_nulls: bool,
}

pub fn encode(t: &Type, v: &Value) -> Result<Cell, String> {
    encode_with(t, v, EncodeOpts::default())
}

pub fn encode_with(t: &Type, v: &Value, o: EncodeOpts) -> Result<Cell, String> {
    match v {
        Value::Null => Ok(Cell::Null),
        Value::Unset => Ok(Cell::Unset),
        _ => body(t, v, o).map(Cell::Bytes),
    }
}

fn put_bytes(out: &mut Vec<u8>, t: &Type, v: &Value, o: EncodeOpts) -> Result<(), String> {
    match v {
        Value::Null => out.extend_from_slice(&(-1i32).to_be_bytes()),
        Value::Unset => return Err("not-set inside a composite value".into()),
        _ => {
            let b = body(t, v, o)?;
            if b.len() > i32::MAX as usize {
                return Err("body too long".into());
            }
            out.extend_from_slice(&(b.len() as i32).to_be_bytes());
            out.extend_from_slice(&b);
        }
    }
    Ok(())
}

fn mismatch(t: &Type, v: &Value) -> String {
    format!("value {v:?} is not a value of type {t}")
}

/// Body of a non-null value.
fn body(t: &Type, v: &Value, o: EncodeOpts) -> Result<Vec<u8>, String> {
    if let Value::Empty = v {
        return Ok(Vec::new());
    }
    Ok(match (t, v) {
        (Type::Native(n), v) => match (n, v) {
            (Native::Ascii, Value::Ascii(s)) => {
                if !s.is_ascii() {
                    return Err("non-ascii in ascii".into());
                }
                s.as_bytes().to_vec()
            }
            (Native::Text, Value::Text(s)) => s.as_bytes().to_vec(),
            (Native::Blob, Value::Blob(b)) => b.clone(),
            (Native::Boolean, Value::Boolean(b)) => vec![*b as u8],
            (Native::TinyInt, Value::TinyInt(x)) => x.to_be_bytes().to_vec(),
            (Native::SmallInt, Value::SmallInt(x)) => x.to_be_bytes().to_vec(),
            (Native::Int, Value::Int(x)) => x.to_be_bytes().to_vec(),
            (Native::BigInt, Value::BigInt(x)) => x.to_be_bytes().to_vec(),
            (Native::Counter, Value::Counter(x)) => x.to_be_bytes().to_vec(),
            (Native::Float, Value::Float(bits)) => bits.to_be_bytes().to_vec(),
            (Native::Double, Value::Double(bits)) => bits.to_be_bytes().to_vec(),
            (Native::Date, Value::Date(d)) => d.to_be_bytes().to_vec(),
            (Native::Time, Value::Time(x)) => x.to_be_bytes().to_vec(),
            (Native::Timestamp, Value::Timestamp(x)) => x.to_be_bytes().to_vec(),
            (Native::Duration, Value::Duration { months, days, nanos }) => {
                let mut out = signed_vint(*months as i64);
                out.extend(signed_vint(*days as i64));
                out.extend(signed_vint(*nanos));
                out
            }
            (Native::Inet, Value::Inet(a)) => {
                if a.len() != 4 && a.len() != 16 {
                    return Err("inet must be 4 or 16 bytes".into());
                }
                a.clone()
            }
            (Native::Uuid, Value::Uuid(u)) => u.to_vec(),
            (Native::Timeuuid, Value::Timeuuid(u)) => u.to_vec(),
            (Native::Varint, Value::Varint(b)) => b.clone(),
            (Native::Decimal, Value::Decimal { scale, unscaled }) => {
                let mut out = scale.to_be_bytes().to_vec();
                out.extend_from_slice(unscaled);
                out
            }
            _ => return Err(mismatch(t, v)),
        },
        (Type::List(et), Value::List(xs)) | (Type::Set(et), Value::Set(xs)) => {
            let mut out = (xs.len() as i32).to_be_bytes().to_vec();
            for x in xs {
                put_bytes(&mut out, et, x, o)?;
            }
            out
        }
        (Type::Map(kt, vt), Value::Map(kvs)) => {
            let mut out = (kvs.len() as i32).to_be_bytes().to_vec();
            for (k, x) in kvs {
                put_bytes(&mut out, kt, k, o)?;
                put_bytes(&mut out, vt, x, o)?;
            }
            out
        }
        (Type::Tuple(ts), Value::Tuple(xs)) => {
            if xs.len() > ts.len() {
                return Err("tuple value longer than its type".into());
            }
            let mut out = Vec::new();
            for (x, et) in xs.iter().zip(ts) {
                put_bytes(&mut out, et, x, o)?;
            }
            out
        }
        (Type::Udt { fields, .. }, Value::Udt(named)) => {
            for (i, (n, _)) in named.iter().enumerate() {
                if !fields.iter().any(|(fname, _)| fname == n) {
                    return Err(format!("UDT value names unknown field {n:?}"));
                }
                if named[..i].iter().any(|(m, _)| m == n) {
                    return Err(format!("UDT value names field {n:?} twice"));
                }
            }
            let ordered: Vec<(&Type, &Value)> = fields
                .iter()
                .map(|(fname, ft)| (ft, named.iter().find(|(n, _)| n == fname).map(|(_, x)| x).unwrap_or(&Value::Null)))
                .collect();
            let mut keep = ordered.len();
            if o.udt_drop_trailing_nulls {
                while keep > 0 && *ordered[keep - 1].1 == Value::Null {
                    keep -= 1;
                }
            }
            let mut out = Vec::new();
            for (ft, x) in &ordered[..keep] {
                put_bytes(&mut out, ft, x, o)?;
            }
            out
        }
        (Type::Vector(et, dim), Value::Vector(xs)) => {
            if xs.len() != *dim as usize {
                return Err(format!("vector value has {} elements, type has dimension {dim}", xs.len()));
            }
            let mut out = Vec::new();
            let fixed = et.vector_fixed_width();
            for x in xs {
                if matches!(x, Value::Null | Value::Unset) {
                    return Err("vector elements cannot be null".into());
                }
                let b = body(et, x, o)?;
                match fixed {
                    Some(w) => {
                        if b.len() != w {
                            return Err(format!("fixed-width vector element has {} bytes, expected {w}", b.len()));
                        }
                    }
                    None => out.extend(unsigned_vint(b.len() as u64)),
                }
                out.extend_from_slice(&b);
            }
            out
        }
        _ => return Err(mismatch(t, v)),
    })
}

// ------------------------------------------------------------------------------------------------
// decode

pub fn decode(t: &Type, c: &Cell) -> Result<Value, String> {
    match c {
        Cell::Null => Ok(Value::Null),
        Cell::Unset => Err("not-set is not decodable".into()),
        Cell::Bytes(b) => decode_body(t, b),
    }
}

fn take<'a>(buf: &mut &'a [u8], n: usize) -> Result<&'a [u8], String> {
    if buf.len() < n {
        return Err(format!("need {n} bytes, have {}", buf.len()));
    }
    let (a, b) = buf.split_at(n);
    *buf = b;
    Ok(a)
}

fn take_i32(buf: &mut &[u8]) -> Result<i32, String> {
    let b = take(buf, 4)?;
    Ok(i32::from_be_bytes([b[0], b[1], b[2], b[3]]))
}

/// One `[bytes]`: None for null.
fn take_bytes<'a>(buf: &mut &'a [u8]) -> Result<Option<&'a [u8]>, String> {
    let n = take_i32(buf)?;
    if n < 0 {
        return Ok(None);
    }
    take(buf, n as usize).map(Some)
}

fn decode_slot(t: &Type, buf: &mut &[u8]) -> Result<Value, String> {
    match take_bytes(buf)? {
        None => Ok(Value::Null),
        Some(b) => decode_body(t, b),
    }
}

fn exact<const N: usize>(b: &[u8]) -> Result<[u8; N], String> {
    <[u8; N]>::try_from(b).map_err(|_| format!("expected {N} bytes, got {}", b.len()))
}

pub fn decode_body(t: &Type, b: &[u8]) -> Result<Value, String> {
    if b.is_empty() && !t.is_stringish() {
        return Ok(Value::Empty);
    }
    Ok(match t {
        Type::Native(n) => match n {
            Native::Ascii => {
                if !b.is_ascii() {
                    return Err("non-ascii bytes in ascii".into());
                }
                Value::Ascii(String::from_utf8(b.to_vec()).map_err(|e| e.to_string())?)
            }
            Native::Text => Value::Text(String::from_utf8(b.to_vec()).map_err(|e| e.to_string())?),
            Native::Blob => Value::Blob(b.to_vec()),
            Native::Boolean => Value::Boolean(exact::<1>(b)?[0] != 0),
            Native::TinyInt => Value::TinyInt(i8::from_be_bytes(exact(b)?)),
            Native::SmallInt => Value::SmallInt(i16::from_be_bytes(exact(b)?)),
            Native::Int => Value::Int(i32::from_be_bytes(exact(b)?)),
            Native::BigInt => Value::BigInt(i64::from_be_bytes(exact(b)?)),
            Native::Counter => Value::Counter(i64::from_be_bytes(exact(b)?)),
            Native::Float => Value::Float(u32::from_be_bytes(exact(b)?)),
            Native::Double => Value::Double(u64::from_be_bytes(exact(b)?)),
            Native::Date => Value::Date(u32::from_be_bytes(exact(b)?)),
            Native::Time => Value::Time(i64::from_be_bytes(exact(b)?)),
            Native::Timestamp => Value::Timestamp(i64::from_be_bytes(exact(b)?)),
            Native::Duration => {
                let mut r = b;
                let months = unzigzag(read_unsigned_vint(&mut r)?);
                let days = unzigzag(read_unsigned_vint(&mut r)?);
                let nanos = unzigzag(read_unsigned_vint(&mut r)?);
                if !r.is_empty() {
                    return Err("trailing bytes after duration".into());
                }
                Value::Duration {
                    months: i32::try_from(months).map_err(|_| "duration months out of range")?,
                    days: i32::try_from(days).map_err(|_| "duration days out of range")?,
                    nanos,
                }
            }
            Native::Inet => {
                if b.len() != 4 && b.len() != 16 {
                    return Err(format!("inet of {} bytes", b.len()));
                }
                Value::Inet(b.to_vec())
            }
            Native::Uuid => Value::Uuid(exact(b)?),
            Native::Timeuuid => Value::Timeuuid(exact(b)?),
            Native::Varint => Value::Varint(b.to_vec()),
            Native::Decimal => {
                let mut r = b;
                let scale = take_i32(&mut r)?;
                Value::Decimal { scale, unscaled: r.to_vec() }
            }
        },
        Type::List(et) | Type::Set(et) => {
            let mut r = b;
            let n = take_i32(&mut r)?;
            if n < 0 {
                return Err("negative element count".into());
            }
            let mut xs = Vec::new();
            for _ in 0..n {
                xs.push(decode_slot(et, &mut r)?);
            }
            if matches!(t, Type::List(_)) { Value::List(xs) } else { Value::Set(xs) }
        }
        Type::Map(kt, vt) => {
            let mut r = b;
            let n = take_i32(&mut r)?;
            if n < 0 {
                return Err("negative element count".into());
            }
            let mut kvs = Vec::new();
            for _ in 0..n {
                let k = decode_slot(kt, &mut r)?;
                let v = decode_slot(vt, &mut r)?;
                kvs.push((k, v));
            }
            Value::Map(kvs)
        }
        Type::Tuple(ts) => {
            let mut r = b;
            let mut xs = Vec::new();
            for et in ts {
                if r.is_empty() {
                    xs.push(Value::Null); // fewer fields than the type: the rest is null
                } else {
                    xs.push(decode_slot(et, &mut r)?);
                }
            }
            Value::Tuple(xs)
        }
        Type::Udt { fields, .. } => {
            let mut r = b;
            let mut xs = Vec::new();
            for (n, ft) in fields {
                if r.is_empty() {
                    xs.push((n.clone(), Value::Null));
                } else {
                    xs.push((n.clone(), decode_slot(ft, &mut r)?));
                }
            }
            Value::Udt(xs)
        }
        Type::Vector(et, dim) => {
            let mut r = b;
            let mut xs = Vec::new();
            let fixed = et.vector_fixed_width();
            for _ in 0..*dim {
                let eb = match fixed {
                    Some(w) => take(&mut r, w)?,
                    None => {
                        let n = read_unsigned_vint(&mut r)?;
                        take(&mut r, n as usize)?
                    }
                };
                xs.push(decode_body(et, eb)?);
            }
            Value::Vector(xs)
        }
    })
}

// ------------------------------------------------------------------------------------------------
// canonical form (what a conforming decoder returns for `encode(t, v)`), computed without bytes

pub fn canon(t: &Type, v: &Value) -> Result<Value, String> {
    Ok(match (t, v) {
        (_, Value::Null) => Value::Null,
        (_, Value::Unset) => return Err("not-set has no decoded form".into()),
        (Type::Native(Native::Ascii), Value::Empty) => Value::Ascii(String::new()),
        (Type::Native(Native::Text), Value::Empty) => Value::Text(String::new()),
        (Type::Native(Native::Blob), Value::Empty) => Value::Blob(Vec::new()),
        (_, Value::Empty) => Value::Empty,
        (Type::Native(Native::Varint), Value::Varint(b)) if b.is_empty() => Value::Empty,
        (Type::Native(_), v) => {
            // validity is the encoder's business
            v.clone()
        }
        (Type::List(et), Value::List(xs)) => Value::List(xs.iter().map(|x| canon(et, x)).collect::<Result<_, _>>()?),
        (Type::Set(et), Value::Set(xs)) => Value::Set(xs.iter().map(|x| canon(et, x)).collect::<Result<_, _>>()?),
        (Type::Map(kt, vt), Value::Map(kvs)) => Value::Map(kvs.iter().map(|(k, x)| Ok((canon(kt, k)?, canon(vt, x)?))).collect::<Result<_, String>>()?),
        (Type::Tuple(ts), Value::Tuple(xs)) => {
            if xs.is_empty() {
                // zero fields written: a zero-length body
                return Ok(Value::Empty);
            }
            let mut out = Vec::new();
            for (i, et) in ts.iter().enumerate() {
                out.push(match xs.get(i) {
                    Some(x) => canon(et, x)?,
                    None => Value::Null,
                });
            }
            Value::Tuple(out)
        }
        (Type::Udt { fields, .. }, Value::Udt(named)) => {
            if fields.is_empty() {
                return Ok(Value::Empty);
            }
            let mut out = Vec::new();
            for (n, ft) in fields {
                let x = named.iter().find(|(m, _)| m == n).map(|(_, x)| x).unwrap_or(&Value::Null);
                out.push((n.clone(), canon(ft, x)?));
            }
            Value::Udt(out)
        }
        (Type::Vector(et, _), Value::Vector(xs)) => {
            if xs.is_empty() || et.vector_fixed_width() == Some(0) {
                return Ok(Value::Empty); // zero-length body
            }
            Value::Vector(xs.iter().map(|x| canon(et, x)).collect::<Result<_, _>>()?)
        }
        _ => return Err(mismatch(t, v)),
    })
}

/// True if the canonical form of this (type, value) differs from the value only by the stated rules
/// having fired somewhere (short tuple/UDT padded, zero-length aliasing). For counters.
pub fn is_padded_or_aliased(t: &Type, v: &Value) -> bool {
    match canon(t, v) {
        Ok(c) => &c != v,
        Err(_) => false,
    }
}

/// Immediate sub-cases (child type, child value) of a composite case; used to shrink counterexamples.
pub fn children<'a>(t: &'a Type, v: &'a Value) -> Vec<(&'a Type, &'a Value)> {
    match (t, v) {
        (Type::List(et), Value::List(xs)) | (Type::Set(et), Value::Set(xs)) | (Type::Vector(et, _), Value::Vector(xs)) => xs.iter().map(|x| (&**et, x)).collect(),
        (Type::Map(kt, vt), Value::Map(kvs)) => kvs.iter().flat_map(|(k, x)| [(&**kt, k), (&**vt, x)]).collect(),
        (Type::Tuple(ts), Value::Tuple(xs)) => ts.iter().zip(xs).collect(),
        (Type::Udt { fields, .. }, Value::Udt(named)) => named.iter().filter_map(|(n, x)| fields.iter().find(|(m, _)| m == n).map(|(_, ft)| (ft, x))).collect(),
        _ => Vec::new(),
    }
}

// ------------------------------------------------------------------------------------------------
// pinned vectors (taken from the repository's unit tests; a wrong reference must show up here)

/// Runs the reference against byte vectors pinned in the driver's own unit tests
/// (frame/types.rs vint table, serialize/value_tests.rs, deserialize/value_tests.rs). Returns the
/// number of vectors checked or a description of the first disagreement.
pub fn self_test() -> Result<usize, String> {
    let mut n = 0usize;
    // unsigned vint table (subset covering every length and both edges of each length)
    let vints: &[(u64, &[u8])] = &[
        (0, &[0]),
        (1, &[1]),
        (127, &[127]),
        (128, &[128, 128]),
        (129, &[128, 129]),
        (255, &[128, 255]),
        (256, &[129, 0]),
        ((1 << 14) - 1, &[191, 255]),
        (1 << 14, &[192, 64, 0]),
        ((1 << 21) - 1, &[223, 255, 255]),
        (1 << 21, &[224, 32, 0, 0]),
        ((1 << 28) - 1, &[239, 255, 255, 255]),
        (1 << 28, &[240, 16, 0, 0, 0]),
        ((1 << 30) - 1, &[240, 63, 255, 255, 255]),
        ((1 << 57) - 1, &[255, 1, 255, 255, 255, 255, 255, 255, 255]),
        (1 << 57, &[255, 2, 0, 0, 0, 0, 0, 0, 0]),
        ((1 << 63) + 1, &[255, 128, 0, 0, 0, 0, 0, 0, 1]),
        (u64::MAX, &[255, 255, 255, 255, 255, 255, 255, 255, 255]),
    ];
    for (v, b) in vints {
        if unsigned_vint(*v) != *b {
            return Err(format!("unsigned_vint({v}) = {:?}, pinned {:?}", unsigned_vint(*v), b));
        }
        let mut r: &[u8] = b;
        if read_unsigned_vint(&mut r) != Ok(*v) || !r.is_empty() {
            return Err(format!("read_unsigned_vint({b:?}) != {v}"));
        }
        n += 1;
    }
    for (i, z) in [(0i64, 0u64), (-1, 1), (1, 2), (-2, 3), (2, 4), (-3, 5), (3, 6)] {
        if zigzag(i) != z || unzigzag(z) != i {
            return Err(format!("zigzag({i})"));
        }
        n += 1;
    }
    let nat = |x: Native| Type::Native(x);
    let mut triples: Vec<(Type, Value, Vec<u8>)> = vec![
        (nat(Native::Duration), Value::Duration { months: 1, days: 2, nanos: 3 }, vec![0, 0, 0, 3, 2, 4, 6]),
        (nat(Native::Int), Value::Empty, vec![0, 0, 0, 0]),
        (nat(Native::Int), Value::Int(123), vec![0, 0, 0, 4, 0, 0, 0, 123]),
        (nat(Native::Boolean), Value::Boolean(true), vec![0, 0, 0, 1, 1]),
        (nat(Native::Text), Value::Text("ala".into()), vec![0, 0, 0, 3, b'a', b'l', b'a']),
        (nat(Native::Inet), Value::Inet(vec![1, 2, 3, 4]), vec![0, 0, 0, 4, 1, 2, 3, 4]),
        (nat(Native::Date), Value::Date(1 << 31), vec![0, 0, 0, 4, 128, 0, 0, 0]),
        (nat(Native::Counter), Value::Counter(0x0123456789abcdef), vec![0, 0, 0, 8, 0x01, 0x23, 0x45, 0x67, 0x89, 0xab, 0xcd, 0xef]),
        (nat(Native::Int), Value::Null, vec![255, 255, 255, 255]),
        (nat(Native::Int), Value::Unset, vec![255, 255, 255, 254]),
        (
            Type::Vector(Box::new(nat(Native::Int)), 2),
            Value::Vector(vec![Value::Int(1), Value::Int(2)]),
            vec![0, 0, 0, 8, 0, 0, 0, 1, 0, 0, 0, 2],
        ),
        (
            Type::List(Box::new(nat(Native::Int))),
            Value::List(vec![Value::Int(1), Value::Int(2)]),
            vec![0, 0, 0, 20, 0, 0, 0, 2, 0, 0, 0, 4, 0, 0, 0, 1, 0, 0, 0, 4, 0, 0, 0, 2],
        ),
        (
            Type::Map(Box::new(nat(Native::Int)), Box::new(nat(Native::Boolean))),
            Value::Map(vec![(Value::Int(1), Value::Boolean(false))]),
            vec![0, 0, 0, 17, 0, 0, 0, 1, 0, 0, 0, 4, 0, 0, 0, 1, 0, 0, 0, 1, 0],
        ),
    ];
    // varint cases "from the spec" (serialize/value_tests.rs), also as decimal with exponent
    for (bytes, _i) in [(vec![0x00u8], 0i64), (vec![0x01], 1), (vec![0x7F], 127), (vec![0x00, 0x80], 128), (vec![0x00, 0x81], 129), (vec![0xFF], -1), (vec![0x80], -128), (vec![0xFF, 0x7F], -129)] {
        let mut framed = (bytes.len() as i32).to_be_bytes().to_vec();
        framed.extend_from_slice(&bytes);
        triples.push((nat(Native::Varint), Value::Varint(bytes.clone()), framed));
        let mut framed = (bytes.len() as i32 + 4).to_be_bytes().to_vec();
        framed.extend_from_slice(&(-7i32).to_be_bytes());
        framed.extend_from_slice(&bytes);
        triples.push((nat(Native::Decimal), Value::Decimal { scale: -7, unscaled: bytes }, framed));
    }
    // UDT by name / tuple prefix (cqlvalue_serialization)
    let udt_t = Type::Udt { keyspace: "ks".into(), name: "t".into(), fields: vec![("foo".into(), nat(Native::Int)), ("bar".into(), nat(Native::Text))] };
    let udt_bytes = vec![0, 0, 0, 12, 0, 0, 0, 4, 0, 0, 0, 123, 255, 255, 255, 255];
    triples.push((udt_t.clone(), Value::Udt(vec![("foo".into(), Value::Int(123)), ("bar".into(), Value::Null)]), udt_bytes.clone()));
    triples.push((udt_t.clone(), Value::Udt(vec![("bar".into(), Value::Null), ("foo".into(), Value::Int(123))]), udt_bytes.clone()));
    triples.push((udt_t, Value::Udt(vec![("foo".into(), Value::Int(123))]), udt_bytes.clone()));
    triples.push((Type::Tuple(vec![nat(Native::Int), nat(Native::Text)]), Value::Tuple(vec![Value::Int(123), Value::Null]), udt_bytes.clone()));
    triples.push((Type::Tuple(vec![nat(Native::Int), nat(Native::Text), nat(Native::Counter)]), Value::Tuple(vec![Value::Int(123), Value::Null]), udt_bytes));
    for (t, v, b) in &triples {
        let cell = encode(t, v)?;
        if cell.framed() != *b {
            return Err(format!("encode({t}, {v:?}) = {:?}, pinned {:?}", cell.framed(), b));
        }
        if *v != Value::Unset {
            let back = decode(t, &cell)?;
            let want = canon(t, v)?;
            if back != want {
                return Err(format!("decode(encode({t}, {v:?})) = {back:?}, canon = {want:?}"));
            }
        }
        // display/parse of types
        if parse_type(&t.to_string()).as_ref() != Ok(t) {
            return Err(format!("type display/parse does not round-trip for {t}"));
        }
        n += 1;
    }
    Ok(n)
}

#[cfg(test)]
mod tests {
    #[test]
    fn pinned() {
        super::self_test().unwrap();
    }
}
