//! response encoder (filled in below)
