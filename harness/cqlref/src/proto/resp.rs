//! Response side of the reference codec: a plain data model of every CQL v4 response (plus the
//! ScyllaDB extensions the driver understands) and an encoder that records the position of every
//! length / count / flag / id field it writes (`W::fields`). Written from native_protocol_v4.spec
//! sections 4.2 (responses), 4.2.5.2 (rows metadata), 4.2.5.4 (prepared), 4.2.6 (events), 9 (errors).

use super::{Comp, FieldKind as K, W};

// ---------------------------------------------------------------------------------------------
// column types
// ---------------------------------------------------------------------------------------------

#[derive(Debug, Clone, PartialEq, Eq)]
pub enum Ty {
    /// native type by protocol id (0x0001..0x0015 except 0x000A)
    Native(u16),
    /// id 0x0000 with an arbitrary class string (used for unparseable / unknown classes)
    CustomRaw(String),
    List(Box<Ty>),
    Set(Box<Ty>),
    Map(Box<Ty>, Box<Ty>),
    Udt { ks: String, name: String, fields: Vec<(String, Ty)> },
    Tuple(Vec<Ty>),
    /// no binary id in v4: always sent as custom class `VectorType(<elem class>, <dim>)`
    Vector(Box<Ty>, u16),
    /// send the inner type as a custom class string (id 0x0000) instead of its binary id
    AsClass(Box<Ty>),
}

pub mod native {
    pub const ASCII: u16 = 0x01;
    pub const BIGINT: u16 = 0x02;
    pub const BLOB: u16 = 0x03;
    pub const BOOLEAN: u16 = 0x04;
    pub const COUNTER: u16 = 0x05;
    pub const DECIMAL: u16 = 0x06;
    pub const DOUBLE: u16 = 0x07;
    pub const FLOAT: u16 = 0x08;
    pub const INT: u16 = 0x09;
    pub const TIMESTAMP: u16 = 0x0B;
    pub const UUID: u16 = 0x0C;
    pub const TEXT: u16 = 0x0D;
    pub const VARINT: u16 = 0x0E;
    pub const TIMEUUID: u16 = 0x0F;
    pub const INET: u16 = 0x10;
    pub const DATE: u16 = 0x11;
    pub const TIME: u16 = 0x12;
    pub const SMALLINT: u16 = 0x13;
    pub const TINYINT: u16 = 0x14;
    pub const DURATION: u16 = 0x15;
    pub const ALL: [u16; 20] = [ASCII, BIGINT, BLOB, BOOLEAN, COUNTER, DECIMAL, DOUBLE, FLOAT, INT, TIMESTAMP, UUID, TEXT, VARINT, TIMEUUID, INET, DATE, TIME, SMALLINT, TINYINT, DURATION];
}

/// CQL name of a native id (the vocabulary of the canonical dumps)
pub fn native_name(id: u16) -> &'static str {
    match id {
        0x01 => "ascii",
        0x02 => "bigint",
        0x03 => "blob",
        0x04 => "boolean",
        0x05 => "counter",
        0x06 => "decimal",
        0x07 => "double",
        0x08 => "float",
        0x09 => "int",
        0x0B => "timestamp",
        0x0C => "uuid",
        0x0D => "text",
        0x0E => "varint",
        0x0F => "timeuuid",
        0x10 => "inet",
        0x11 => "date",
        0x12 => "time",
        0x13 => "smallint",
        0x14 => "tinyint",
        0x15 => "duration",
        _ => "?",
    }
}

/// Java marshal class of a native id (Cassandra's AbstractType names)
fn native_class(id: u16) -> &'static str {
    match id {
        0x01 => "AsciiType",
        0x02 => "LongType",
        0x03 => "BytesType",
        0x04 => "BooleanType",
        0x05 => "CounterColumnType",
        0x06 => "DecimalType",
        0x07 => "DoubleType",
        0x08 => "FloatType",
        0x09 => "Int32Type",
        0x0B => "TimestampType",
        0x0C => "UUIDType",
        0x0D => "UTF8Type",
        0x0E => "IntegerType",
        0x0F => "TimeUUIDType",
        0x10 => "InetAddressType",
        0x11 => "SimpleDateType",
        0x12 => "TimeType",
        0x13 => "ShortType",
        0x14 => "ByteType",
        0x15 => "DurationType",
        _ => "UnknownType",
    }
}

fn hex(s: &str) -> String {
    s.bytes().map(|b| format!("{b:02x}")).collect()
}

const MARSHAL: &str = "org.apache.cassandra.db.marshal.";

/// The class string Cassandra/ScyllaDB would send for a type (TypeParser syntax).
pub fn class_string(t: &Ty) -> String {
    match t {
        Ty::Native(id) => format!("{MARSHAL}{}", native_class(*id)),
        Ty::CustomRaw(s) => s.clone(),
        Ty::List(e) => format!("{MARSHAL}ListType({})", class_string(e)),
        Ty::Set(e) => format!("{MARSHAL}SetType({})", class_string(e)),
        Ty::Map(k, v) => format!("{MARSHAL}MapType({},{})", class_string(k), class_string(v)),
        Ty::Tuple(ts) => format!("{MARSHAL}TupleType({})", ts.iter().map(class_string).collect::<Vec<_>>().join(",")),
        Ty::Udt { ks, name, fields } => {
            let mut s = format!("{MARSHAL}UserType({ks},{}", hex(name));
            for (f, t) in fields {
                s.push_str(&format!(",{}:{}", hex(f), class_string(t)));
            }
            s.push(')');
            s
        }
        Ty::Vector(e, d) => format!("{MARSHAL}VectorType({}, {d})", class_string(e)),
        Ty::AsClass(t) => class_string(t),
    }
}

/// Canonical text of the type a conforming decoder arrives at.
pub fn type_dump(t: &Ty) -> String {
    match t {
        Ty::Native(id) => native_name(*id).to_string(),
        Ty::CustomRaw(s) => format!("custom<{s}>"),
        Ty::List(e) => format!("list<{}>", type_dump(e)),
        Ty::Set(e) => format!("set<{}>", type_dump(e)),
        Ty::Map(k, v) => format!("map<{},{}>", type_dump(k), type_dump(v)),
        Ty::Tuple(ts) => format!("tuple<{}>", ts.iter().map(type_dump).collect::<Vec<_>>().join(",")),
        Ty::Udt { ks, name, fields } => format!("udt<{ks}.{name}{{{}}}>", fields.iter().map(|(f, t)| format!("{f}:{}", type_dump(t))).collect::<Vec<_>>().join(",")),
        Ty::Vector(e, d) => format!("vector<{},{d}>", type_dump(e)),
        Ty::AsClass(t) => type_dump(t),
    }
}

pub fn encode_type(w: &mut W, t: &Ty) {
    match t {
        Ty::Native(id) => w.u16f("type.id", K::Id, *id),
        Ty::CustomRaw(s) => {
            w.u16f("type.id", K::Id, 0);
            w.string("type.custom.len", s);
        }
        Ty::Vector(..) | Ty::AsClass(_) => {
            w.u16f("type.id", K::Id, 0);
            w.string("type.custom.len", &class_string(t));
        }
        Ty::List(e) => {
            w.u16f("type.id", K::Id, 0x20);
            encode_type(w, e);
        }
        Ty::Map(k, v) => {
            w.u16f("type.id", K::Id, 0x21);
            encode_type(w, k);
            encode_type(w, v);
        }
        Ty::Set(e) => {
            w.u16f("type.id", K::Id, 0x22);
            encode_type(w, e);
        }
        Ty::Udt { ks, name, fields } => {
            w.u16f("type.id", K::Id, 0x30);
            w.string("type.udt.ks.len", ks);
            w.string("type.udt.name.len", name);
            w.u16f("type.udt.nfields", K::Count, fields.len() as u16);
            for (f, t) in fields {
                w.string("type.udt.field.len", f);
                encode_type(w, t);
            }
        }
        Ty::Tuple(ts) => {
            w.u16f("type.id", K::Id, 0x31);
            w.u16f("type.tuple.n", K::Count, ts.len() as u16);
            for t in ts {
                encode_type(w, t);
            }
        }
    }
}

// ---------------------------------------------------------------------------------------------
// response model
// ---------------------------------------------------------------------------------------------

#[derive(Debug, Clone, PartialEq, Eq)]
pub struct ColSpec {
    pub ks: String,
    pub table: String,
    pub name: String,
    pub ty: Ty,
}

/// `<metadata>` of a Rows result (4.2.5.2) with ScyllaDB's metadata-id extension bit 0x0008.
#[derive(Debug, Clone, PartialEq, Eq)]
pub struct RowsMeta {
    /// Some => Global_tables_spec flag; columns then carry no table spec on the wire
    pub global: Option<(String, String)>,
    /// Some => Has_more_pages flag
    pub paging_state: Option<Vec<u8>>,
    pub no_metadata: bool,
    /// Some => Metadata_changed flag (only meaningful when the extension is negotiated)
    pub new_metadata_id: Option<Vec<u8>>,
    pub cols: Vec<ColSpec>,
}

#[derive(Debug, Clone, PartialEq, Eq)]
pub struct Rows {
    pub meta: RowsMeta,
    /// each row has `meta.cols.len()` cells; None = null
    pub rows: Vec<Vec<Option<Vec<u8>>>>,
}

#[derive(Debug, Clone, PartialEq, Eq)]
pub struct Prepared {
    pub id: Vec<u8>,
    /// written iff the metadata-id extension is negotiated
    pub result_metadata_id: Vec<u8>,
    pub global: Option<(String, String)>,
    pub pk_indexes: Vec<u16>,
    pub cols: Vec<ColSpec>,
    pub result: RowsMeta,
}

#[derive(Debug, Clone, PartialEq, Eq)]
pub enum SchemaTarget {
    Keyspace,
    Table(String),
    Type(String),
    Function(String, Vec<String>),
    Aggregate(String, Vec<String>),
}

#[derive(Debug, Clone, PartialEq, Eq)]
pub struct SchemaChange {
    /// CREATED / UPDATED / DROPPED (anything else is passed through)
    pub change: String,
    pub keyspace: String,
    pub target: SchemaTarget,
}

#[derive(Debug, Clone, PartialEq, Eq)]
pub struct Inet {
    pub addr: Vec<u8>,
    pub port: i32,
}

#[derive(Debug, Clone, PartialEq, Eq)]
pub enum Event {
    Topology { change: String, addr: Inet },
    Status { change: String, addr: Inet },
    Schema(SchemaChange),
    ClientRoutes { change: String, connection_ids: Vec<String>, host_ids: Vec<String> },
}

#[derive(Debug, Clone, PartialEq, Eq)]
pub enum ErrExtra {
    None,
    Unavailable { cl: u16, required: i32, alive: i32 },
    WriteTimeout { cl: u16, received: i32, blockfor: i32, write_type: String },
    ReadTimeout { cl: u16, received: i32, blockfor: i32, data_present: u8 },
    ReadFailure { cl: u16, received: i32, blockfor: i32, numfailures: i32, data_present: u8 },
    FunctionFailure { ks: String, function: String, arg_types: Vec<String> },
    WriteFailure { cl: u16, received: i32, blockfor: i32, numfailures: i32, write_type: String },
    AlreadyExists { ks: String, table: String },
    Unprepared { id: Vec<u8> },
    RateLimit { op_type: u8, rejected_by_coordinator: u8 },
}

#[derive(Debug, Clone, PartialEq, Eq)]
pub struct ErrorBody {
    pub code: i32,
    pub message: String,
    pub extra: ErrExtra,
}

#[derive(Debug, Clone, PartialEq, Eq)]
pub enum ResultBody {
    Void,
    Rows(Rows),
    SetKeyspace(String),
    Prepared(Prepared),
    SchemaChange(SchemaChange),
}

#[derive(Debug, Clone, PartialEq, Eq)]
pub enum Response {
    Error(ErrorBody),
    Ready,
    Authenticate(String),
    Supported(Vec<(String, Vec<String>)>),
    Result(ResultBody),
    Event(Event),
    AuthChallenge(Option<Vec<u8>>),
    AuthSuccess(Option<Vec<u8>>),
}

impl Response {
    pub fn opcode(&self) -> u8 {
        use super::opcode::*;
        match self {
            Response::Error(_) => ERROR,
            Response::Ready => READY,
            Response::Authenticate(_) => AUTHENTICATE,
            Response::Supported(_) => SUPPORTED,
            Response::Result(_) => RESULT,
            Response::Event(_) => EVENT,
            Response::AuthChallenge(_) => AUTH_CHALLENGE,
            Response::AuthSuccess(_) => AUTH_SUCCESS,
        }
    }
    /// short stable name of the response kind (decode-site vocabulary)
    pub fn kind_name(&self) -> &'static str {
        match self {
            Response::Error(_) => "ERROR",
            Response::Ready => "READY",
            Response::Authenticate(_) => "AUTHENTICATE",
            Response::Supported(_) => "SUPPORTED",
            Response::Result(ResultBody::Void) => "RESULT/void",
            Response::Result(ResultBody::Rows(_)) => "RESULT/rows",
            Response::Result(ResultBody::SetKeyspace(_)) => "RESULT/set_keyspace",
            Response::Result(ResultBody::Prepared(_)) => "RESULT/prepared",
            Response::Result(ResultBody::SchemaChange(_)) => "RESULT/schema_change",
            Response::Event(_) => "EVENT",
            Response::AuthChallenge(_) => "AUTH_CHALLENGE",
            Response::AuthSuccess(_) => "AUTH_SUCCESS",
        }
    }
}

/// Frame body extensions (4.2: tracing id, warnings, custom payload - in that order).
#[derive(Debug, Clone, PartialEq, Eq, Default)]
pub struct Ext {
    pub tracing: Option<[u8; 16]>,
    pub warnings: Option<Vec<String>>,
    pub payload: Option<Vec<(String, Vec<u8>)>>,
}

impl Ext {
    pub fn flags(&self) -> u8 {
        (if self.tracing.is_some() { super::FLAG_TRACING } else { 0 }) | (if self.warnings.is_some() { super::FLAG_WARNING } else { 0 }) | (if self.payload.is_some() { super::FLAG_CUSTOM_PAYLOAD } else { 0 })
    }
}

// ---------------------------------------------------------------------------------------------
// encoder
// ---------------------------------------------------------------------------------------------

fn encode_col_specs(w: &mut W, global: bool, cols: &[ColSpec]) {
    for c in cols {
        if !global {
            w.string("colspec.ks.len", &c.ks);
            w.string("colspec.table.len", &c.table);
        }
        w.string("colspec.name.len", &c.name);
        encode_type(w, &c.ty);
    }
}

/// Rows `<metadata>`. Site prefix differs between a Rows result and the result metadata nested in Prepared.
pub fn encode_rows_meta(w: &mut W, m: &RowsMeta, nested_in_prepared: bool) {
    let mut flags = 0i32;
    if m.global.is_some() {
        flags |= 0x0001;
    }
    if m.paging_state.is_some() {
        flags |= 0x0002;
    }
    if m.no_metadata {
        flags |= 0x0004;
    }
    if m.new_metadata_id.is_some() {
        flags |= 0x0008;
    }
    let (sf, sc, sp, si) = if nested_in_prepared {
        ("prepared.result_meta.flags", "prepared.result_meta.col_count", "prepared.result_meta.paging_state.len", "prepared.result_meta.new_metadata_id.len")
    } else {
        ("rows.meta.flags", "rows.meta.col_count", "rows.meta.paging_state.len", "rows.meta.new_metadata_id.len")
    };
    w.i32f(sf, K::Flags, flags);
    w.i32f(sc, K::Count, m.cols.len() as i32);
    if let Some(p) = &m.paging_state {
        w.bytes_opt(sp, Some(p));
    }
    if let Some(id) = &m.new_metadata_id {
        w.short_bytes(si, id);
    }
    if !m.no_metadata {
        if let Some((ks, t)) = &m.global {
            w.string("global_spec.ks.len", ks);
            w.string("global_spec.table.len", t);
        }
        encode_col_specs(w, m.global.is_some(), &m.cols);
    }
}

fn encode_schema_change(w: &mut W, s: &SchemaChange) {
    w.string("schema_change.change.len", &s.change);
    let kw = match &s.target {
        SchemaTarget::Keyspace => "KEYSPACE",
        SchemaTarget::Table(_) => "TABLE",
        SchemaTarget::Type(_) => "TYPE",
        SchemaTarget::Function(..) => "FUNCTION",
        SchemaTarget::Aggregate(..) => "AGGREGATE",
    };
    w.string("schema_change.target.len", kw);
    w.string("schema_change.keyspace.len", &s.keyspace);
    match &s.target {
        SchemaTarget::Keyspace => {}
        SchemaTarget::Table(n) | SchemaTarget::Type(n) => w.string("schema_change.name.len", n),
        SchemaTarget::Function(n, args) | SchemaTarget::Aggregate(n, args) => {
            w.string("schema_change.name.len", n);
            w.string_list("schema_change.nargs", "schema_change.arg.len", args);
        }
    }
}

fn encode_inet(w: &mut W, a: &Inet) {
    w.u8f("inet.addr_len", K::Len, a.addr.len() as u8);
    w.raw(&a.addr);
    w.i32f("inet.port", K::Id, a.port);
}

fn encode_error(w: &mut W, e: &ErrorBody) {
    w.i32f("error.code", K::Id, e.code);
    w.string("error.message.len", &e.message);
    match &e.extra {
        ErrExtra::None => {}
        ErrExtra::Unavailable { cl, required, alive } => {
            w.u16f("error.cl", K::Id, *cl);
            w.i32(*required);
            w.i32(*alive);
        }
        ErrExtra::WriteTimeout { cl, received, blockfor, write_type } => {
            w.u16f("error.cl", K::Id, *cl);
            w.i32(*received);
            w.i32(*blockfor);
            w.string("error.write_type.len", write_type);
        }
        ErrExtra::ReadTimeout { cl, received, blockfor, data_present } => {
            w.u16f("error.cl", K::Id, *cl);
            w.i32(*received);
            w.i32(*blockfor);
            w.u8f("error.data_present", K::Flags, *data_present);
        }
        ErrExtra::ReadFailure { cl, received, blockfor, numfailures, data_present } => {
            w.u16f("error.cl", K::Id, *cl);
            w.i32(*received);
            w.i32(*blockfor);
            w.i32(*numfailures);
            w.u8f("error.data_present", K::Flags, *data_present);
        }
        ErrExtra::FunctionFailure { ks, function, arg_types } => {
            w.string("error.ks.len", ks);
            w.string("error.function.len", function);
            w.string_list("error.nargs", "error.arg.len", arg_types);
        }
        ErrExtra::WriteFailure { cl, received, blockfor, numfailures, write_type } => {
            w.u16f("error.cl", K::Id, *cl);
            w.i32(*received);
            w.i32(*blockfor);
            w.i32(*numfailures);
            w.string("error.write_type.len", write_type);
        }
        ErrExtra::AlreadyExists { ks, table } => {
            w.string("error.ks.len", ks);
            w.string("error.table.len", table);
        }
        ErrExtra::Unprepared { id } => w.short_bytes("error.unprepared_id.len", id),
        ErrExtra::RateLimit { op_type, rejected_by_coordinator } => {
            w.u8f("error.op_type", K::Id, *op_type);
            w.u8f("error.rejected", K::Flags, *rejected_by_coordinator);
        }
    }
}

/// Encode a response *body* (after the extensions). `metadata_id_ext`: SCYLLA_USE_METADATA_ID negotiated.
pub fn encode_body(w: &mut W, r: &Response, metadata_id_ext: bool) {
    match r {
        Response::Error(e) => encode_error(w, e),
        Response::Ready => {}
        Response::Authenticate(s) => w.string("authenticate.name.len", s),
        Response::Supported(m) => {
            w.u16f("supported.n", K::Count, m.len() as u16);
            for (k, vals) in m {
                w.string("supported.key.len", k);
                w.string_list("supported.nvals", "supported.val.len", vals);
            }
        }
        Response::AuthChallenge(b) => w.bytes_opt("auth_challenge.token.len", b.as_deref()),
        Response::AuthSuccess(b) => w.bytes_opt("auth_success.token.len", b.as_deref()),
        Response::Event(ev) => match ev {
            Event::Topology { change, addr } => {
                w.string("event.type.len", "TOPOLOGY_CHANGE");
                w.string("event.change.len", change);
                encode_inet(w, addr);
            }
            Event::Status { change, addr } => {
                w.string("event.type.len", "STATUS_CHANGE");
                w.string("event.change.len", change);
                encode_inet(w, addr);
            }
            Event::Schema(s) => {
                w.string("event.type.len", "SCHEMA_CHANGE");
                encode_schema_change(w, s);
            }
            Event::ClientRoutes { change, connection_ids, host_ids } => {
                w.string("event.type.len", "CLIENT_ROUTES_CHANGE");
                w.string("event.change.len", change);
                w.string_list("event.routes.nconn", "event.routes.conn.len", connection_ids);
                w.string_list("event.routes.nhost", "event.routes.host.len", host_ids);
            }
        },
        Response::Result(res) => match res {
            ResultBody::Void => w.i32f("result.kind", K::Id, 1),
            ResultBody::Rows(rows) => {
                w.i32f("result.kind", K::Id, 2);
                encode_rows_meta(w, &rows.meta, false);
                w.i32f("rows.row_count", K::Count, rows.rows.len() as i32);
                for row in &rows.rows {
                    for cell in row {
                        w.bytes_opt("rows.cell.len", cell.as_deref());
                    }
                }
            }
            ResultBody::SetKeyspace(ks) => {
                w.i32f("result.kind", K::Id, 3);
                w.string("set_keyspace.name.len", ks);
            }
            ResultBody::Prepared(p) => {
                w.i32f("result.kind", K::Id, 4);
                w.short_bytes("prepared.id.len", &p.id);
                if metadata_id_ext {
                    w.short_bytes("prepared.result_metadata_id.len", &p.result_metadata_id);
                }
                w.i32f("prepared.meta.flags", K::Flags, if p.global.is_some() { 1 } else { 0 });
                w.i32f("prepared.meta.col_count", K::Count, p.cols.len() as i32);
                w.i32f("prepared.meta.pk_count", K::Count, p.pk_indexes.len() as i32);
                for i in &p.pk_indexes {
                    w.u16(*i);
                }
                if let Some((ks, t)) = &p.global {
                    w.string("global_spec.ks.len", ks);
                    w.string("global_spec.table.len", t);
                }
                encode_col_specs(w, p.global.is_some(), &p.cols);
                encode_rows_meta(w, &p.result, true);
            }
            ResultBody::SchemaChange(s) => {
                w.i32f("result.kind", K::Id, 5);
                encode_schema_change(w, s);
            }
        },
    }
}

pub fn encode_ext(w: &mut W, e: &Ext) {
    if let Some(t) = &e.tracing {
        w.raw(t);
    }
    if let Some(ws) = &e.warnings {
        w.string_list("ext.warnings.n", "ext.warning.len", ws);
    }
    if let Some(p) = &e.payload {
        w.u16f("ext.payload.n", K::Count, p.len() as u16);
        for (k, v) in p {
            w.string("ext.payload.key.len", k);
            w.bytes_opt("ext.payload.val.len", Some(v));
        }
    }
}

/// Extensions + body, uncompressed, with the field list.
pub fn encode_ext_body(e: &Ext, r: &Response, metadata_id_ext: bool) -> W {
    let mut w = W::new();
    encode_ext(&mut w, e);
    encode_body(&mut w, r, metadata_id_ext);
    w
}

/// Wrap an (extensions+body) byte string into a response frame: compress if asked, set the
/// COMPRESSION flag accordingly, write the 9-byte header (version 0x84).
pub fn frame(ext_flags: u8, stream: i16, opcode: u8, ext_body: &[u8], comp: Comp, matches: bool) -> Vec<u8> {
    let body = super::cql_compress(comp, ext_body, matches);
    let flags = ext_flags | if comp != Comp::None { super::FLAG_COMPRESSION } else { 0 };
    let mut f = Vec::with_capacity(9 + body.len());
    f.push(0x84);
    f.push(flags);
    f.extend_from_slice(&stream.to_be_bytes());
    f.push(opcode);
    f.extend_from_slice(&(body.len() as u32).to_be_bytes());
    f.extend_from_slice(&body);
    f
}

/// The five header fields of any frame, in frame coordinates.
pub fn header_fields() -> Vec<super::Field> {
    use super::Field;
    vec![
        Field { off: 0, width: 1, kind: K::Id, site: "header.version" },
        Field { off: 1, width: 1, kind: K::Flags, site: "header.flags" },
        Field { off: 2, width: 2, kind: K::Id, site: "header.stream" },
        Field { off: 4, width: 1, kind: K::Id, site: "header.opcode" },
        Field { off: 5, width: 4, kind: K::Len, site: "header.length" },
    ]
}

#[cfg(test)]
mod tests {
    use super::*;
    #[test]
    fn rows_layout_by_hand() {
        // RESULT Rows, global spec ks.t, one int column "a", one row with value 7 - laid out by hand from the spec
        let r = Response::Result(ResultBody::Rows(Rows {
            meta: RowsMeta { global: Some(("ks".into(), "t".into())), paging_state: None, no_metadata: false, new_metadata_id: None, cols: vec![ColSpec { ks: "ks".into(), table: "t".into(), name: "a".into(), ty: Ty::Native(native::INT) }] },
            rows: vec![vec![Some(vec![0, 0, 0, 7])]],
        }));
        let w = encode_ext_body(&Ext::default(), &r, false);
        let want: Vec<u8> = [&[0, 0, 0, 2][..], &[0, 0, 0, 1], &[0, 0, 0, 1], &[0, 2], b"ks", &[0, 1], b"t", &[0, 1], b"a", &[0, 9], &[0, 0, 0, 1], &[0, 0, 0, 4], &[0, 0, 0, 7]].concat();
        assert_eq!(w.buf, want);
    }
}
