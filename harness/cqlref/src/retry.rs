//! cqlref::retry - the retry-safety statement of C06 as tables, plus a reference interpreter of retry
//! decisions (what the execution loop must do with them). Written from the property text, shares no
//! code or types with the driver: the harness maps driver values onto these enums.
//!
//! Statement (C06): with the built-in policies a statement that is not marked idempotent is sent again only
//! after a failure that proves the previous attempt was not applied (unavailable, bootstrapping, no free
//! stream id on the client, read timeout); after a broken connection, an overloaded/server/truncate error or
//! a write timeout it is never sent again; the default policy never retries at serial consistency; the number
//! of attempts is bounded by plan length + the policy's fixed number of same-node retries; the driver sends
//! exactly the attempts the policy decided.

#[derive(Clone, Copy, PartialEq, Eq, Debug, Hash, PartialOrd, Ord)]
pub enum Policy {
    Default,
    Downgrading,
    Fallthrough,
}

impl Policy {
    pub const ALL: [Policy; 3] = [Policy::Default, Policy::Downgrading, Policy::Fallthrough];
    pub fn name(self) -> &'static str {
        match self {
            Policy::Default => "default",
            Policy::Downgrading => "downgrading",
            Policy::Fallthrough => "fallthrough",
        }
    }
    pub fn from_name(s: &str) -> Option<Policy> {
        Policy::ALL.into_iter().find(|p| p.name() == s)
    }
    /// The policy's fixed number of same-node retries per request (per retry session).
    /// Default: one after a read timeout + one after a (batch-log) write timeout; Downgrading: a single
    /// retry of any kind; Fallthrough: none.
    pub fn same_target_bound(self) -> u32 {
        match self {
            Policy::Default => 2,
            Policy::Downgrading => 1,
            Policy::Fallthrough => 0,
        }
    }
}

/// What a failed attempt tells about whether the statement may have been applied.
#[derive(Clone, Copy, PartialEq, Eq, Debug, Hash, PartialOrd, Ord)]
pub enum ErrClass {
    // proves the attempt was not applied
    Unavailable,
    IsBootstrapping,
    StreamIdExhausted,
    ReadTimeout,
    // named by the statement as "never sent again"
    WriteTimeout,
    BrokenConnection,
    Overloaded,
    ServerError,
    TruncateError,
    /// any other database error (syntax, invalid, read/write failure, unprepared, rate limit, ...)
    OtherDb,
    /// driver-side errors: response parse errors, serialization errors, unexpected response, ...
    ClientSide,
}

impl ErrClass {
    pub const ALL: [ErrClass; 11] = [
        ErrClass::Unavailable,
        ErrClass::IsBootstrapping,
        ErrClass::StreamIdExhausted,
        ErrClass::ReadTimeout,
        ErrClass::WriteTimeout,
        ErrClass::BrokenConnection,
        ErrClass::Overloaded,
        ErrClass::ServerError,
        ErrClass::TruncateError,
        ErrClass::OtherDb,
        ErrClass::ClientSide,
    ];
    pub fn name(self) -> &'static str {
        match self {
            ErrClass::Unavailable => "unavailable",
            ErrClass::IsBootstrapping => "bootstrapping",
            ErrClass::StreamIdExhausted => "stream-id-exhausted",
            ErrClass::ReadTimeout => "read-timeout",
            ErrClass::WriteTimeout => "write-timeout",
            ErrClass::BrokenConnection => "broken-connection",
            ErrClass::Overloaded => "overloaded",
            ErrClass::ServerError => "server-error",
            ErrClass::TruncateError => "truncate-error",
            ErrClass::OtherDb => "other-db-error",
            ErrClass::ClientSide => "client-side-error",
        }
    }
    /// The only failures after which a non-idempotent statement may be sent again.
    pub fn proves_not_applied(self) -> bool {
        matches!(self, ErrClass::Unavailable | ErrClass::IsBootstrapping | ErrClass::StreamIdExhausted | ErrClass::ReadTimeout)
    }
}

/// The eleven CQL consistency levels (names as in the protocol specification).
#[derive(Clone, Copy, PartialEq, Eq, Debug, Hash, PartialOrd, Ord)]
pub enum Cl {
    Any,
    One,
    Two,
    Three,
    Quorum,
    All,
    LocalQuorum,
    EachQuorum,
    Serial,
    LocalSerial,
    LocalOne,
}

impl Cl {
    /// protocol order (wire codes 0x0000..0x000A)
    pub const ALL: [Cl; 11] = [Cl::Any, Cl::One, Cl::Two, Cl::Three, Cl::Quorum, Cl::All, Cl::LocalQuorum, Cl::EachQuorum, Cl::Serial, Cl::LocalSerial, Cl::LocalOne];
    pub fn code(self) -> u16 {
        Cl::ALL.iter().position(|c| *c == self).unwrap() as u16
    }
    pub fn from_code(c: u16) -> Option<Cl> {
        Cl::ALL.get(c as usize).copied()
    }
    pub fn name(self) -> &'static str {
        match self {
            Cl::Any => "ANY",
            Cl::One => "ONE",
            Cl::Two => "TWO",
            Cl::Three => "THREE",
            Cl::Quorum => "QUORUM",
            Cl::All => "ALL",
            Cl::LocalQuorum => "LOCAL_QUORUM",
            Cl::EachQuorum => "EACH_QUORUM",
            Cl::Serial => "SERIAL",
            Cl::LocalSerial => "LOCAL_SERIAL",
            Cl::LocalOne => "LOCAL_ONE",
        }
    }
    pub fn is_serial(self) -> bool {
        matches!(self, Cl::Serial | Cl::LocalSerial)
    }
}

#[derive(Clone, Copy, PartialEq, Eq, Debug, Hash, PartialOrd, Ord)]
pub enum Decision {
    /// send again to the same target; `None` keeps the consistency
    RetrySame(Option<Cl>),
    /// send to the next target of the plan
    RetryNext(Option<Cl>),
    DontRetry,
    /// report an empty success to the caller; nothing is sent
    IgnoreWrite,
}

impl Decision {
    pub fn is_resend(self) -> bool {
        matches!(self, Decision::RetrySame(_) | Decision::RetryNext(_))
    }
    pub fn kind(self) -> &'static str {
        match self {
            Decision::RetrySame(None) => "same",
            Decision::RetrySame(Some(_)) => "same+cl",
            Decision::RetryNext(None) => "next",
            Decision::RetryNext(Some(_)) => "next+cl",
            Decision::DontRetry => "stop",
            Decision::IgnoreWrite => "ignore",
        }
    }
}

#[derive(Clone, Debug, PartialEq, Eq)]
pub struct Complaint {
    /// stable key (site + shape)
    pub key: String,
    pub text: String,
}

/// Judges the decisions of one retry session (one request) against the statement.
#[derive(Clone, Debug)]
pub struct SessionJudge {
    pub policy: Policy,
    pub idempotent: bool,
    pub same_target_retries: u32,
    pub resends: u32,
}

impl SessionJudge {
    pub fn new(policy: Policy, idempotent: bool) -> SessionJudge {
        SessionJudge { policy, idempotent, same_target_retries: 0, resends: 0 }
    }

    /// `cl` is the consistency the failed attempt was sent with.
    pub fn step(&mut self, class: ErrClass, cl: Cl, d: Decision) -> Vec<Complaint> {
        let mut out = Vec::new();
        let p = self.policy.name();
        if d.is_resend() {
            self.resends += 1;
            if !self.idempotent && !class.proves_not_applied() {
                out.push(Complaint {
                    key: format!("policy:{p}:nonidempotent-resend-after:{}", class.name()),
                    text: format!("{p} policy decided {d:?} for a NON-idempotent request after {} (the attempt may have been applied)", class.name()),
                });
            }
            if self.policy == Policy::Default && cl.is_serial() {
                out.push(Complaint {
                    key: "policy:default:resend-at-serial".to_string(),
                    text: format!("default policy decided {d:?} at serial consistency {} after {}", cl.name(), class.name()),
                });
            }
        }
        if let Decision::RetrySame(_) = d {
            self.same_target_retries += 1;
            if self.same_target_retries > self.policy.same_target_bound() {
                out.push(Complaint {
                    key: format!("policy:{p}:same-target-retries-exceed-bound"),
                    text: format!("{p} policy decided its same-target retry number {} in one session (fixed bound {})", self.same_target_retries, self.policy.same_target_bound()),
                });
            }
        }
        out
    }
}

// ------------------------------------------------------------------------------------------------
// Reference interpreter of decisions: what the execution loop has to do.

/// Scripted result of the k-th attempt that is actually sent.
#[derive(Clone, Copy, PartialEq, Eq, Debug, Hash)]
pub enum Step {
    Success,
    /// the attempt fails and the policy decides this
    Fail(Decision),
}

#[derive(Clone, Copy, PartialEq, Eq, Debug, Hash)]
pub enum LoopOutcome {
    /// result of the attempt with this index (into `attempts`) is returned as the success
    Success { attempt: usize },
    /// empty success; coordinator = target of this attempt
    IgnoredWrite { attempt: usize },
    /// the error of this attempt is returned
    LastAttemptError { attempt: usize },
    /// the last thing that happened was a target without a connection: its pool error is returned
    PoolError { target: usize },
    EmptyPlan,
    /// the script ended while the loop still wanted to send (harness error, not a verdict)
    ScriptExhausted,
}

#[derive(Clone, Debug, PartialEq, Eq)]
pub struct LoopExpect {
    /// (target index, consistency) of every attempt sent, in order
    pub attempts: Vec<(usize, Cl)>,
    pub outcome: LoopOutcome,
}

/// `p` plan targets 0..p in plan order; `no_conn[t]` = target t hands out no connection (it is skipped without
/// an attempt and without consulting the policy); `script[k]` = fate of the k-th attempt sent.
pub fn interpret(p: usize, no_conn: &[bool], cl0: Cl, script: &[Step]) -> LoopExpect {
    let mut attempts = Vec::new();
    let mut cl = cl0;
    let mut outcome = LoopOutcome::EmptyPlan;
    let mut k = 0usize;
    let mut t = 0usize;
    'plan: while t < p {
        if no_conn.get(t).copied().unwrap_or(false) {
            outcome = LoopOutcome::PoolError { target: t };
            t += 1;
            continue;
        }
        loop {
            let Some(step) = script.get(k) else {
                outcome = LoopOutcome::ScriptExhausted;
                break 'plan;
            };
            attempts.push((t, cl));
            let idx = k;
            k += 1;
            match *step {
                Step::Success => {
                    outcome = LoopOutcome::Success { attempt: idx };
                    break 'plan;
                }
                Step::Fail(d) => {
                    outcome = LoopOutcome::LastAttemptError { attempt: idx };
                    match d {
                        Decision::RetrySame(c) => {
                            cl = c.unwrap_or(cl);
                        }
                        Decision::RetryNext(c) => {
                            cl = c.unwrap_or(cl);
                            t += 1;
                            continue 'plan;
                        }
                        Decision::DontRetry => break 'plan,
                        Decision::IgnoreWrite => {
                            outcome = LoopOutcome::IgnoredWrite { attempt: idx };
                            break 'plan;
                        }
                    }
                }
            }
        }
    }
    LoopExpect { attempts, outcome }
}

/// Upper bound on attempts the statement allows: plan length + the policy's fixed number of same-node retries.
pub fn attempts_bound(p: usize, policy: Policy) -> usize {
    p + policy.same_target_bound() as usize
}

/// Known-answer self-test of this module (run at the start of every check that uses it).
pub fn self_test() -> Result<(), String> {
    use Decision::*;
    let e = interpret(3, &[false, false, false], Cl::Quorum, &[Step::Fail(RetrySame(Some(Cl::One))), Step::Fail(RetryNext(None)), Step::Fail(RetryNext(Some(Cl::Two))), Step::Success]);
    if e.attempts != vec![(0, Cl::Quorum), (0, Cl::One), (1, Cl::One), (2, Cl::Two)] || e.outcome != (LoopOutcome::Success { attempt: 3 }) {
        return Err(format!("interpret known answer 1: {e:?}"));
    }
    let e = interpret(2, &[true, false], Cl::One, &[Step::Fail(RetryNext(None)), Step::Success]);
    if e.attempts != vec![(1, Cl::One)] || e.outcome != (LoopOutcome::LastAttemptError { attempt: 0 }) {
        return Err(format!("interpret known answer 2: {e:?}"));
    }
    let e = interpret(2, &[false, true], Cl::One, &[Step::Fail(RetryNext(None)), Step::Success]);
    if e.attempts != vec![(0, Cl::One)] || e.outcome != (LoopOutcome::PoolError { target: 1 }) {
        return Err(format!("interpret known answer 3: {e:?}"));
    }
    if interpret(0, &[], Cl::One, &[Step::Success]).outcome != LoopOutcome::EmptyPlan {
        return Err("interpret known answer 4".into());
    }
    let mut j = SessionJudge::new(Policy::Default, false);
    if !j.step(ErrClass::Unavailable, Cl::One, RetryNext(None)).is_empty() {
        return Err("judge: unavailable must allow a resend".into());
    }
    if j.step(ErrClass::Overloaded, Cl::One, RetryNext(None)).len() != 1 {
        return Err("judge: overloaded resend must be refused for non-idempotent".into());
    }
    if j.step(ErrClass::ReadTimeout, Cl::Serial, RetrySame(None)).len() != 1 {
        return Err("judge: serial".into());
    }
    let mut j = SessionJudge::new(Policy::Downgrading, true);
    let _ = j.step(ErrClass::ReadTimeout, Cl::One, RetrySame(None));
    if j.step(ErrClass::WriteTimeout, Cl::One, RetrySame(None)).len() != 1 {
        return Err("judge: same-target bound".into());
    }
    if Cl::Serial.code() != 8 || Cl::LocalOne.code() != 10 || Cl::from_code(6) != Some(Cl::LocalQuorum) {
        return Err("consistency codes".into());
    }
    Ok(())
}

#[cfg(test)]
mod tests {
    #[test]
    fn self_test_passes() {
        super::self_test().unwrap();
    }
}
