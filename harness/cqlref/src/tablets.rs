//! cqlref::tablets - independent reference for C15 (see DESIGN.md 1.3): a latest-wins interval
//! map written directly from the property statement. Deliberately boring: the whole history of
//! learnt tablets is kept in learn order with an `alive` mark, every question is a linear scan.
//!
//! * a token is answered by the most recently learnt tablet that covers it - unless that tablet
//!   was overlapped by a later update or discarded by maintenance, in which case the answer is
//!   *nothing* (never an older tablet: stale data);
//! * maintenance (a topology/schema refresh) drops the tablets of tables that are no longer
//!   tablet tables, creates empty entries for tablet tables, resolves tablets learnt with unknown
//!   replica ids if **all** their ids are known now and discards them otherwise, discards tablets
//!   with a replica on a removed node;
//! * nodes are plain labels (`u32`); what a node label currently denotes (address, datacenter,
//!   object identity) is the harness' business.
//!
//! Also here: the `tablets-routing-v1` payload encoder (CQL `tuple<bigint, bigint,
//! list<tuple<uuid, int>>>`, written from the CQL binary protocol's tuple/list layout) and the
//! acceptance rule for payload ranges.

use std::collections::{BTreeMap, BTreeSet};

pub type NodeLabel = u32;

#[derive(Clone, Debug, PartialEq, Eq)]
pub struct RefTablet {
    pub first: i64,
    pub last: i64,
    /// replica list exactly as the server sent it
    pub raw: Vec<(NodeLabel, u32)>,
    /// replicas the client can use right now: `raw` minus the ids unknown when learnt, until a
    /// maintenance resolves the tablet
    pub usable: Vec<(NodeLabel, u32)>,
    pub unresolved: bool,
    pub seq: u64,
    pub alive: bool,
    /// why it stopped being alive (diagnostics only)
    pub died: Option<String>,
}

#[derive(Clone, Debug, Default)]
pub struct RefTable {
    pub history: Vec<RefTablet>,
}

#[derive(Clone, Debug, Default)]
pub struct RefMap {
    /// present key = the table is treated as a tablet table
    pub tables: BTreeMap<String, RefTable>,
    seq: u64,
}

impl RefMap {
    pub fn new() -> Self {
        Self::default()
    }

    /// A tablet `[first, last]` (inclusive) was learnt for `table`.
    pub fn learn(&mut self, table: &str, first: i64, last: i64, raw: &[(NodeLabel, u32)], known: &BTreeSet<NodeLabel>) {
        assert!(first <= last);
        self.seq += 1;
        let seq = self.seq;
        let t = self.tables.entry(table.to_string()).or_default();
        for old in t.history.iter_mut() {
            let disjoint = old.last < first || last < old.first;
            if old.alive && !disjoint {
                old.alive = false;
                old.died = Some(format!("overlapped by update #{seq} [{first},{last}]"));
            }
        }
        let usable: Vec<(NodeLabel, u32)> = raw.iter().copied().filter(|(n, _)| known.contains(n)).collect();
        t.history.push(RefTablet { first, last, raw: raw.to_vec(), unresolved: usable.len() != raw.len(), usable, seq, alive: true, died: None });
    }

    /// Topology / schema refresh. `tablet_tables`: tables (and views) of tablet-based keyspaces in
    /// the fetched schema; `removed`: nodes known before and not any more; `known_now`: all nodes.
    pub fn maintenance(&mut self, tablet_tables: &BTreeSet<String>, removed: &BTreeSet<NodeLabel>, known_now: &BTreeSet<NodeLabel>) {
        self.tables.retain(|name, _| tablet_tables.contains(name));
        for name in tablet_tables {
            self.tables.entry(name.clone()).or_default();
        }
        for t in self.tables.values_mut() {
            for tb in t.history.iter_mut().filter(|tb| tb.alive) {
                if tb.unresolved {
                    if tb.raw.iter().all(|(n, _)| known_now.contains(n)) {
                        tb.unresolved = false;
                        tb.usable = tb.raw.clone();
                    } else {
                        tb.alive = false;
                        tb.died = Some("discarded: replica ids still unknown after a refresh".into());
                        continue;
                    }
                }
                if tb.usable.iter().any(|(n, _)| removed.contains(n)) {
                    tb.alive = false;
                    tb.died = Some("discarded: replica on a removed node".into());
                }
            }
        }
    }

    pub fn is_tablet_table(&self, table: &str) -> bool {
        self.tables.contains_key(table)
    }

    /// The property's lookup: the most recently learnt tablet covering `token`, if it is still
    /// alive. `Err` carries the dead tablet (what a stale answer would look like).
    pub fn lookup(&self, table: &str, token: i64) -> Result<Option<&RefTablet>, String> {
        let Some(t) = self.tables.get(table) else { return Ok(None) };
        let latest = t.history.iter().filter(|tb| tb.first <= token && token <= tb.last).max_by_key(|tb| tb.seq);
        // internal consistency of the reference itself: at most one alive tablet covers a token,
        // and if one does it is the latest learnt one
        let alive: Vec<&RefTablet> = t.history.iter().filter(|tb| tb.alive && tb.first <= token && token <= tb.last).collect();
        if alive.len() > 1 {
            return Err(format!("reference inconsistent: {} alive tablets cover {token}", alive.len()));
        }
        match (latest, alive.first()) {
            (Some(l), Some(a)) if l.seq != a.seq => Err(format!("reference inconsistent: alive tablet #{} covers {token} but #{} is later", a.seq, l.seq)),
            (Some(l), _) if l.alive => Ok(Some(l)),
            _ => Ok(None),
        }
    }

    /// Alive tablets of a table sorted by first token.
    pub fn alive(&self, table: &str) -> Vec<&RefTablet> {
        let mut v: Vec<&RefTablet> = self.tables.get(table).map(|t| t.history.iter().filter(|tb| tb.alive).collect()).unwrap_or_default();
        v.sort_by_key(|tb| tb.first);
        v
    }

    /// Forget dead tablets (for long walks). Answers do not change: a dead tablet only ever
    /// turns an answer into "nothing", and no alive tablet can be older than a dead one that
    /// overlaps it (the later one would have killed it) - `lookup` re-checks this on every call.
    pub fn compact(&mut self) {
        for t in self.tables.values_mut() {
            t.history.retain(|tb| tb.alive);
        }
    }
}

/// `tablets-routing-v1` value: `tuple<bigint, bigint, list<tuple<uuid, int>>>`.
/// Tuple: every field as `[int32 length][bytes]`; list: `[int32 n]` then n `[int32 length][bytes]`.
pub fn encode_payload(first_exclusive: i64, last_inclusive: i64, replicas: &[([u8; 16], i32)]) -> Vec<u8> {
    fn field(out: &mut Vec<u8>, b: &[u8]) {
        out.extend_from_slice(&(b.len() as i32).to_be_bytes());
        out.extend_from_slice(b);
    }
    let mut list = Vec::new();
    list.extend_from_slice(&(replicas.len() as i32).to_be_bytes());
    for (uuid, shard) in replicas {
        let mut el = Vec::new();
        field(&mut el, uuid);
        field(&mut el, &shard.to_be_bytes());
        field(&mut list, &el);
    }
    let mut out = Vec::new();
    field(&mut out, &first_exclusive.to_be_bytes());
    field(&mut out, &last_inclusive.to_be_bytes());
    field(&mut out, &list);
    out
}

/// The server sends a left-open range `(first, last]`; it is a tablet iff it is non-empty and
/// does not wrap, and then covers `first+1 ..= last`. A negative shard number is not a shard.
pub fn payload_range(first_exclusive: i64, last_inclusive: i64) -> Option<(i64, i64)> {
    if first_exclusive < last_inclusive { Some((first_exclusive + 1, last_inclusive)) } else { None }
}

#[cfg(test)]
mod tests {
    use super::*;
    #[test]
    fn latest_wins_and_no_stale_answers() {
        let known: BTreeSet<u32> = [1, 2].into_iter().collect();
        let mut m = RefMap::new();
        m.learn("t", 0, 10, &[(1, 0)], &known);
        m.learn("t", 5, 15, &[(2, 0)], &known);
        assert!(m.lookup("t", 3).unwrap().is_none()); // T1 overlapped: nothing, not stale
        assert_eq!(m.lookup("t", 7).unwrap().unwrap().seq, 2);
        m.learn("t", 16, 16, &[(1, 0), (9, 1)], &known);
        assert!(m.lookup("t", 16).unwrap().unwrap().unresolved);
        let tt: BTreeSet<String> = ["t".to_string()].into_iter().collect();
        m.maintenance(&tt, &BTreeSet::new(), &known);
        assert!(m.lookup("t", 16).unwrap().is_none());
        m.maintenance(&tt, &[2].into_iter().collect(), &[1].into_iter().collect());
        assert!(m.lookup("t", 7).unwrap().is_none());
        m.maintenance(&BTreeSet::new(), &BTreeSet::new(), &known);
        assert!(!m.is_tablet_table("t"));
    }
    #[test]
    fn payload_layout() {
        let p = encode_payload(-1, 7, &[([0xab; 16], 3)]);
        assert_eq!(p.len(), 4 + 8 + 4 + 8 + 4 + (4 + 4 + (4 + 16 + 4 + 4)));
        assert_eq!(&p[0..4], &[0, 0, 0, 8]);
        assert_eq!(payload_range(i64::MAX - 1, i64::MAX), Some((i64::MAX, i64::MAX)));
        assert_eq!(payload_range(3, 3), None);
    }
}
