//! Common machinery for every check: argument parsing, evidence writing, known-findings
//! triage, replay artefacts, deterministic PRNG, work-queue parallelism and the generic
//! explorers (E-BFS over replayed histories, E-DFS over choice sequences).
//!
//! Verdict protocol (DESIGN.md 1.4): exit 0 = held on everything explored (possibly with
//! KNOWN-FINDING lines), exit 1 + `VIOLATION property=<id> replay=<path>` = violation not
//! listed in /verif/known_findings.json, exit 2 = machinery failure, never a verdict.

use serde_json::{Map, Value, json};
use std::collections::BTreeMap;
use std::path::{Path, PathBuf};
use std::sync::Mutex;
use std::sync::atomic::{AtomicU64, Ordering};
use std::time::Instant;

pub mod bfs;
pub mod dfs;
pub mod par;
pub mod sandbox;

pub const VERIF_ROOT: &str = "/verif";

#[derive(Clone, Copy, Debug, PartialEq, Eq)]
pub enum Tier {
    Quick,
    Thorough,
}

impl Tier {
    pub fn as_str(self) -> &'static str {
        match self {
            Tier::Quick => "quick",
            Tier::Thorough => "thorough",
        }
    }
    pub fn is_thorough(self) -> bool {
        self == Tier::Thorough
    }
    /// Pick a bound by tier.
    pub fn pick<T>(self, quick: T, thorough: T) -> T {
        match self {
            Tier::Quick => quick,
            Tier::Thorough => thorough,
        }
    }
}

#[derive(Clone, Debug)]
pub struct Args {
    pub tier: Tier,
    pub seed: u64,
    /// Where this leg writes its evidence part (vf merges the parts of a property).
    pub out: PathBuf,
    /// `--replay <file>`: run exactly the case in the artefact, print the trace, exit 1 if it reproduces.
    pub replay: Option<PathBuf>,
    pub jobs: usize,
    /// leg-specific extra arguments (`--key value` pairs and bare words)
    pub extra: Vec<String>,
}

impl Args {
    pub fn parse(default_out_name: &str) -> Args {
        let mut tier = match std::env::var("VERIF_TIER").ok().as_deref() {
            Some("thorough") => Tier::Thorough,
            _ => Tier::Quick,
        };
        let mut seed = std::env::var("VERIF_SEED")
            .ok()
            .and_then(|s| s.parse::<i64>().ok())
            .map(|s| s as u64)
            .unwrap_or(0);
        let mut out = PathBuf::from(format!("{VERIF_ROOT}/evidence/.parts/{default_out_name}.json"));
        let mut replay = None;
        let mut jobs = std::env::var("VERIF_JOBS")
            .ok()
            .and_then(|s| s.parse().ok())
            .unwrap_or_else(|| std::thread::available_parallelism().map(|n| n.get()).unwrap_or(4));
        let mut extra = Vec::new();
        let mut it = std::env::args().skip(1);
        while let Some(a) = it.next() {
            match a.as_str() {
                "--tier" => {
                    tier = match it.next().as_deref() {
                        Some("quick") => Tier::Quick,
                        Some("thorough") => Tier::Thorough,
                        other => machinery_error(&format!("bad --tier {other:?}")),
                    }
                }
                "--seed" => seed = it.next().and_then(|s| s.parse::<i64>().ok()).map(|s| s as u64).unwrap_or(0),
                "--out" => out = PathBuf::from(it.next().unwrap_or_else(|| machinery_error("--out needs a path"))),
                "--replay" => replay = Some(PathBuf::from(it.next().unwrap_or_else(|| machinery_error("--replay needs a path")))),
                "--jobs" => jobs = it.next().and_then(|s| s.parse().ok()).unwrap_or(jobs),
                _ => extra.push(a),
            }
        }
        Args { tier, seed, out, replay, jobs: jobs.max(1), extra }
    }

    pub fn extra_value(&self, key: &str) -> Option<&str> {
        let mut it = self.extra.iter();
        while let Some(a) = it.next() {
            if a == key {
                return it.next().map(|s| s.as_str());
            }
        }
        None
    }
    pub fn has_flag(&self, key: &str) -> bool {
        self.extra.iter().any(|a| a == key)
    }
}

/// Exit 2: something in the machinery (not the code under test) went wrong.
pub fn machinery_error(msg: &str) -> ! {
    eprintln!("MACHINERY-ERROR: {msg}");
    println!("MACHINERY-ERROR: {msg}");
    std::process::exit(2)
}

/// splitmix64 - the only PRNG used by checks (seeded from VERIF_SEED; used for *labelled sampled* legs only).
#[derive(Clone, Debug)]
pub struct Rng(pub u64);
impl Rng {
    pub fn new(seed: u64) -> Self {
        Rng(seed ^ 0x9E37_79B9_7F4A_7C15)
    }
    pub fn next_u64(&mut self) -> u64 {
        self.0 = self.0.wrapping_add(0x9E37_79B9_7F4A_7C15);
        let mut z = self.0;
        z = (z ^ (z >> 30)).wrapping_mul(0xBF58_476D_1CE4_E5B9);
        z = (z ^ (z >> 27)).wrapping_mul(0x94D0_49BB_1331_11EB);
        z ^ (z >> 31)
    }
    pub fn below(&mut self, n: u64) -> u64 {
        if n == 0 { 0 } else { self.next_u64() % n }
    }
    pub fn fill(&mut self, buf: &mut [u8]) {
        for b in buf.iter_mut() {
            *b = self.next_u64() as u8;
        }
    }
}

/// FNV-1a 64, used for stable short hashes in replay file names and distinct-case counting.
pub fn fnv64(bytes: &[u8]) -> u64 {
    let mut h: u64 = 0xcbf29ce484222325;
    for b in bytes {
        h ^= *b as u64;
        h = h.wrapping_mul(0x100000001b3);
    }
    h
}

pub fn hex(bytes: &[u8]) -> String {
    let mut s = String::with_capacity(bytes.len() * 2);
    for b in bytes {
        s.push_str(&format!("{b:02x}"));
    }
    s
}

pub fn unhex(s: &str) -> Vec<u8> {
    let s = s.as_bytes();
    (0..s.len() / 2)
        .map(|i| u8::from_str_radix(std::str::from_utf8(&s[2 * i..2 * i + 2]).unwrap(), 16).unwrap())
        .collect()
}

#[derive(Clone, Debug)]
pub struct Violation {
    /// Stable identifier of *what* fails (decode site + input shape, call site, history class).
    /// Known findings are matched on this key, so it must not contain run-specific noise.
    pub key: String,
    pub what: String,
    /// The minimal input / schedule / history, as stored in the replay artefact.
    pub case: Value,
}

/// A thread-safe counter set; checks bump named counters and the report prints them.
#[derive(Default)]
pub struct Counters {
    inner: Mutex<BTreeMap<String, u64>>,
}
impl Counters {
    pub fn add(&self, name: &str, n: u64) {
        *self.inner.lock().unwrap().entry(name.to_string()).or_insert(0) += n;
    }
    pub fn max(&self, name: &str, n: u64) {
        let mut g = self.inner.lock().unwrap();
        let e = g.entry(name.to_string()).or_insert(0);
        if n > *e {
            *e = n;
        }
    }
    pub fn get(&self, name: &str) -> u64 {
        self.inner.lock().unwrap().get(name).copied().unwrap_or(0)
    }
    pub fn snapshot(&self) -> BTreeMap<String, u64> {
        self.inner.lock().unwrap().clone()
    }
}

/// One leg of one property's check. Collects coverage, samples, violations; `finish` writes the
/// evidence part, triages violations against known_findings.json and exits.
pub struct Report {
    pub property: String,
    pub leg: String,
    pub level: String,
    pub engine: String,
    pub args: Args,
    start: Instant,
    pub evaluations: AtomicU64,
    pub distinct_nontrivial: AtomicU64,
    pub rule: Mutex<String>,
    pub exhaustive: Mutex<Option<bool>>,
    pub states: AtomicU64,
    pub transitions: AtomicU64,
    pub traces_validated: AtomicU64,
    pub counters: Counters,
    samples: Mutex<Vec<Value>>,
    assumptions: Mutex<Vec<String>>,
    extra: Mutex<Map<String, Value>>,
    violations: Mutex<Vec<Violation>>,
    pub max_samples: usize,
    pub max_violations: usize,
}

impl Report {
    /// `level`: one of exploration | fault_enumeration | model_checking (the MANIFEST category).
    pub fn new(property: &str, leg: &str, level: &str, engine: &str) -> Report {
        let args = Args::parse(&format!("{property}.{leg}"));
        Report::with_args(property, leg, level, engine, args)
    }
    pub fn with_args(property: &str, leg: &str, level: &str, engine: &str, args: Args) -> Report {
        Report {
            property: property.to_string(),
            leg: leg.to_string(),
            level: level.to_string(),
            engine: engine.to_string(),
            args,
            start: Instant::now(),
            evaluations: AtomicU64::new(0),
            distinct_nontrivial: AtomicU64::new(0),
            rule: Mutex::new(String::new()),
            exhaustive: Mutex::new(None),
            states: AtomicU64::new(0),
            transitions: AtomicU64::new(0),
            traces_validated: AtomicU64::new(0),
            counters: Counters::default(),
            samples: Mutex::new(Vec::new()),
            assumptions: Mutex::new(Vec::new()),
            extra: Mutex::new(Map::new()),
            violations: Mutex::new(Vec::new()),
            max_samples: 6,
            max_violations: 50,
        }
    }
    pub fn tier(&self) -> Tier {
        self.args.tier
    }
    pub fn eval(&self, n: u64) {
        self.evaluations.fetch_add(n, Ordering::Relaxed);
    }
    pub fn nontrivial(&self, n: u64) {
        self.distinct_nontrivial.fetch_add(n, Ordering::Relaxed);
    }
    pub fn set_rule(&self, rule: &str) {
        *self.rule.lock().unwrap() = rule.to_string();
    }
    pub fn set_exhaustive(&self, e: bool) {
        *self.exhaustive.lock().unwrap() = Some(e);
    }
    pub fn sample(&self, v: Value) {
        let mut s = self.samples.lock().unwrap();
        if s.len() < self.max_samples {
            s.push(v);
        }
    }
    pub fn assume(&self, a: &str) {
        let mut g = self.assumptions.lock().unwrap();
        if !g.iter().any(|x| x == a) {
            g.push(a.to_string());
        }
    }
    /// Extra coverage keys (bounds completed, caps hit, distinct outcomes, ...).
    pub fn note(&self, key: &str, v: Value) {
        self.extra.lock().unwrap().insert(key.to_string(), v);
    }
    pub fn violation(&self, key: &str, what: &str, case: Value) {
        let mut g = self.violations.lock().unwrap();
        // keep the first (smallest, because enumeration is simplest-first) case per key
        if g.iter().any(|v| v.key == key) {
            return;
        }
        if g.len() < self.max_violations {
            // keep human text printable: a 65536-value frame dump does not belong on a DETAIL line
            let mut what = what.to_string();
            if what.len() > 1500 {
                let mut cut = 1500;
                while !what.is_char_boundary(cut) {
                    cut -= 1;
                }
                what.truncate(cut);
                what.push_str(" ...[truncated]");
            }
            g.push(Violation { key: key.to_string(), what, case });
        }
    }
    pub fn violation_count(&self) -> usize {
        self.violations.lock().unwrap().len()
    }
    pub fn violations_snapshot(&self) -> Vec<Violation> {
        self.violations.lock().unwrap().clone()
    }

    /// Replay mode helper: load the artefact's `case`.
    pub fn replay_case(&self) -> Option<Value> {
        let p = self.args.replay.as_ref()?;
        let txt = std::fs::read_to_string(p).unwrap_or_else(|e| machinery_error(&format!("cannot read replay {p:?}: {e}")));
        let v: Value = serde_json::from_str(&txt).unwrap_or_else(|e| machinery_error(&format!("bad replay json: {e}")));
        Some(v.get("case").cloned().unwrap_or(Value::Null))
    }

    /// Finish a `--replay` run: exit 1 if the case reproduced a violation, else 0. Writes no evidence.
    pub fn finish_replay(self) -> ! {
        let v = self.violations.lock().unwrap();
        if v.is_empty() {
            println!("REPLAY property={} leg={}: did not reproduce (property held on this case)", self.property, self.leg);
            std::process::exit(0)
        }
        for x in v.iter() {
            println!("REPLAY property={} leg={} reproduced: [{}] {}", self.property, self.leg, x.key, x.what);
        }
        std::process::exit(1)
    }

    pub fn finish(self) -> ! {
        let wall = self.start.elapsed().as_secs_f64();
        let violations = self.violations.lock().unwrap().clone();
        let known = KnownFindings::load();
        let mut new_violations = 0usize;
        let mut known_hits = Vec::new();
        let mut lines = Vec::new();
        for v in &violations {
            if let Some(k) = known.matches(&self.property, &v.key) {
                known_hits.push(json!({"key": v.key, "what": k}));
                lines.push(format!("KNOWN-FINDING: property={} {} [{}]", self.property, k, v.key));
            } else {
                new_violations += 1;
                let path = write_replay(&self.property, &self.leg, &self.engine, v);
                lines.push(format!("DETAIL property={} leg={} key={} :: {}", self.property, self.leg, v.key, v.what));
                lines.push(format!("VIOLATION property={} replay={}", self.property, path.display()));
            }
        }
        let evals = self.evaluations.load(Ordering::Relaxed);
        let dn = self.distinct_nontrivial.load(Ordering::Relaxed);
        let states = self.states.load(Ordering::Relaxed);
        let transitions = self.transitions.load(Ordering::Relaxed);
        let mut cov = Map::new();
        cov.insert("evaluations".into(), json!(evals));
        cov.insert("distinct_nontrivial".into(), json!(dn));
        cov.insert("rule".into(), json!(self.rule.lock().unwrap().clone()));
        cov.insert("samples".into(), Value::Array(self.samples.lock().unwrap().clone()));
        if states > 0 || transitions > 0 {
            cov.insert("states".into(), json!(states));
            cov.insert("transitions".into(), json!(transitions));
            cov.insert("traces_validated_against_impl".into(), json!(self.traces_validated.load(Ordering::Relaxed)));
        }
        if let Some(e) = *self.exhaustive.lock().unwrap() {
            cov.insert("exhaustive".into(), json!(e));
        }
        let counters = self.counters.snapshot();
        if !counters.is_empty() {
            cov.insert("counters".into(), json!(counters));
        }
        for (k, v) in self.extra.lock().unwrap().iter() {
            cov.insert(k.clone(), v.clone());
        }
        if !known_hits.is_empty() {
            cov.insert("known_findings_hit".into(), Value::Array(known_hits));
        }
        let part = json!({
            "property_id": self.property,
            "leg": self.leg,
            "engine": self.engine,
            "tier": self.args.tier.as_str(),
            "seed": self.args.seed as i64,
            "level": self.level,
            "coverage": Value::Object(cov),
            "assumptions": self.assumptions.lock().unwrap().clone(),
            "wall_s": wall,
            "violations": new_violations,
        });
        if let Some(dir) = self.args.out.parent() {
            let _ = std::fs::create_dir_all(dir);
        }
        if let Err(e) = std::fs::write(&self.args.out, serde_json::to_string_pretty(&part).unwrap()) {
            machinery_error(&format!("cannot write evidence part {:?}: {e}", self.args.out));
        }
        println!(
            "SUMMARY property={} leg={} tier={} evaluations={} distinct_nontrivial={} states={} transitions={} violations={} known={} wall_s={:.1}",
            self.property,
            self.leg,
            self.args.tier.as_str(),
            evals,
            dn,
            states,
            transitions,
            new_violations,
            violations.len() - new_violations,
            wall
        );
        for (k, v) in &counters {
            println!("  counter {k} = {v}");
        }
        for l in lines {
            println!("{l}");
        }
        // vacuity guard: a leg that evaluated nothing proves nothing
        if evals == 0 && states == 0 {
            machinery_error("vacuous run: nothing was evaluated");
        }
        std::process::exit(if new_violations > 0 { 1 } else { 0 })
    }
}

pub fn write_replay(property: &str, leg: &str, engine: &str, v: &Violation) -> PathBuf {
    let dir = std::env::var("VERIF_REPLAY_DIR").map(PathBuf::from).unwrap_or_else(|_| PathBuf::from(format!("{VERIF_ROOT}/replays")));
    let _ = std::fs::create_dir_all(&dir);
    let h = fnv64(format!("{}|{}|{}", leg, v.key, v.case).as_bytes());
    let path = dir.join(format!("{property}-{leg}-{:012x}.json", h & 0xffff_ffff_ffff));
    let art = json!({
        "property": property,
        "leg": leg,
        "engine": engine,
        "key": v.key,
        "what": v.what,
        "case": v.case,
        "replay_cmd": format!("cd /verif && ./vf replay {}", path.display()),
    });
    let _ = std::fs::write(&path, serde_json::to_string_pretty(&art).unwrap());
    path
}

/// /verif/known_findings.json: {"known":[{"property","key","what"}], "fixed":[{"property","commit","what"}]}
/// `known` entries are matched by (property, key) where the entry key may end in `*` (prefix match).
/// `fixed` entries suppress nothing.
pub struct KnownFindings {
    known: Vec<(String, String, String)>,
}
impl KnownFindings {
    pub fn load() -> KnownFindings {
        let p = Path::new(VERIF_ROOT).join("known_findings.json");
        let mut known = Vec::new();
        if let Ok(txt) = std::fs::read_to_string(&p) {
            let v: Value = serde_json::from_str(&txt).unwrap_or_else(|e| machinery_error(&format!("known_findings.json: {e}")));
            if let Some(arr) = v.get("known").and_then(|k| k.as_array()) {
                for e in arr {
                    known.push((
                        e["property"].as_str().unwrap_or("").to_string(),
                        e["key"].as_str().unwrap_or("").to_string(),
                        e["what"].as_str().unwrap_or("").to_string(),
                    ));
                }
            }
        }
        KnownFindings { known }
    }
    pub fn matches(&self, property: &str, key: &str) -> Option<String> {
        for (p, k, w) in &self.known {
            if p != property {
                continue;
            }
            let hit = if let Some(prefix) = k.strip_suffix('*') { key.starts_with(prefix) } else { k == key };
            if hit {
                return Some(w.clone());
            }
        }
        None
    }
}

/// Run `f` catching panics; returns Err(message) on panic. The default panic hook is silenced
/// while enumerations run (call `quiet_panics()` once) so a million expected-error cases do not spam.
pub fn catch<R>(f: impl FnOnce() -> R + std::panic::UnwindSafe) -> Result<R, String> {
    match std::panic::catch_unwind(f) {
        Ok(r) => Ok(r),
        Err(e) => Err(if let Some(s) = e.downcast_ref::<&str>() {
            s.to_string()
        } else if let Some(s) = e.downcast_ref::<String>() {
            s.clone()
        } else {
            "panic (non-string payload)".to_string()
        }),
    }
}

thread_local! {
    pub static LAST_PANIC_LOCATION: std::cell::RefCell<Option<String>> = const { std::cell::RefCell::new(None) };
}

/// Replace the panic hook by one that records `file:line` in a thread-local and prints nothing.
pub fn quiet_panics() {
    std::panic::set_hook(Box::new(|info| {
        let loc = info.location().map(|l| format!("{}:{}", l.file(), l.line()));
        LAST_PANIC_LOCATION.with(|c| *c.borrow_mut() = loc);
    }));
}
pub fn last_panic_location() -> String {
    LAST_PANIC_LOCATION.with(|c| c.borrow().clone()).unwrap_or_else(|| "?".into())
}
