//! Work-queue parallelism: deterministic *set* of work, nondeterministic order. Checks must
//! therefore only aggregate with commutative operations (counters, min-by-key violations).

use std::sync::Mutex;
use std::sync::atomic::{AtomicU64, Ordering};

/// Run `f` on every item of `iter` using `jobs` threads; items are pulled in chunks.
pub fn for_each<I, T, F>(jobs: usize, chunk: usize, iter: I, f: F)
where
    I: Iterator<Item = T> + Send,
    T: Send,
    F: Fn(T) + Sync,
{
    let it = Mutex::new(iter);
    let chunk = chunk.max(1);
    std::thread::scope(|s| {
        for _ in 0..jobs.max(1) {
            s.spawn(|| {
                let mut buf = Vec::with_capacity(chunk);
                loop {
                    {
                        let mut g = it.lock().unwrap();
                        for _ in 0..chunk {
                            match g.next() {
                                Some(x) => buf.push(x),
                                None => break,
                            }
                        }
                    }
                    if buf.is_empty() {
                        return;
                    }
                    for x in buf.drain(..) {
                        f(x);
                    }
                }
            });
        }
    });
}

/// Run `f(i)` for every i in 0..n on `jobs` threads.
pub fn for_range<F>(jobs: usize, n: u64, f: F)
where
    F: Fn(u64) + Sync,
{
    let next = AtomicU64::new(0);
    std::thread::scope(|s| {
        for _ in 0..jobs.max(1) {
            s.spawn(|| {
                loop {
                    let i = next.fetch_add(1, Ordering::Relaxed);
                    if i >= n {
                        return;
                    }
                    f(i);
                }
            });
        }
    });
}

/// Map in parallel, results returned in input order.
pub fn map<T, R, F>(jobs: usize, items: Vec<T>, f: F) -> Vec<R>
where
    T: Send + Sync,
    R: Send,
    F: Fn(&T) -> R + Sync,
{
    let n = items.len();
    let out: Vec<Mutex<Option<R>>> = (0..n).map(|_| Mutex::new(None)).collect();
    let next = AtomicU64::new(0);
    std::thread::scope(|s| {
        for _ in 0..jobs.max(1).min(n.max(1)) {
            s.spawn(|| {
                loop {
                    let i = next.fetch_add(1, Ordering::Relaxed) as usize;
                    if i >= n {
                        return;
                    }
                    let r = f(&items[i]);
                    *out[i].lock().unwrap() = Some(r);
                }
            });
        }
    });
    out.into_iter().map(|m| m.into_inner().unwrap().unwrap()).collect()
}
