//! E-BFS: explicit-state breadth-first search over a *real* object. A state is the event
//! history that reaches it; the object is rebuilt by replaying the history on a fresh
//! instance (live objects hold wakers/channels and do not clone). Deduplication is on a
//! canonical form the model supplies. Deterministic: layer by layer, candidates merged in
//! frontier order, so `states`/`transitions` do not depend on the thread count.

use std::collections::HashSet;
use std::fmt::Debug;
use std::time::{Duration, Instant};

pub trait Model: Sync {
    type Event: Clone + Send + Sync + Debug;
    type Obj;
    /// Fresh real object + harness bookkeeping (reference model, handles).
    fn init(&self) -> Self::Obj;
    /// Events enabled in this state (small finite menu, simplest first).
    fn enabled(&self, obj: &Self::Obj) -> Vec<Self::Event>;
    /// Apply one event to the real object and the reference; Err = the oracle's complaint.
    fn apply(&self, obj: &mut Self::Obj, ev: &Self::Event) -> Result<(), String>;
    /// Invariants evaluated in every state (after every transition and in the initial state).
    fn check(&self, _obj: &Self::Obj) -> Result<(), String> {
        Ok(())
    }
    /// Canonical form: relabelling only; must keep everything a later transition can observe.
    fn canon(&self, obj: &Self::Obj) -> Vec<u8>;
}

#[derive(Debug, Clone)]
pub struct BfsViolation<E> {
    pub history: Vec<E>,
    pub what: String,
}

#[derive(Debug)]
pub struct BfsResult<E> {
    pub states: u64,
    pub transitions: u64,
    pub max_depth: usize,
    /// frontier emptied before the depth cap: the whole reachable space was covered
    pub fixpoint: bool,
    pub capped: Option<String>,
    pub violations: Vec<BfsViolation<E>>,
    /// a few (history) samples of deepest states
    pub sample_histories: Vec<Vec<E>>,
    pub states_per_depth: Vec<u64>,
}

pub struct BfsOpts {
    pub max_depth: usize,
    pub max_states: u64,
    pub wall: Duration,
    pub jobs: usize,
    pub max_violations: usize,
}

impl Default for BfsOpts {
    fn default() -> Self {
        BfsOpts { max_depth: 8, max_states: 5_000_000, wall: Duration::from_secs(3600), jobs: 8, max_violations: 5 }
    }
}

fn rebuild<M: Model>(m: &M, hist: &[M::Event]) -> Result<M::Obj, String> {
    let mut o = m.init();
    for e in hist {
        m.apply(&mut o, e)?;
    }
    Ok(o)
}

pub fn bfs<M: Model>(m: &M, opts: &BfsOpts) -> BfsResult<M::Event> {
    let start = Instant::now();
    let mut seen: HashSet<Vec<u8>> = HashSet::new();
    let mut res = BfsResult {
        states: 0,
        transitions: 0,
        max_depth: 0,
        fixpoint: false,
        capped: None,
        violations: Vec::new(),
        sample_histories: Vec::new(),
        states_per_depth: Vec::new(),
    };
    let o0 = m.init();
    if let Err(w) = m.check(&o0) {
        res.violations.push(BfsViolation { history: vec![], what: w });
        return res;
    }
    seen.insert(m.canon(&o0));
    drop(o0);
    res.states = 1;
    res.states_per_depth.push(1);
    let mut frontier: Vec<Vec<M::Event>> = vec![vec![]];
    let mut depth = 0usize;
    while !frontier.is_empty() {
        if depth >= opts.max_depth {
            res.capped = Some(format!("depth cap {} reached with {} frontier states", opts.max_depth, frontier.len()));
            break;
        }
        if start.elapsed() > opts.wall {
            res.capped = Some(format!("wall cap hit at depth {depth}"));
            break;
        }
        // expand every frontier state in parallel; results kept in frontier order
        type Cand<E> = (Vec<u8>, Vec<E>);
        type Expansion<E> = (u64, Vec<Cand<E>>, Vec<BfsViolation<E>>);
        let expansions: Vec<Expansion<M::Event>> = crate::par::map(opts.jobs, std::mem::take(&mut frontier), |hist| {
            let mut trans = 0u64;
            let mut cands = Vec::new();
            let mut viols = Vec::new();
            let base = match rebuild(m, hist) {
                Ok(o) => o,
                Err(w) => {
                    // replay of an accepted history must not fail: nondeterminism in the harness
                    viols.push(BfsViolation { history: hist.clone(), what: format!("REPLAY-DIVERGENCE: {w}") });
                    return (0, cands, viols);
                }
            };
            let evs = m.enabled(&base);
            drop(base);
            for ev in evs {
                let mut o = match rebuild(m, hist) {
                    Ok(o) => o,
                    Err(w) => {
                        viols.push(BfsViolation { history: hist.clone(), what: format!("REPLAY-DIVERGENCE: {w}") });
                        continue;
                    }
                };
                trans += 1;
                let mut h2 = hist.clone();
                h2.push(ev.clone());
                match m.apply(&mut o, &ev).and_then(|_| m.check(&o)) {
                    Ok(()) => cands.push((m.canon(&o), h2)),
                    Err(w) => viols.push(BfsViolation { history: h2, what: w }),
                }
            }
            (trans, cands, viols)
        });
        depth += 1;
        let mut next = Vec::new();
        for (t, cands, viols) in expansions {
            res.transitions += t;
            for v in viols {
                if res.violations.len() < opts.max_violations {
                    res.violations.push(v);
                }
            }
            for (c, h) in cands {
                if seen.insert(c) {
                    next.push(h);
                }
            }
        }
        if !next.is_empty() {
            res.max_depth = depth;
            res.states += next.len() as u64;
            res.states_per_depth.push(next.len() as u64);
            res.sample_histories = next.iter().rev().take(3).cloned().collect();
        }
        if !res.violations.is_empty() {
            break;
        }
        if res.states > opts.max_states {
            res.capped = Some(format!("state cap {} hit at depth {depth}", opts.max_states));
            break;
        }
        frontier = next;
    }
    if frontier.is_empty() && res.capped.is_none() && res.violations.is_empty() {
        res.fixpoint = true;
    }
    res
}
