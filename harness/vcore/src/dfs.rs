//! E-DFS: stateless exploration with replay. An execution is a sequence of choices; the
//! harness body asks a `Chooser` at every choice point. `explore` replays a prefix exactly,
//! follows the default (alternative 0, cost 0) afterwards, and branches on every alternative
//! whose cumulated *deviation cost* stays within the bound. Every choice sequence of total
//! cost <= bound is executed exactly once.

use std::sync::atomic::{AtomicBool, AtomicU64, Ordering};
use std::sync::{Condvar, Mutex};
use std::time::{Duration, Instant};

#[derive(Clone, Debug)]
pub struct Point {
    pub n: usize,
    pub chosen: usize,
    /// deviation cost of each alternative (costs[0] must be 0)
    pub costs: Vec<u32>,
    pub label: &'static str,
}

pub struct Chooser {
    prefix: Vec<usize>,
    pub trace: Vec<Point>,
    pub diverged: Option<String>,
}

impl Chooser {
    pub fn new(prefix: Vec<usize>) -> Chooser {
        Chooser { prefix, trace: Vec::new(), diverged: None }
    }
    /// n alternatives, alternative 0 is the default, every other one costs 1 deviation.
    pub fn choose(&mut self, label: &'static str, n: usize) -> usize {
        let mut costs = vec![1u32; n];
        if n > 0 {
            costs[0] = 0;
        }
        self.choose_costed(label, &costs)
    }
    /// n alternatives all free (cost 0): full enumeration at this point.
    pub fn choose_free(&mut self, label: &'static str, n: usize) -> usize {
        self.choose_costed(label, &vec![0u32; n])
    }
    pub fn choose_costed(&mut self, label: &'static str, costs: &[u32]) -> usize {
        let n = costs.len();
        assert!(n > 0, "choice point {label} with no alternatives");
        let i = self.trace.len();
        let chosen = if i < self.prefix.len() {
            let c = self.prefix[i];
            if c >= n {
                // A different enabled set while replaying a prefix: harness nondeterminism.
                self.diverged = Some(format!("replay divergence at point {i} ({label}): prefix wants {c}, only {n} alternatives"));
                0
            } else {
                c
            }
        } else {
            0
        };
        self.trace.push(Point { n, chosen, costs: costs.to_vec(), label });
        chosen
    }
    pub fn choices(&self) -> Vec<usize> {
        self.trace.iter().map(|p| p.chosen).collect()
    }
    pub fn cost(&self) -> u32 {
        self.trace.iter().map(|p| p.costs[p.chosen]).sum()
    }
}

#[derive(Clone, Debug)]
pub struct DfsViolation {
    pub choices: Vec<usize>,
    pub labels: Vec<&'static str>,
    pub cost: u32,
    pub what: String,
}

#[derive(Debug, Default)]
pub struct DfsResult {
    pub executions: u64,
    pub max_points: usize,
    pub bound: u32,
    pub capped: Option<String>,
    pub divergences: Vec<String>,
    /// sorted by (cost, length, lexicographic): the first is the simplest counterexample
    pub violations: Vec<DfsViolation>,
    pub sample_traces: Vec<Vec<usize>>,
}

pub struct DfsOpts {
    pub bound: u32,
    pub max_executions: u64,
    pub wall: Duration,
    pub jobs: usize,
    pub stop_at_first: bool,
}
impl Default for DfsOpts {
    fn default() -> Self {
        DfsOpts { bound: 2, max_executions: 50_000_000, wall: Duration::from_secs(3600), jobs: 8, stop_at_first: false }
    }
}

/// `body` runs one complete execution, asking the chooser; returns Err(complaint) on an oracle failure.
pub fn explore<F>(opts: &DfsOpts, body: F) -> DfsResult
where
    F: Fn(&mut Chooser) -> Result<(), String> + Sync,
{
    let start = Instant::now();
    let queue: Mutex<(Vec<Vec<usize>>, usize)> = Mutex::new((vec![vec![]], 0)); // (stack, active workers)
    let cv = Condvar::new();
    let execs = AtomicU64::new(0);
    let stop = AtomicBool::new(false);
    let out = Mutex::new(DfsResult { bound: opts.bound, ..Default::default() });
    std::thread::scope(|s| {
        for _ in 0..opts.jobs.max(1) {
            s.spawn(|| {
                loop {
                    let prefix = {
                        let mut g = queue.lock().unwrap();
                        loop {
                            if stop.load(Ordering::Relaxed) {
                                return;
                            }
                            if let Some(p) = g.0.pop() {
                                g.1 += 1;
                                break p;
                            }
                            if g.1 == 0 {
                                cv.notify_all();
                                return;
                            }
                            g = cv.wait(g).unwrap();
                        }
                    };
                    let plen = prefix.len();
                    let mut ch = Chooser::new(prefix);
                    let r = body(&mut ch);
                    let n = execs.fetch_add(1, Ordering::Relaxed) + 1;
                    let mut newp = Vec::new();
                    if ch.diverged.is_none() {
                        let mut cost_before = 0u32;
                        for i in 0..ch.trace.len() {
                            let p = &ch.trace[i];
                            if i >= plen {
                                for alt in 1..p.n {
                                    if cost_before + p.costs[alt] <= opts.bound {
                                        let mut np: Vec<usize> = ch.trace[..i].iter().map(|q| q.chosen).collect();
                                        np.push(alt);
                                        newp.push(np);
                                    }
                                }
                            }
                            cost_before += p.costs[p.chosen];
                        }
                    }
                    {
                        let mut o = out.lock().unwrap();
                        o.max_points = o.max_points.max(ch.trace.len());
                        if o.sample_traces.len() < 4 && ch.trace.len() > 2 {
                            o.sample_traces.push(ch.choices());
                        }
                        if let Some(d) = ch.diverged.take() {
                            if o.divergences.len() < 5 {
                                o.divergences.push(d);
                            }
                        } else if let Err(w) = r {
                            if o.violations.len() < 64 {
                                o.violations.push(DfsViolation {
                                    choices: ch.choices(),
                                    labels: ch.trace.iter().map(|p| p.label).collect(),
                                    cost: ch.cost(),
                                    what: w,
                                });
                            }
                            if opts.stop_at_first {
                                stop.store(true, Ordering::Relaxed);
                            }
                        }
                        if n >= opts.max_executions && o.capped.is_none() {
                            o.capped = Some(format!("execution cap {} hit", opts.max_executions));
                            stop.store(true, Ordering::Relaxed);
                        }
                        if start.elapsed() > opts.wall && o.capped.is_none() {
                            o.capped = Some(format!("wall cap {:?} hit after {} executions", opts.wall, n));
                            stop.store(true, Ordering::Relaxed);
                        }
                    }
                    let mut g = queue.lock().unwrap();
                    g.0.extend(newp);
                    g.1 -= 1;
                    cv.notify_all();
                }
            });
        }
    });
    let mut r = out.into_inner().unwrap();
    r.executions = execs.load(Ordering::Relaxed);
    r.violations.sort_by(|a, b| (a.cost, a.choices.len(), &a.choices).cmp(&(b.cost, b.choices.len(), &b.choices)));
    r
}

/// Run exactly one recorded choice sequence (replay without the explorer).
pub fn replay_one<F>(choices: &[usize], body: F) -> (Result<(), String>, Chooser)
where
    F: FnOnce(&mut Chooser) -> Result<(), String>,
{
    let mut ch = Chooser::new(choices.to_vec());
    let r = body(&mut ch);
    (r, ch)
}
