//! Child-process isolation for cases that may abort (allocation failure, stack overflow):
//! the check re-executes its own binary with a sub-command and reads the child's status,
//! so an abort is observed as a *result* instead of killing the checker.

use std::io::Write;
use std::process::{Command, Stdio};
use std::time::{Duration, Instant};

#[derive(Debug, Clone)]
pub struct ChildResult {
    pub exit_code: Option<i32>,
    pub signal: Option<i32>,
    pub stdout: Vec<u8>,
    pub stderr_tail: String,
    pub timed_out: bool,
    pub wall: Duration,
}

/// Apply an address-space limit to the current process (call in the child before working).
pub fn limit_address_space(bytes: u64) {
    unsafe {
        let lim = libc::rlimit { rlim_cur: bytes, rlim_max: bytes };
        libc::setrlimit(libc::RLIMIT_AS, &lim);
    }
}

/// Run `current_exe() args...` feeding `stdin_data`, with a wall-clock limit.
pub fn run_self(args: &[&str], stdin_data: &[u8], wall: Duration) -> ChildResult {
    use std::os::unix::process::ExitStatusExt;
    let exe = std::env::current_exe().expect("current_exe");
    let start = Instant::now();
    let mut child = Command::new(exe)
        .args(args)
        .stdin(Stdio::piped())
        .stdout(Stdio::piped())
        .stderr(Stdio::piped())
        .spawn()
        .expect("spawn child");
    let mut stdin = child.stdin.take().unwrap();
    let data = stdin_data.to_vec();
    let writer = std::thread::spawn(move || {
        let _ = stdin.write_all(&data);
    });
    let mut so = child.stdout.take().unwrap();
    let mut se = child.stderr.take().unwrap();
    let t_out = std::thread::spawn(move || {
        let mut v = Vec::new();
        let _ = std::io::Read::read_to_end(&mut so, &mut v);
        v
    });
    let t_err = std::thread::spawn(move || {
        let mut v = Vec::new();
        let _ = std::io::Read::read_to_end(&mut se, &mut v);
        v
    });
    let mut timed_out = false;
    let status = loop {
        match child.try_wait() {
            Ok(Some(st)) => break st,
            Ok(None) => {
                if start.elapsed() > wall {
                    timed_out = true;
                    let _ = child.kill();
                    break child.wait().expect("wait");
                }
                std::thread::sleep(Duration::from_millis(2));
            }
            Err(e) => crate::machinery_error(&format!("wait on child: {e}")),
        }
    };
    let _ = writer.join();
    let stdout = t_out.join().unwrap_or_default();
    let stderr = t_err.join().unwrap_or_default();
    let tail = String::from_utf8_lossy(&stderr);
    let tail: String = tail.chars().rev().take(600).collect::<String>().chars().rev().collect();
    ChildResult { exit_code: status.code(), signal: status.signal(), stdout, stderr_tail: tail, timed_out, wall: start.elapsed() }
}
