//! C14 - prepared statements survive server-side eviction transparently and faithfully.
//!
//! A STATEFUL node model scripted on top of `mockcluster` (one `handle` closure in front of the built-ins) and
//! a `World` that drives one real `Session` through an event history and checks the property's oracle after
//! every event. `bin/c14.rs` runs E-BFS (vcore::bfs) over histories with one fresh `World` per replay.
//!
//! Node model (per node): prepared-statement cache (statement x {original id, changed id}), schema version
//! (column list + result-metadata id), "poisoned" flag (PREPARE hands out a different statement id).
//!   PREPARE  -> caches, answers PREPARED with the CURRENT columns (+ metadata id when the extension was negotiated);
//!               in `late` mode the SELECT's PREPARED carries NO result columns (LIST-ROLES-like statements).
//!   EXECUTE  -> UNPREPARED if the id is not cached; otherwise rows encoded with the CURRENT columns;
//!               extension: presented id != current id -> METADATA_CHANGED + new id + columns,
//!                          presented id == current id -> NO_METADATA if skip was asked, else plain metadata;
//!               no extension: NO_METADATA iff skip was asked.
//!   BATCH    -> UNPREPARED(first id not cached) else a conditional-batch Rows result (always with metadata).
//!
//! Oracle (from the property statement; see `World::check_*`):
//!   * every UNPREPARED is followed by exactly one PREPARE of that statement on that node and then by the same
//!     request (id, values, consistency, serial consistency, page size, paging state, timestamp) and the caller
//!     gets the normal result;
//!   * a PREPARE answered with a different id is followed by NO further request and the caller gets an error;
//!   * rows the caller decodes equal the rows the node encoded whenever the node sent metadata or the presented
//!     id was current; where the statement is silent (no extension + cached metadata requested + schema altered
//!     since preparation) only "result or error, no panic, no hang";
//!   * extension: every EXECUTE presents the id that came with the most recently announced column metadata
//!     (PREPARED with columns, or Rows with METADATA_CHANGED) and asks to skip metadata; while no column metadata
//!     was announced yet it must NOT ask to skip; no extension: skip is asked iff the user asked for cached metadata;
//!   * extension: the statement's current columns (public getter) are the announced ones.

use futures::{FutureExt, StreamExt};
use mockcluster::wire::{self, BatchStmt, Cell, ColSpec, ColType, ErrorBody, PreparedResult, QueryParams, Request, Response, RowsMetadata, RowsResult, Val, col, val};
use mockcluster::{KeyspaceSpec, MockCluster, NodeSpec, Reply, ReqCtx, TableSpec};
use scylla::client::session::Session;
use scylla::client::session_builder::SessionBuilder;
use scylla::policies::load_balancing::{LoadBalancingPolicy, NodeIdentifier, SingleTargetLoadBalancingPolicy};
use scylla::statement::batch::{Batch, BatchStatement, BatchType};
use scylla::statement::prepared::PreparedStatement;
use scylla::value::{CqlValue, Row};
use std::panic::AssertUnwindSafe;
use std::sync::{Arc, Mutex};
use std::time::Duration;

pub const STMT_S: &str = "SELECT * FROM ks.t WHERE a = ?";
pub const STMT_L: &str = "INSERT INTO ks.t (a, b) VALUES (?, ?) IF NOT EXISTS";
pub const STMT_I: &str = "UPDATE ks.t SET b = ? WHERE a = ?";
pub const TEXTS: [&str; 3] = [STMT_S, STMT_L, STMT_I];
pub const S: usize = 0;
pub const L: usize = 1;
pub const I: usize = 2;
const PG1: &[u8] = b"c14pg:1";
/// generous liveness deadline for one caller request (correct code needs ~1 ms)
pub const CALL_DEADLINE: Duration = Duration::from_secs(20);

// ------------------------------------------------------------------------------------------------ configuration

#[derive(Clone, Copy, Debug, PartialEq, Eq)]
pub struct Cfg {
    /// nodes advertise SCYLLA_USE_METADATA_ID
    pub ext: bool,
    /// PreparedStatement::set_use_cached_result_metadata
    pub cached: bool,
    pub nodes: usize,
    /// the SELECT's PREPARED response carries no result columns (real metadata only with rows)
    pub late: bool,
    /// alphabet: 0 = core, 1 = + partial evictions, mid-paging events, mixed batches, 2 = + batch overlaps
    pub alpha: u8,
    /// MIXED cluster (needs nodes = 2): node 0 negotiates the metadata-id extension, node 1 does not (`ext` is ignored)
    pub mixed: bool,
    /// timestamps: bit 0 = the session has a timestamp generator, bit 1 = every statement/batch carries an explicit timestamp
    pub ts: u8,
    /// alphabet extension "other entry points and lifecycles": handle C (CachingSession execute / execute_iter / batch), manual
    /// paging (execute_single_page), the user preparing the statement again, UNPREPARED twice in a row
    pub entry: bool,
    /// with `late`: the column-less PREPARED carries the statement's REAL metadata id, and the Rows answer that later attaches the
    /// columns announces them under that SAME id (ScyllaDB's LIST ROLES OF); without it the PREPARED carries a placeholder id
    /// and the Rows answer announces columns together with a NEW id
    pub same_id: bool,
}
impl Cfg {
    pub fn name(&self) -> String {
        let mut n = format!("ext={} cached={} nodes={} late={} alpha={}", if self.mixed { "mixed".to_string() } else { (self.ext as u8).to_string() }, self.cached as u8, self.nodes, self.late as u8, self.alpha);
        if self.ts != 0 {
            n.push_str(&format!(" ts={}", self.ts));
        }
        if self.entry {
            n.push_str(" entry=1");
        }
        if self.same_id {
            n.push_str(" same_id=1");
        }
        n
    }
    /// did `node` advertise (and the driver negotiate) SCYLLA_USE_METADATA_ID?
    pub fn ext_of(&self, node: usize) -> bool {
        if self.mixed { node == 0 } else { self.ext }
    }
    pub fn any_ext(&self) -> bool {
        self.ext || self.mixed
    }
    pub fn to_json(&self) -> serde_json::Value {
        serde_json::json!({"ext": self.ext, "cached": self.cached, "nodes": self.nodes, "late": self.late, "alpha": self.alpha, "mixed": self.mixed, "ts": self.ts, "entry": self.entry, "same_id": self.same_id})
    }
    pub fn from_json(v: &serde_json::Value) -> Cfg {
        Cfg {
            ext: v["ext"].as_bool().unwrap_or(false),
            cached: v["cached"].as_bool().unwrap_or(false),
            nodes: v["nodes"].as_u64().unwrap_or(1) as usize,
            late: v["late"].as_bool().unwrap_or(false),
            alpha: v["alpha"].as_u64().unwrap_or(0) as u8,
            mixed: v["mixed"].as_bool().unwrap_or(false),
            ts: v["ts"].as_u64().unwrap_or(0) as u8,
            entry: v["entry"].as_bool().unwrap_or(false),
            same_id: v["same_id"].as_bool().unwrap_or(false),
        }
    }
}

// ------------------------------------------------------------------------------------------------ events

#[derive(Clone, Copy, Debug, PartialEq, Eq, Hash)]
pub enum Ev {
    /// execute_unpaged of the SELECT through handle A (0), B (1, prepared independently) or C (2: the statement TEXT through a
    /// CachingSession, which keeps its own prepared statement) on `node`
    Exec { h: u8, node: u8 },
    /// execute_unpaged by handle A; the node forgets the statement again right after the re-PREPARE (UNPREPARED twice in a row)
    ExecDrop { node: u8 },
    /// manual paging: Session::execute_single_page with page size 1 until NoMorePages; mid as for Paged
    Manual { node: u8, mid: u8 },
    /// the user prepares the statement again (Session::prepare) and replaces handle h (nodes may be at different schema versions)
    Reprep { h: u8 },
    /// CachingSession::batch of the two statement TEXTS
    BatchC { node: u8 },
    /// execute_iter with page size 1 over 2 rows; `mid`: 0 nothing, 1 evict / 2 alter between the pages
    Paged { h: u8, node: u8, mid: u8 },
    /// batch [conditional INSERT, UPDATE], both prepared
    Batch { node: u8 },
    /// batch [conditional INSERT (PreparedStatement), UPDATE given as a plain statement WITH values]: the driver prepares
    /// the UPDATE on the fly on the chosen connection; drop 1: the node forgets that id right after the on-the-fly PREPARE
    BatchMix { node: u8, drop: u8 },
    /// scope: 0 whole cache, 1 the SELECT only, 2 the batch's second statement only
    Evict { node: u8, scope: u8 },
    Alter { node: u8 },
    Poison { node: u8 },
    /// from now on the node attaches metadata to every Rows answer although skip_metadata was asked and the id matches
    Chatty { node: u8 },
    /// caller b (a clone of handle A: shared metadata) issues its request while caller a's UNPREPARED answer
    /// (gate 0) or re-PREPARE answer (gate 1) is parked; then both parked answers are released, a's first
    /// (first 0) or b's first (first 1). kind: 0 execute, 1 batch.
    /// gate 2 (statement cached): caller a's ROWS answer is parked, the node's schema is altered, caller b's request is
    /// issued and its answer parked too; then both are released in either order (a late answer meets newer metadata).
    Overlap { node: u8, gate: u8, first: u8, kind: u8 },
}
impl Ev {
    pub fn to_text(&self) -> String {
        match *self {
            Ev::Exec { h, node } => format!("exec:{}@{node}", ['A', 'B', 'C'][h as usize]),
            Ev::ExecDrop { node } => format!("exec+drop:A@{node}"),
            Ev::Manual { node, mid } => format!("manual{}:A@{node}", ["", "+evict", "+alter"][mid as usize]),
            Ev::Reprep { h } => format!("reprepare:{}@0", ['A', 'B', 'C'][h as usize]),
            Ev::BatchC { node } => format!("batchcaching@{node}"),
            Ev::Paged { h, node, mid } => format!("paged{}:{}@{node}", ["", "+evict", "+alter"][mid as usize], ['A', 'B', 'C'][h as usize]),
            Ev::Batch { node } => format!("batch@{node}"),
            Ev::BatchMix { node, drop } => format!("batchmix{}@{node}", ["", "+drop"][drop as usize]),
            Ev::Evict { node, scope } => format!("evict{}@{node}", ["", "-sel", "-upd"][scope as usize]),
            Ev::Alter { node } => format!("alter@{node}"),
            Ev::Poison { node } => format!("poison@{node}"),
            Ev::Chatty { node } => format!("chatty@{node}"),
            Ev::Overlap { node, gate, first, kind } => format!("overlap:{}:{}:{}@{node}", ["exec", "batch"][kind as usize], ["unprep", "prep", "rows+alter"][gate as usize], ["a1st", "b1st"][first as usize]),
        }
    }
    pub fn parse(s: &str) -> Option<Ev> {
        let (head, node) = s.rsplit_once('@')?;
        let node: u8 = node.parse().ok()?;
        let h = |c: &str| ["A", "B", "C"].iter().position(|x| *x == c).map(|i| i as u8);
        Some(match head {
            "batch" => Ev::Batch { node },
            "batchcaching" => Ev::BatchC { node },
            "exec+drop:A" => Ev::ExecDrop { node },
            "manual:A" => Ev::Manual { node, mid: 0 },
            "manual+evict:A" => Ev::Manual { node, mid: 1 },
            "manual+alter:A" => Ev::Manual { node, mid: 2 },
            "batchmix" => Ev::BatchMix { node, drop: 0 },
            "batchmix+drop" => Ev::BatchMix { node, drop: 1 },
            "evict" => Ev::Evict { node, scope: 0 },
            "evict-sel" => Ev::Evict { node, scope: 1 },
            "evict-upd" => Ev::Evict { node, scope: 2 },
            "alter" => Ev::Alter { node },
            "poison" => Ev::Poison { node },
            "chatty" => Ev::Chatty { node },
            _ => {
                let parts: Vec<&str> = head.split(':').collect();
                match parts.as_slice() {
                    ["exec", c] => Ev::Exec { h: h(c)?, node },
                    ["reprepare", c] => Ev::Reprep { h: h(c)? },
                    ["paged", c] => Ev::Paged { h: h(c)?, node, mid: 0 },
                    ["paged+evict", c] => Ev::Paged { h: h(c)?, node, mid: 1 },
                    ["paged+alter", c] => Ev::Paged { h: h(c)?, node, mid: 2 },
                    ["overlap", k, g, f] => Ev::Overlap {
                        node,
                        kind: ["exec", "batch"].iter().position(|x| x == k)? as u8,
                        gate: ["unprep", "prep", "rows+alter"].iter().position(|x| x == g)? as u8,
                        first: ["a1st", "b1st"].iter().position(|x| x == f)? as u8,
                    },
                    _ => return None,
                }
            }
        })
    }
}

// ------------------------------------------------------------------------------------------------ schema versions

pub fn stmt_id(stmt: usize, alt: bool) -> Vec<u8> {
    let mut id = mockcluster::prepared_id(TEXTS[stmt]);
    if alt {
        let n = id.len();
        id[n - 1] ^= 0xA5;
    }
    id
}
fn which_stmt(id: &[u8]) -> Option<(usize, bool)> {
    for s in 0..3 {
        for alt in [false, true] {
            if stmt_id(s, alt) == id {
                return Some((s, alt));
            }
        }
    }
    None
}
/// result-metadata id of statement `stmt` under schema version `v`
pub fn meta_id(stmt: usize, v: u8) -> Vec<u8> {
    vcore::fnv64(format!("c14:meta:{stmt}:{v}").as_bytes()).to_be_bytes().to_vec()
}
/// the id a PREPARED response without result columns carries
pub fn empty_meta_id() -> Vec<u8> {
    vcore::fnv64(b"c14:meta:empty").to_be_bytes().to_vec()
}
#[derive(Clone, Copy, PartialEq, Eq)]
enum Ty {
    Int,
    Text,
    Big,
}
fn extra_ty(i: u8) -> Ty {
    match i % 3 {
        1 => Ty::Int,
        2 => Ty::Text,
        _ => Ty::Big,
    }
}
/// columns of `SELECT *` under schema version v: a, x1..xv (inserted BEFORE b, as a new regular column that sorts first would be), b
fn table_cols(v: u8) -> Vec<(String, Ty)> {
    let mut c = vec![("a".to_string(), Ty::Int)];
    for i in 1..=v {
        c.push((format!("x{i}"), extra_ty(i)));
    }
    c.push(("b".to_string(), Ty::Text));
    c
}
fn colspecs(cols: &[(String, Ty)]) -> Vec<ColSpec> {
    cols.iter()
        .map(|(n, t)| {
            col(
                "ks",
                "t",
                n,
                match t {
                    Ty::Int => ColType::Int,
                    Ty::Text => ColType::Text,
                    Ty::Big => ColType::Bigint,
                },
            )
        })
        .collect()
}
fn select_cols(v: u8) -> Vec<ColSpec> {
    colspecs(&table_cols(v))
}
fn batch_cols(v: u8) -> Vec<ColSpec> {
    let mut c = vec![col("ks", "t", "[applied]", ColType::Boolean)];
    c.extend(select_cols(v));
    c
}
/// (wire cells, what a faithful decoder must show) of row r for `key` under version v
fn table_row(v: u8, key: i32, r: u8) -> (Vec<Cell>, Vec<String>) {
    let mut cells = Vec::new();
    let mut shown = Vec::new();
    for (name, ty) in table_cols(v) {
        if name == "a" {
            cells.push(val::int(key));
            shown.push(format!("I:{key}"));
        } else if name == "b" {
            let s = format!("b-k{key}-v{v}-r{r}");
            cells.push(val::text(&s));
            shown.push(format!("T:{s}"));
        } else {
            let i: i64 = name[1..].parse().unwrap();
            match ty {
                Ty::Int => {
                    let x = 1000 * v as i32 + 10 * i as i32 + r as i32;
                    cells.push(val::int(x));
                    shown.push(format!("I:{x}"));
                }
                Ty::Text => {
                    let s = format!("x{i}-v{v}-r{r}");
                    cells.push(val::text(&s));
                    shown.push(format!("T:{s}"));
                }
                Ty::Big => {
                    let x = 1_000_000 * v as i64 + 10 * i + r as i64;
                    cells.push(val::bigint(x));
                    shown.push(format!("L:{x}"));
                }
            }
        }
    }
    (cells, shown)
}
pub fn expected_select_row(v: u8, key: i32, r: u8) -> String {
    table_row(v, key, r).1.join(",")
}
pub fn expected_batch_row(v: u8, key: i32) -> String {
    format!("B:true,{}", table_row(v, key, 0).1.join(","))
}
pub fn col_names(v: u8) -> Vec<String> {
    table_cols(v).into_iter().map(|(n, _)| n).collect()
}
fn show_value(v: &Option<CqlValue>) -> String {
    match v {
        None => "null".into(),
        Some(CqlValue::Int(i)) => format!("I:{i}"),
        Some(CqlValue::BigInt(i)) => format!("L:{i}"),
        Some(CqlValue::Text(s)) => format!("T:{s}"),
        Some(CqlValue::Boolean(b)) => format!("B:{b}"),
        Some(other) => format!("?{other:?}"),
    }
}
fn show_row(r: &Row) -> String {
    r.columns.iter().map(show_value).collect::<Vec<_>>().join(",")
}

// ------------------------------------------------------------------------------------------------ node model

#[derive(Clone, Debug, Default, PartialEq, Eq)]
pub struct NodeM {
    /// cache[stmt][alt]
    pub cache: [[bool; 2]; 3],
    pub version: u8,
    pub poisoned: bool,
    /// the node attaches result metadata to every Rows answer even when skip_metadata was asked and the presented id is current
    pub chatty: bool,
}

#[derive(Clone, Debug, PartialEq, Eq)]
pub enum Req {
    Prepare { stmt: usize },
    Execute { stmt: usize, alt: bool, mid: Option<Vec<u8>>, params: QueryParams },
    Batch { items: Vec<(usize, bool, Vec<Val>)>, kind: u8, consistency: u16, flags: u8, serial: Option<u16>, timestamp: Option<i64> },
}
#[derive(Clone, Debug, PartialEq, Eq)]
pub enum Resp {
    Unprepared { stmt: usize },
    /// `alt`: the id handed out differs from the statement's original id
    Prepared { stmt: usize, alt: bool, version: u8, with_cols: bool, mid: Option<Vec<u8>> },
    /// page: 0 / 1, or 255 = unpaged
    Rows { version: u8, sent_metadata: bool, changed: bool, page: u8 },
    BatchRows { version: u8 },
    Void,
}
#[derive(Clone, Debug)]
pub struct Rec {
    pub node: usize,
    pub conn: u64,
    pub req: Req,
    pub resp: Resp,
}
impl Rec {
    /// first bound value of the request as an int (callers are told apart by it)
    pub fn key(&self) -> Option<i32> {
        let v = match &self.req {
            Req::Execute { params, .. } => params.values.first()?,
            Req::Batch { items, .. } => items.first()?.2.first()?,
            Req::Prepare { .. } => return None,
        };
        v.as_bytes().and_then(|b| <[u8; 4]>::try_from(b).ok()).map(i32::from_be_bytes)
    }
    pub fn describe(&self) -> String {
        let req = match &self.req {
            Req::Prepare { stmt } => format!("PREPARE {}", ["S", "L", "I"][*stmt]),
            Req::Execute { stmt, alt, mid, params } => format!(
                "EXECUTE {}{} key={:?} mid={} skip={} page_size={:?} state={:?}{}",
                ["S", "L", "I"][*stmt],
                if *alt { "'" } else { "" },
                self.key(),
                mid.as_ref().map(|m| describe_mid(m)).unwrap_or_else(|| "-".into()),
                params.skip_metadata,
                params.page_size,
                params.paging_state.as_ref().map(|p| String::from_utf8_lossy(p).to_string()),
                params.timestamp.map(|t| format!(" ts={t}")).unwrap_or_default()
            ),
            Req::Batch { items, timestamp, .. } => format!(
                "BATCH {:?} key={:?}{}",
                items.iter().map(|(s, a, _)| format!("{}{}", ["S", "L", "I"][*s], if *a { "'" } else { "" })).collect::<Vec<_>>(),
                self.key(),
                timestamp.map(|t| format!(" ts={t}")).unwrap_or_default()
            ),
        };
        let resp = match &self.resp {
            Resp::Unprepared { stmt } => format!("UNPREPARED {}", ["S", "L", "I"][*stmt]),
            Resp::Prepared { stmt, alt, version, with_cols, mid } => format!(
                "PREPARED {}{} v{version} cols={} mid={}",
                ["S", "L", "I"][*stmt],
                if *alt { "' (CHANGED ID)" } else { "" },
                with_cols,
                mid.as_ref().map(|m| describe_mid(m)).unwrap_or_else(|| "-".into())
            ),
            Resp::Rows { version, sent_metadata, changed, page } => format!("ROWS v{version} metadata={sent_metadata} changed={changed} page={page}"),
            Resp::BatchRows { version } => format!("BATCH-ROWS v{version}"),
            Resp::Void => "VOID".into(),
        };
        format!("n{} c{} {req} -> {resp}", self.node, self.conn)
    }
}
/// At most 12 frames of a trace (a looping driver produces thousands).
pub fn show_recs(recs: &[Rec]) -> Vec<String> {
    let mut v: Vec<String> = recs.iter().take(12).map(|r| r.describe()).collect();
    if recs.len() > 12 {
        v.push(format!("... {} more frames", recs.len() - 12));
    }
    v
}
pub fn describe_mid(m: &[u8]) -> String {
    if m.is_empty() {
        return "[]".into();
    }
    if m == empty_meta_id() {
        return "EMPTY".into();
    }
    for s in 0..3 {
        for v in 0..16u8 {
            if meta_id(s, v) == m {
                return format!("{}v{v}", ["S", "L", "I"][s]);
            }
        }
    }
    vcore::hex(m)
}

pub struct NodeModel {
    pub late: bool,
    pub same_id: bool,
    pub nodes: Vec<NodeM>,
    pub trace: Vec<Rec>,
    /// armed by a Paged event: (node, 1 evict / 2 alter) applied right after the node answered page 0
    pub mid: Option<(usize, u8)>,
    /// armed by a BatchMix event: (node, stmt) forgotten right after the node answered the next PREPARE of it
    pub drop_after_prepare: Option<(usize, usize)>,
    /// one-shot, world set-up only: this node answers the next PREPARE of the SELECT with an error (so that Session::prepare
    /// keeps the OTHER node's PREPARED answer: in the mixed cluster that decides whether the statement holds a metadata id)
    pub refuse_prepare: Option<usize>,
    pub malformed: Vec<String>,
}

fn key_of(values: &[Val]) -> i32 {
    values.first().and_then(|v| v.as_bytes()).and_then(|b| <[u8; 4]>::try_from(b).ok()).map(i32::from_be_bytes).unwrap_or(-1)
}

impl NodeModel {
    fn react(&mut self, ctx: &ReqCtx) -> Option<Reply> {
        let n = ctx.node;
        match ctx.request {
            Request::Prepare { text } => {
                let stmt = TEXTS.iter().position(|t| t == text)?;
                if stmt == S && self.refuse_prepare == Some(n) {
                    self.refuse_prepare = None;
                    return Some(Reply::error(ErrorBody::overloaded("c14: this node does not take the statement now")));
                }
                let node = &mut self.nodes[n];
                let alt = node.poisoned;
                node.cache[stmt][alt as usize] = true;
                if self.drop_after_prepare == Some((n, stmt)) {
                    self.drop_after_prepare = None;
                    self.nodes[n].cache[stmt] = [false, false];
                }
                let v = self.nodes[n].version;
                let (bind_cols, pk_indexes) = match stmt {
                    S => (vec![col("ks", "t", "a", ColType::Int)], vec![0u16]),
                    L => (vec![col("ks", "t", "a", ColType::Int), col("ks", "t", "b", ColType::Text)], vec![0u16]),
                    _ => (vec![col("ks", "t", "b", ColType::Text), col("ks", "t", "a", ColType::Int)], vec![1u16]),
                };
                let cols = match stmt {
                    S if self.late => vec![],
                    S => select_cols(v),
                    L => batch_cols(v),
                    _ => vec![],
                };
                let with_cols = !cols.is_empty();
                let mid = ctx.metadata_id.then(|| if with_cols || (stmt == S && self.same_id) { meta_id(stmt, v) } else { empty_meta_id() });
                self.trace.push(Rec { node: n, conn: ctx.conn, req: Req::Prepare { stmt }, resp: Resp::Prepared { stmt, alt, version: v, with_cols, mid: mid.clone() } });
                Some(
                    Response::Prepared(PreparedResult {
                        id: stmt_id(stmt, alt),
                        result_metadata_id: mid,
                        bind_cols,
                        pk_indexes,
                        result: RowsMetadata { no_metadata: !with_cols, cols, ..Default::default() },
                        extra_flags: 0,
                    })
                    .into(),
                )
            }
            Request::Execute { id, result_metadata_id, params } => {
                let (stmt, alt) = which_stmt(id)?;
                let req = Req::Execute { stmt, alt, mid: result_metadata_id.clone(), params: params.clone() };
                if !self.nodes[n].cache[stmt][alt as usize] {
                    self.trace.push(Rec { node: n, conn: ctx.conn, req, resp: Resp::Unprepared { stmt } });
                    return Some(Reply::error(ErrorBody::unprepared(id)));
                }
                if stmt != S {
                    self.trace.push(Rec { node: n, conn: ctx.conn, req, resp: Resp::Void });
                    return Some(Reply::void());
                }
                let v = self.nodes[n].version;
                let key = key_of(&params.values);
                let all: Vec<Vec<Cell>> = (0..2).map(|r| table_row(v, key, r).0).collect();
                let paged = matches!(params.page_size, Some(ps) if ps > 0 && (ps as usize) < all.len());
                let (page, rows, next): (u8, Vec<Vec<Cell>>, Option<Vec<u8>>) = if !paged {
                    (255, all, None)
                } else if params.paging_state.as_deref() == Some(PG1) {
                    (1, all[1..].to_vec(), None)
                } else if params.paging_state.is_none() {
                    (0, all[..1].to_vec(), Some(PG1.to_vec()))
                } else {
                    self.malformed.push(format!("unknown paging state {:?}", params.paging_state));
                    (255, all, None)
                };
                let current = meta_id(S, v);
                let (no_metadata, new_id) = if ctx.metadata_id {
                    if result_metadata_id.as_deref() != Some(&current[..]) { (false, Some(current)) } else { (params.skip_metadata, None) }
                } else {
                    (params.skip_metadata, None)
                };
                let no_metadata = no_metadata && !self.nodes[n].chatty;
                self.trace.push(Rec { node: n, conn: ctx.conn, req, resp: Resp::Rows { version: v, sent_metadata: !no_metadata, changed: new_id.is_some(), page } });
                if page == 0 {
                    if let Some((mn, what)) = self.mid {
                        if mn == n {
                            self.mid = None;
                            match what {
                                1 => self.nodes[n].cache[S] = [false, false],
                                _ => self.nodes[n].version += 1,
                            }
                        }
                    }
                }
                Some(Reply::response(Response::Rows(RowsResult {
                    metadata: RowsMetadata { cols: select_cols(v), paging_state: next, no_metadata, new_metadata_id: new_id },
                    rows,
                    honor_skip_metadata: false,
                })))
            }
            Request::Batch { kind, statements, consistency, flags, serial_consistency, timestamp } => {
                let mut items = Vec::new();
                for s in statements {
                    match s {
                        BatchStmt::Prepared { id, values } => {
                            let (stmt, alt) = which_stmt(id)?;
                            items.push((stmt, alt, values.clone()));
                        }
                        BatchStmt::Query { .. } => return None,
                    }
                }
                let req = Req::Batch { items: items.clone(), kind: *kind, consistency: *consistency, flags: *flags, serial: *serial_consistency, timestamp: *timestamp };
                for (stmt, alt, _) in &items {
                    if !self.nodes[n].cache[*stmt][*alt as usize] {
                        self.trace.push(Rec { node: n, conn: ctx.conn, req, resp: Resp::Unprepared { stmt: *stmt } });
                        return Some(Reply::error(ErrorBody::unprepared(&stmt_id(*stmt, *alt))));
                    }
                }
                let v = self.nodes[n].version;
                let key = items.first().map(|(_, _, vals)| key_of(vals)).unwrap_or(-1);
                let mut cells = vec![val::boolean(true)];
                cells.extend(table_row(v, key, 0).0);
                self.trace.push(Rec { node: n, conn: ctx.conn, req, resp: Resp::BatchRows { version: v } });
                Some(Reply::response(Response::Rows(RowsResult { metadata: RowsMetadata { cols: batch_cols(v), ..Default::default() }, rows: vec![cells], honor_skip_metadata: false })))
            }
            Request::Malformed { opcode, why } if *opcode == wire::op::EXECUTE || *opcode == wire::op::BATCH || *opcode == wire::op::PREPARE => {
                self.malformed.push(format!("opcode 0x{opcode:02x}: {why}"));
                None
            }
            _ => None,
        }
    }
}

// ------------------------------------------------------------------------------------------------ violations

#[derive(Clone, Debug)]
pub struct Viol {
    pub key: String,
    pub text: String,
}
fn viol<T>(key: &str, text: String) -> Result<T, Viol> {
    Err(Viol { key: key.to_string(), text })
}

/// Why a world did not come up.
#[derive(Clone, Debug)]
pub enum SetupFail {
    /// the harness itself failed (mock cannot bind, session cannot connect, ports exhausted): exit 2, never a verdict
    Machinery(String),
    /// the mock answered correctly and the DRIVER failed (initial PREPARE, warm-up EXECUTE): a violation like any other
    Violation(Viol),
}

/// What a caller saw.
#[derive(Clone, Debug, PartialEq, Eq)]
pub enum Outcome {
    /// decoded rows (`show_row`), column names when the API exposes them
    Rows { rows: Vec<String>, names: Option<Vec<String>> },
    Err(String),
    Panic(String),
    Hang,
}

#[derive(Clone, Copy, Debug, PartialEq, Eq)]
enum Call {
    Exec,
    Paged,
    Batch,
    BatchMix,
    Manual,
    BatchC,
}

/// Reference knowledge about one statement handle (what the server ANNOUNCED to it).
#[derive(Clone, Debug, PartialEq, Eq)]
pub struct RefH {
    /// schema version of the most recent announcement that carried columns (PREPARED with columns; Rows with a new id)
    pub usable: Option<u8>,
    /// most recently announced id of any kind (incl. the column-less PREPARED of `late` mode)
    pub last_id: Option<Vec<u8>>,
    /// schema version at the handle's preparation (what a non-extension driver caches for good)
    pub prep_version: u8,
    /// mixed cluster only: Session::prepare keeps the PREPARED answer of whichever node it iterates first, so until the
    /// first EXECUTE on the extension node it is unknown whether the statement holds an id (it presents Sv0 or the empty id)
    pub id_unknown: bool,
}

pub struct World {
    pub cfg: Cfg,
    rt: Option<&'static tokio::runtime::Runtime>,
    cluster: MockCluster,
    session: Option<Arc<Session>>,
    pub model: Arc<Mutex<NodeModel>>,
    handles: Vec<PreparedStatement>,
    caching: Arc<scylla::client::caching_session::CachingSession>,
    /// armed by ExecDrop for the next sequential call
    arm_drop_select: bool,
    stmt_l: PreparedStatement,
    stmt_i: PreparedStatement,
    policies: Vec<Arc<dyn LoadBalancingPolicy>>,
    pub refh: Vec<RefH>,
    /// branch labels hit by the most recent `apply` (drained by the explorer into counters)
    pub branches: Vec<&'static str>,
    /// human-readable wire trace of everything so far (for --replay)
    pub story: Vec<String>,
    pub verbose: bool,
    /// events applied so far (the history of this world)
    pub applied: Vec<Ev>,
    /// deviations from the statement that do not stop the exploration (key, text); the reference then follows the
    /// driver so that the rest of the space stays reachable. Drained by the explorer into violations.
    pub findings: Vec<(String, String)>,
}

/// explicit timestamp put on every statement / batch when `cfg.ts` bit 1 is set
pub const EXPLICIT_TS: i64 = 1_234_567_000;
/// first value of the session's timestamp generator when `cfg.ts` bit 0 is set (strictly increasing from there)
pub const GENERATED_TS_BASE: i64 = 9_000_000_000;
fn explicit_ts(cfg: Cfg) -> Option<i64> {
    (cfg.ts & 2 != 0).then_some(EXPLICIT_TS)
}
#[derive(Debug)]
struct CountingTimestamps(std::sync::atomic::AtomicI64);
impl scylla::policies::timestamp_generator::TimestampGenerator for CountingTimestamps {
    fn next_timestamp(&self) -> i64 {
        self.0.fetch_add(1, std::sync::atomic::Ordering::SeqCst)
    }
}

/// One multi-threaded runtime for all worlds of the process (a world = one mock cluster + one Session; creating
/// a runtime per history costs more than the history itself). Explorer threads enter it with `block_on`.
fn shared_runtime() -> &'static tokio::runtime::Runtime {
    static RT: std::sync::OnceLock<tokio::runtime::Runtime> = std::sync::OnceLock::new();
    RT.get_or_init(|| {
        let n = std::thread::available_parallelism().map(|n| n.get()).unwrap_or(4).clamp(4, 16);
        tokio::runtime::Builder::new_multi_thread().worker_threads(n).enable_all().build().unwrap_or_else(|e| vcore::machinery_error(&format!("tokio runtime: {e}")))
    })
}

impl Drop for World {
    fn drop(&mut self) {
        if let Some(rt) = self.rt.take() {
            let cluster = self.cluster.clone();
            // Close every listener BEFORE the connections are reset: otherwise the driver's control connection, reset
            // on node 0, fails over to a node that still listens; that late connection can miss shutdown()'s snapshot
            // and is then closed by the CLIENT (TIME_WAIT; ~30k of them exhaust the ephemeral ports the driver binds).
            rt.block_on(async move {
                for i in 0..cluster.node_count() {
                    cluster.stop_listening(i).await;
                }
                cluster.shutdown().await
            });
            drop(self.session.take());
            if std::env::var_os("C14_DUMP_LOG").is_some() {
                println!("{}", self.cluster.dump_log());
            }
        }
    }
}

impl World {
    pub fn new(cfg: Cfg) -> Result<World, SetupFail> {
        Self::new_inner(cfg).map_err(|e| match e.strip_prefix("VIOLATION ") {
            Some(rest) => {
                let (key, text) = rest.split_once('|').unwrap_or(("setup:failed", rest));
                SetupFail::Violation(Viol { key: key.to_string(), text: text.to_string() })
            }
            None => SetupFail::Machinery(e),
        })
    }

    fn new_inner(cfg: Cfg) -> Result<World, String> {
        let rt = shared_runtime();
        let model = Arc::new(Mutex::new(NodeModel { late: cfg.late, same_id: cfg.same_id, nodes: vec![NodeM::default(); cfg.nodes], trace: Vec::new(), mid: None, drop_after_prepare: None, refuse_prepare: None, malformed: Vec::new() }));
        let m2 = model.clone();
        let m3 = model.clone();
        let built = rt.block_on(async move {
            let mut b = MockCluster::builder();
            for i in 0..cfg.nodes {
                let mut ns = NodeSpec::new("dc1", "r1", vec![-3_000_000_000_000_000_000 + 4_000_000_000_000_000_000 * i as i64]);
                ns.metadata_id = cfg.ext_of(i);
                b = b.node(ns);
            }
            b = b.keyspace(KeyspaceSpec::simple("ks", 1).table(TableSpec::new("t").pk("a", "int").col("b", "text")));
            let cluster = b.build().await?;
            cluster.handle(move |ctx| m2.lock().unwrap_or_else(|e| e.into_inner()).react(ctx));
            let mut sb = SessionBuilder::new().known_node(cluster.contact_point(0));
            if cfg.ts & 1 != 0 {
                sb = sb.timestamp_generator(Arc::new(CountingTimestamps(std::sync::atomic::AtomicI64::new(GENERATED_TS_BASE))));
            }
            let session = sb.build().await.map_err(|e| format!("session did not come up: {e}\n{}", cluster.dump_log()))?;
            let mut handles = Vec::new();
            for i in 0..2 {
                if cfg.mixed {
                    // handle A is prepared through the extension node only (holds the metadata id), handle B through the node
                    // WITHOUT the extension only (columns, no id): Session::prepare keeps the first successful answer
                    m3.lock().unwrap().refuse_prepare = Some(1 - i);
                }
                let mut ps = session.prepare(STMT_S).await.map_err(|e| format!("initial prepare: {e}"))?;
                ps.set_use_cached_result_metadata(cfg.cached);
                ps.set_timestamp(explicit_ts(cfg));
                handles.push(ps);
            }
            let session = Arc::new(session);
            // handle C: the statement text through a CachingSession (own prepared statement, kept in its cache)
            let caching = Arc::new(scylla::client::caching_session::CachingSessionBuilder::new_shared(session.clone()).use_cached_result_metadata(cfg.cached).build());
            if cfg.entry {
                handles.push(caching.add_prepared_statement(&scylla::statement::unprepared::Statement::new(STMT_S)).await.map_err(|e| format!("initial prepare (caching): {e}"))?);
                for t in [STMT_L, STMT_I] {
                    caching.add_prepared_statement(&scylla::statement::unprepared::Statement::new(t)).await.map_err(|e| format!("initial prepare (caching): {e}"))?;
                }
            } else {
                // handle C is not driven in this configuration: a placeholder that shares B's state keeps the indices stable
                let placeholder = handles[1].clone();
                handles.push(placeholder);
            }
            let mut stmt_l = session.prepare(STMT_L).await.map_err(|e| format!("initial prepare: {e}"))?;
            stmt_l.set_use_cached_result_metadata(cfg.cached);
            stmt_l.set_timestamp(explicit_ts(cfg));
            let mut stmt_i = session.prepare(STMT_I).await.map_err(|e| format!("initial prepare: {e}"))?;
            stmt_i.set_use_cached_result_metadata(cfg.cached);
            stmt_i.set_timestamp(explicit_ts(cfg));
            let policies: Vec<Arc<dyn LoadBalancingPolicy>> = (0..cfg.nodes).map(|n| SingleTargetLoadBalancingPolicy::new(NodeIdentifier::HostId(cluster.host_id(n)), None)).collect();
            Ok::<_, String>((cluster, session, caching, handles, stmt_l, stmt_i, policies))
        });
        let (cluster, session, caching, handles, stmt_l, stmt_i, policies) = match built {
            Ok(x) => x,
            Err(e) => {
                // an initial PREPARE that the node answered (it is in the model's trace) and the driver still rejected is
                // the driver's failure; connection-level trouble (ports exhausted, pool broken) is the harness's
                let answered = !model.lock().unwrap().trace.is_empty();
                let infra = ["pool", "Address already in use", "onnection", "did not come up", "bind"].iter().any(|w| e.contains(w));
                if e.starts_with("initial prepare") && answered && !infra {
                    return Err(format!("VIOLATION setup:prepare-failed|the node answered the initial PREPAREs, yet Session::prepare failed: {e}"));
                }
                return Err(e);
            }
        };
        // every node must have seen every initial PREPARE (Session::prepare goes to all nodes)
        {
            let m = model.lock().unwrap();
            for (i, n) in m.nodes.iter().enumerate() {
                if !(n.cache[S][0] && n.cache[L][0] && n.cache[I][0]) {
                    return Err(format!("node {i} did not see the initial PREPAREs: {:?}", n.cache));
                }
            }
        }
        if cfg.same_id && !cfg.late {
            return Err("same_id needs late = true".into());
        }
        if cfg.mixed && (cfg.nodes != 2 || cfg.late) {
            return Err("mixed needs nodes = 2 and late = false".into());
        }
        let first = RefH {
            usable: if cfg.late { None } else { Some(0) },
            last_id: cfg.any_ext().then(|| if cfg.late && !cfg.same_id { empty_meta_id() } else { meta_id(S, 0) }),
            prep_version: 0,
            id_unknown: false,
        };
        let w = World {
            cfg,
            rt: Some(rt),
            cluster,
            session: Some(session),
            model,
            handles,
            caching,
            arm_drop_select: false,
            stmt_l,
            stmt_i,
            policies,
            // mixed: B was prepared through the node without the extension: it holds columns but no id until an extension node
            // tells it one (it must then present the EMPTY id there; `id_unknown` also tolerates the announced one)
            refh: vec![first.clone(), RefH { id_unknown: cfg.mixed, ..first.clone() }, RefH { id_unknown: cfg.mixed, ..first }],
            branches: Vec::new(),
            story: Vec::new(),
            verbose: false,
            applied: Vec::new(),
            findings: Vec::new(),
        };
        let mut w = w;
        if cfg.mixed {
            // Handles A and B are settled by construction (see above). Handle C (CachingSession, only with `entry`) is prepared
            // by the CachingSession itself from whichever node the driver's randomly ordered node map yields first: one warm-up
            // EXECUTE on the extension node settles whether it holds an id, so histories start from ONE state.
            for h in 2..(if cfg.entry { 3 } else { 2 }) {
                let fut = w.call_future(Call::Exec, h, 0, 1 + h as i32);
                let from = w.trace_len();
                let outcome = w.rt.as_ref().unwrap().block_on(fut);
                let recs = w.trace_from(from);
                let want = vec![expected_select_row(0, 1 + h as i32, 0), expected_select_row(0, 1 + h as i32, 1)];
                match outcome {
                    Outcome::Rows { ref rows, .. } if *rows == want => {}
                    other => {
                        // the mock answered (frames below) and the driver did not deliver the rows: the property's business
                        let answered = recs.iter().any(|r| matches!(r.resp, Resp::Rows { .. }));
                        if answered {
                            return Err(format!(
                                "VIOLATION setup:warm-up-decoding-failed|warm-up EXECUTE of handle {h} on the extension node: the node encoded {want:?} (metadata attached), the caller saw {other:?}; frames: {:?}",
                                show_recs(&recs[..])
                            ));
                        }
                        if let Some(x) = w.model.lock().unwrap().malformed.first() {
                            return Err(format!("VIOLATION frame:malformed|warm-up EXECUTE of handle {h} on the extension node: the node could not parse the request as negotiated on that connection: {x}; the caller saw {other:?}"));
                        }
                        return Err(format!("mixed-cluster warm-up EXECUTE failed before the node answered: {other:?}; frames: {:?}", show_recs(&recs[..])));
                    }
                }
                w.refh[h].id_unknown = false;
            }
        }
        Ok(w)
    }

    pub fn node_state(&self) -> Vec<NodeM> {
        self.model.lock().unwrap().nodes.clone()
    }

    /// Columns of handle h as the PUBLIC getter shows them.
    pub fn getter_cols(&self, h: usize) -> Vec<String> {
        self.handles[h].get_current_result_set_col_specs().get().iter().map(|c| c.name().to_string()).collect()
    }

    /// Canonical form: per-node cache + schema + poison, per-handle announced state and what the public getter shows.
    pub fn canon(&self) -> Vec<u8> {
        let mut out = Vec::new();
        for n in self.node_state() {
            let mut bits = 0u8;
            for s in 0..3 {
                for a in 0..2 {
                    bits = (bits << 1) | n.cache[s][a] as u8;
                }
            }
            out.extend([bits, n.version, n.poisoned as u8 | (n.chatty as u8) << 1]);
        }
        for h in 0..(if self.cfg.entry { 3 } else { 2 }) {
            out.push(self.refh[h].usable.map(|v| v + 1).unwrap_or(0));
            out.push(self.refh[h].id_unknown as u8);
            out.push(self.getter_cols(h).len() as u8);
            out.push(self.refh[h].last_id.as_ref().map(|i| (vcore::fnv64(i) & 0xff) as u8).unwrap_or(0));
        }
        out
    }

    /// Events enabled in the current state, simplest first.
    pub fn enabled(&self, max_version: u8) -> Vec<Ev> {
        let nodes = self.node_state();
        let mut v = Vec::new();
        for (i, n) in nodes.iter().enumerate() {
            let node = i as u8;
            v.push(Ev::Exec { h: 0, node });
            v.push(Ev::Evict { node, scope: 0 });
            if n.version < max_version {
                v.push(Ev::Alter { node });
            }
            v.push(Ev::Exec { h: 1, node });
            v.push(Ev::Batch { node });
            v.push(Ev::Paged { h: 0, node, mid: 0 });
            if !n.poisoned {
                v.push(Ev::Poison { node });
            }
            if self.cfg.alpha >= 1 && !n.chatty {
                v.push(Ev::Chatty { node });
            }
            if self.cfg.alpha >= 1 && !n.poisoned {
                v.push(Ev::BatchMix { node, drop: 0 });
                v.push(Ev::BatchMix { node, drop: 1 });
            }
            if self.cfg.entry {
                // other entry points reaching the same logic
                v.push(Ev::Exec { h: 2, node });
                v.push(Ev::Paged { h: 2, node, mid: 0 });
                v.push(Ev::BatchC { node });
                v.push(Ev::Manual { node, mid: 0 });
                v.push(Ev::Manual { node, mid: 1 });
                if !n.cache[S][0] && !n.poisoned {
                    v.push(Ev::ExecDrop { node });
                }
                // only while all nodes are at the same schema version: Session::prepare keeps the PREPARED answer of whichever
                // node its randomly ordered node map yields first, and with different versions that choice would make replays of
                // one history diverge (seen: an event enabled in one replay met a different cache state in the next)
                if i == 0 && nodes.iter().all(|x| !x.poisoned && x.version == nodes[0].version) {
                    v.push(Ev::Reprep { h: 0 });
                }
            }
            if self.cfg.alpha >= 1 {
                v.push(Ev::Evict { node, scope: 1 });
                v.push(Ev::Evict { node, scope: 2 });
                v.push(Ev::Paged { h: 0, node, mid: 1 });
                if n.version < max_version {
                    v.push(Ev::Paged { h: 0, node, mid: 2 });
                }
            }
            if !n.cache[S][0] {
                for gate in 0..2 {
                    for first in 0..2 {
                        v.push(Ev::Overlap { node, gate, first, kind: 0 });
                    }
                }
            }
            if self.cfg.alpha >= 1 && n.cache[S][0] && n.version < max_version {
                for first in 0..2 {
                    v.push(Ev::Overlap { node, gate: 2, first, kind: 0 });
                }
            }
            if self.cfg.alpha >= 2 && !n.cache[L][0] {
                for gate in 0..2 {
                    for first in 0..2 {
                        v.push(Ev::Overlap { node, gate, first, kind: 1 });
                    }
                }
            }
        }
        v
    }

    // -------------------------------------------------------------------------------------------- driving the session

    fn call_future(&self, call: Call, h: usize, node: usize, key: i32) -> impl std::future::Future<Output = Outcome> + Send + 'static {
        let session = self.session.as_ref().unwrap().clone();
        let policy = self.policies[node].clone();
        let mut ps = self.handles[h].clone();
        let (l, i) = (self.stmt_l.clone(), self.stmt_i.clone());
        let cfg = self.cfg;
        let caching = self.caching.clone();
        let via_cache = h == 2;
        // for handle C the caller hands the TEXT (with its per-request settings) to the CachingSession
        let text_stmt = move |text: &str, policy: Arc<dyn LoadBalancingPolicy>, page: Option<i32>| {
            let mut st = scylla::statement::unprepared::Statement::new(text);
            st.set_load_balancing_policy(Some(policy));
            st.set_timestamp(explicit_ts(cfg));
            if let Some(p) = page {
                st.set_page_size(p);
            }
            st
        };
        async move {
            let work = async move {
                match call {
                    Call::Exec => {
                        ps.set_load_balancing_policy(Some(policy.clone()));
                        let res = if via_cache {
                            caching.execute_unpaged(text_stmt(STMT_S, policy, None), (key,)).await.map_err(|e| format!("caching execute_unpaged: {e}"))?
                        } else {
                            session.execute_unpaged(&ps, (key,)).await.map_err(|e| format!("execute_unpaged: {e}"))?
                        };
                        let rows = res.into_rows_result().map_err(|e| format!("into_rows_result: {e}"))?;
                        let names: Vec<String> = rows.column_specs().iter().map(|c| c.name().to_string()).collect();
                        let mut out = Vec::new();
                        for r in rows.rows::<Row>().map_err(|e| format!("rows(): {e}"))? {
                            out.push(show_row(&r.map_err(|e| format!("row: {e}"))?));
                        }
                        Ok::<_, String>(Outcome::Rows { rows: out, names: Some(names) })
                    }
                    Call::Paged => {
                        ps.set_load_balancing_policy(Some(policy.clone()));
                        ps.set_page_size(1);
                        let pager = if via_cache {
                            caching.execute_iter(text_stmt(STMT_S, policy, Some(1)), (key,)).await.map_err(|e| format!("caching execute_iter: {e}"))?
                        } else {
                            session.execute_iter(ps, (key,)).await.map_err(|e| format!("execute_iter: {e}"))?
                        };
                        let mut stream = pager.rows_stream::<Row>().map_err(|e| format!("rows_stream: {e}"))?;
                        // The consumer keeps polling to the END of the stream even after a row error: the pager's worker
                        // prefetches the next page, so only a finished stream guarantees that no frame of this call is
                        // still on its way when the next event starts (histories must replay deterministically).
                        let mut rows: Vec<Row> = Vec::new();
                        let mut first_err: Option<String> = None;
                        let mut polls = 0usize;
                        while let Some(item) = stream.next().await {
                            match item {
                                Ok(r) => rows.push(r),
                                Err(e) => {
                                    first_err.get_or_insert(format!("next row: {e}"));
                                }
                            }
                            polls += 1;
                            if polls > 10_000 {
                                return Err("next row: stream yields items forever".to_string());
                            }
                        }
                        if let Some(e) = first_err {
                            return Err(e);
                        }
                        Ok(Outcome::Rows { rows: rows.iter().map(show_row).collect(), names: None })
                    }
                    Call::Manual => {
                        ps.set_load_balancing_policy(Some(policy));
                        ps.set_page_size(1);
                        let mut state = scylla::response::PagingState::start();
                        let mut out = Vec::new();
                        for _ in 0..8 {
                            let (res, next) = session.execute_single_page(&ps, (key,), state.clone()).await.map_err(|e| format!("execute_single_page: {e}"))?;
                            let rows = res.into_rows_result().map_err(|e| format!("into_rows_result: {e}"))?;
                            for r in rows.rows::<Row>().map_err(|e| format!("rows(): {e}"))? {
                                out.push(show_row(&r.map_err(|e| format!("row: {e}"))?));
                            }
                            match next.into_paging_control_flow() {
                                std::ops::ControlFlow::Continue(s) => state = s,
                                std::ops::ControlFlow::Break(()) => return Ok(Outcome::Rows { rows: out, names: None }),
                            }
                        }
                        Err("execute_single_page: more than 8 pages for a 2-row result".to_string())
                    }
                    Call::BatchC => {
                        let mut b = Batch::new_with_statements(
                            BatchType::Logged,
                            vec![BatchStatement::Query(scylla::statement::unprepared::Statement::new(STMT_L)), BatchStatement::Query(scylla::statement::unprepared::Statement::new(STMT_I))],
                        );
                        b.set_timestamp(explicit_ts(cfg));
                        b.set_load_balancing_policy(Some(policy));
                        let res = caching.batch(&b, ((key, "lv"), ("iv", key))).await.map_err(|e| format!("caching batch: {e}"))?;
                        let rows = res.into_rows_result().map_err(|e| format!("into_rows_result: {e}"))?;
                        let mut out = Vec::new();
                        for r in rows.rows::<Row>().map_err(|e| format!("rows(): {e}"))? {
                            out.push(show_row(&r.map_err(|e| format!("row: {e}"))?));
                        }
                        Ok(Outcome::Rows { rows: out, names: None })
                    }
                    Call::Batch | Call::BatchMix => {
                        let second = if call == Call::BatchMix { BatchStatement::Query(scylla::statement::unprepared::Statement::new(STMT_I)) } else { BatchStatement::PreparedStatement(i) };
                        let mut b = Batch::new_with_statements(BatchType::Logged, vec![BatchStatement::PreparedStatement(l), second]);
                        b.set_timestamp(explicit_ts(cfg));
                        b.set_load_balancing_policy(Some(policy));
                        let res = session.batch(&b, ((key, "lv"), ("iv", key))).await.map_err(|e| format!("batch: {e}"))?;
                        let rows = res.into_rows_result().map_err(|e| format!("into_rows_result: {e}"))?;
                        let names: Vec<String> = rows.column_specs().iter().map(|c| c.name().to_string()).collect();
                        let mut out = Vec::new();
                        for r in rows.rows::<Row>().map_err(|e| format!("rows(): {e}"))? {
                            out.push(show_row(&r.map_err(|e| format!("row: {e}"))?));
                        }
                        Ok(Outcome::Rows { rows: out, names: Some(names) })
                    }
                }
            };
            match tokio::time::timeout(CALL_DEADLINE, AssertUnwindSafe(work).catch_unwind()).await {
                Err(_) => Outcome::Hang,
                Ok(Err(p)) => Outcome::Panic(p.downcast_ref::<String>().cloned().or_else(|| p.downcast_ref::<&str>().map(|s| s.to_string())).unwrap_or_else(|| "panic".into())),
                Ok(Ok(Err(e))) => Outcome::Err(e),
                Ok(Ok(Ok(o))) => o,
            }
        }
    }

    fn trace_len(&self) -> usize {
        self.model.lock().unwrap().trace.len()
    }
    fn trace_from(&self, from: usize) -> Vec<Rec> {
        self.model.lock().unwrap().trace[from..].to_vec()
    }

    /// Apply one event; Err = the oracle's complaint.
    pub fn apply(&mut self, ev: Ev) -> Result<(), Viol> {
        self.branches.clear();
        self.applied.push(ev);
        let from = self.trace_len();
        self.story.push(format!("== {}", ev.to_text()));
        let story_at = self.story.len();
        let r = match ev {
            Ev::Evict { node, scope } => {
                let mut m = self.model.lock().unwrap();
                let c = &mut m.nodes[node as usize].cache;
                match scope {
                    0 => *c = [[false; 2]; 3],
                    1 => c[S] = [false; 2],
                    _ => c[I] = [false; 2],
                }
                Ok(())
            }
            Ev::Alter { node } => {
                self.model.lock().unwrap().nodes[node as usize].version += 1;
                Ok(())
            }
            Ev::Chatty { node } => {
                self.model.lock().unwrap().nodes[node as usize].chatty = true;
                Ok(())
            }
            Ev::Poison { node } => {
                self.model.lock().unwrap().nodes[node as usize].poisoned = true;
                Ok(())
            }
            Ev::Exec { h, node } => self.sequential(Call::Exec, h as usize, node as usize, 0),
            Ev::Paged { h, node, mid } => self.sequential(Call::Paged, h as usize, node as usize, mid),
            Ev::Batch { node } => self.sequential(Call::Batch, 0, node as usize, 0),
            Ev::BatchC { node } => self.sequential(Call::BatchC, 2, node as usize, 0),
            Ev::Manual { node, mid } => self.sequential(Call::Manual, 0, node as usize, mid),
            Ev::ExecDrop { node } => {
                self.arm_drop_select = true;
                self.sequential(Call::Exec, 0, node as usize, 0)
            }
            Ev::Reprep { h } => self.reprepare(h as usize),
            Ev::BatchMix { node, drop } => self.sequential(Call::BatchMix, 0, node as usize, drop),
            Ev::Overlap { node, gate: 2, first, .. } => self.overlap_alter(node as usize, first),
            Ev::Overlap { node, gate, first, kind } => self.overlap(node as usize, gate, first, kind),
        };
        let recs = self.trace_from(from);
        for (k, r) in show_recs(&recs).into_iter().enumerate() {
            self.story.insert(story_at + k, format!("   {r}"));
        }
        // a frame the node could not parse for what THAT node negotiated (e.g. a metadata id sent to a node without the
        // extension) comes before everything else: the rest of the trace is then meaningless
        {
            let m = self.model.lock().unwrap();
            if let Some(x) = m.malformed.first() {
                return viol("frame:malformed", format!("node could not parse a request as negotiated on that connection: {x}; caller-side complaint: {:?}", r.as_ref().err().map(|v| v.text.clone())));
            }
        }
        r?;
        // timestamps: explicit one on every EXECUTE/BATCH when the statement carries one; a generated one when only the
        // session has a generator; none otherwise ("same parameters" on a resend is checked where resends are matched)
        for rec in &recs {
            let ts = match &rec.req {
                Req::Execute { params, .. } => params.timestamp,
                Req::Batch { timestamp, .. } => *timestamp,
                Req::Prepare { .. } => continue,
            };
            let ok = match self.cfg.ts {
                0 => ts.is_none(),
                1 => matches!(ts, Some(t) if t >= GENERATED_TS_BASE),
                _ => ts == Some(EXPLICIT_TS),
            };
            if !ok {
                return viol("timestamp:not-the-callers", format!("{} carries timestamp {ts:?} (generator on session: {}, explicit timestamp on statement: {:?})", rec.describe(), self.cfg.ts & 1 != 0, explicit_ts(self.cfg)));
            }
        }
        if let Some(u) = self.cluster.unexpected().first() {
            return viol("frame:unexpected", format!("request fell through to the mock's fallback: {}", u.describe()));
        }
        if self.cfg.any_ext() {
            for h in 0..(if self.cfg.entry { 3 } else { 2 }) {
                let shown = self.getter_cols(h);
                let want = self.refh[h].usable.map(col_names).unwrap_or_default();
                if shown != want {
                    return viol(
                        "state:getter-differs-from-announced",
                        format!("handle {h}: public getter shows columns {shown:?}, the most recently announced column metadata is {want:?}"),
                    );
                }
            }
        }
        Ok(())
    }

    // -------------------------------------------------------------------------------------------- oracle pieces

    /// P3: what an EXECUTE may present given the reference's announcements. `allowed_versions`: usable versions
    /// the driver may legitimately hold when it composed the frame (one element for sequential events).
    /// `empty_ok` (mixed cluster, before the first EXECUTE on the extension node): the empty id with skip_metadata is fine too.
    fn check_presented(&self, rec: &Rec, allowed_versions: &[Option<u8>], last_ids: &[Option<Vec<u8>>], empty_ok: bool) -> Result<(), Viol> {
        let Req::Execute { mid, params, .. } = &rec.req else { return Ok(()) };
        if self.cfg.ext_of(rec.node) {
            let Some(mid) = mid else {
                return viol("present:no-id", format!("extension negotiated but the EXECUTE carries no result metadata id: {}", rec.describe()));
            };
            let mut ok = false;
            for u in allowed_versions {
                match u {
                    Some(v) => ok |= params.skip_metadata && (*mid == meta_id(S, *v) || (empty_ok && mid.is_empty())),
                    None => ok |= !params.skip_metadata && (mid.is_empty() || last_ids.iter().any(|l| l.as_deref() == Some(&mid[..]))),
                }
            }
            if !ok {
                let want: Vec<String> = allowed_versions.iter().map(|u| u.map(|v| format!("id Sv{v} with skip_metadata")).unwrap_or_else(|| "no usable id (empty or the column-less one) WITHOUT skip_metadata".into())).collect();
                let key = if allowed_versions.iter().any(|u| u.map(|v| *mid == meta_id(S, v)).unwrap_or(false)) || (allowed_versions.contains(&None) && mid.is_empty()) { "present:skip-flag" } else { "present:not-last-announced-id" };
                return viol(key, format!("{} - the most recently announced column metadata allows only: {}", rec.describe(), want.join(" | ")));
            }
        } else {
            let knows_cols = allowed_versions.iter().any(|u| u.is_some());
            let want = self.cfg.cached && knows_cols;
            if mid.is_some() {
                return viol("present:id-without-extension", format!("{} - this node did not negotiate the metadata-id extension", rec.describe()));
            }
            if params.skip_metadata != want {
                return viol("present:skip-flag", format!("{} - without the extension skip_metadata must be {want} (use_cached_result_metadata={}, columns known={knows_cols})", rec.describe(), self.cfg.cached));
            }
        }
        Ok(())
    }

    /// "same request again": id, values, consistency, serial consistency, page size, paging state, timestamp, names.
    fn same_request(a: &Rec, b: &Rec) -> bool {
        match (&a.req, &b.req) {
            (Req::Execute { stmt: s1, alt: a1, params: p1, .. }, Req::Execute { stmt: s2, alt: a2, params: p2, .. }) => {
                s1 == s2
                    && a1 == a2
                    && p1.values == p2.values
                    && p1.names == p2.names
                    && p1.consistency == p2.consistency
                    && p1.serial_consistency == p2.serial_consistency
                    && p1.page_size == p2.page_size
                    && p1.paging_state == p2.paging_state
                    && p1.timestamp == p2.timestamp
            }
            (Req::Batch { .. }, Req::Batch { .. }) => a.req == b.req,
            _ => false,
        }
    }

    fn note_announcement(refh: &mut RefH, resp: &Resp) {
        match resp {
            // a PREPARED answer without a metadata id (node without the extension) is not taken up by the driver: the
            // statement keeps what it had (for the user of cached metadata that is the documented risk)
            Resp::Prepared { stmt: S, alt: false, version, with_cols, mid: Some(mid) } => {
                if *with_cols {
                    refh.usable = Some(*version);
                }
                refh.last_id = Some(mid.clone());
                refh.id_unknown = false;
            }
            Resp::Rows { version, changed: true, .. } => {
                refh.usable = Some(*version);
                refh.last_id = Some(meta_id(S, *version));
                refh.id_unknown = false;
            }
            _ => {}
        }
    }

    /// Is a faithful decode REQUIRED for this Rows answer? (false = the statement is silent: user's risk)
    fn decode_required(&self, refh: &RefH, rec: &Rec) -> bool {
        match &rec.resp {
            Resp::Rows { version, sent_metadata, .. } => {
                if *sent_metadata {
                    return true;
                }
                if self.cfg.ext_of(rec.node) {
                    // NO_METADATA is only sent when the presented id was current; P3 ties the presented id to `usable`
                    true
                } else {
                    // node without the extension: the driver decodes with what it holds (the preparation's columns, or
                    // what an extension node announced since); anything else on this node is the user's risk
                    refh.usable == Some(*version)
                }
            }
            _ => true,
        }
    }

    /// One caller, nothing else going on: the wire trace must be exactly what the statement describes.
    fn sequential(&mut self, call: Call, h: usize, node: usize, mid_action: u8) -> Result<(), Viol> {
        let key = 1 + h as i32;
        if call == Call::BatchMix {
            if mid_action != 0 {
                self.model.lock().unwrap().drop_after_prepare = Some((node, I));
            }
        } else if mid_action != 0 {
            self.model.lock().unwrap().mid = Some((node, mid_action));
        }
        if std::mem::take(&mut self.arm_drop_select) {
            self.model.lock().unwrap().drop_after_prepare = Some((node, S));
        }
        let from = self.trace_len();
        let fut = self.call_future(call, h, node, key);
        let outcome = self.rt.as_ref().unwrap().block_on(fut);
        {
            let mut m = self.model.lock().unwrap();
            m.mid = None;
            m.drop_after_prepare = None;
        }
        let recs = self.trace_from(from);
        if self.verbose {
            self.story.push(format!("   caller outcome: {outcome:?}"));
        }
        match &outcome {
            Outcome::Panic(p) => return viol("caller:panic", format!("the call panicked: {p}")),
            Outcome::Hang => return viol("caller:hang", format!("the call did not complete within {CALL_DEADLINE:?}; frames: {:?}", show_recs(&recs[..]))),
            _ => {}
        }
        if let Some(r) = recs.iter().find(|r| r.node != node) {
            return viol("route:wrong-node", format!("request targeted at node {node} produced a frame on another node: {}", r.describe()));
        }
        match call {
            Call::Batch | Call::BatchC => self.check_batch_trace(&recs, key, &outcome),
            Call::BatchMix => {
                // the plain statement with values is prepared on the fly, on the connection the batch goes to
                let Some(fly) = recs.first() else {
                    return viol("trace:missing-request", format!("no on-the-fly PREPARE reached the node; caller saw {outcome:?}"));
                };
                if !matches!(fly.resp, Resp::Prepared { stmt: I, alt: false, .. }) {
                    return viol("trace:unexpected-request", format!("expected the on-the-fly PREPARE of the batch's plain statement, got {}", fly.describe()));
                }
                self.branches.push(if mid_action != 0 { "batchmix:on-the-fly-id-evicted" } else { "batchmix" });
                self.check_batch_trace(&recs[1..], key, &outcome)
            }
            _ => self.check_select_trace(call, h, &recs, key, &outcome),
        }
    }

    fn check_select_trace(&mut self, call: Call, h: usize, recs: &[Rec], key: i32, outcome: &Outcome) -> Result<(), Viol> {
        let pages: u8 = if matches!(call, Call::Paged | Call::Manual) { 2 } else { 1 };
        let mut refh = self.refh[h].clone();
        let mut i = 0usize;
        let mut expected_rows: Vec<String> = Vec::new();
        let mut all_required = true;
        let mut poisoned_end = false;
        let mut last_version = 0u8;
        let all = || show_recs(&recs[..]);
        'pages: for p in 0..pages {
            let Some(first) = recs.get(i) else {
                if !all_required && matches!(outcome, Outcome::Err(_)) {
                    self.branches.push("silent:stopped-early");
                    break 'pages;
                }
                return viol("trace:missing-request", format!("no EXECUTE for page {p} reached the node; frames: {:?}; caller saw {outcome:?}", all()));
            };
            let want_ps = if pages == 2 { Some(1) } else { None };
            let want_state = if p == 1 { Some(PG1.to_vec()) } else { None };
            let shape_ok = matches!(&first.req, Req::Execute { stmt: S, alt: false, params, .. } if params.page_size == want_ps && params.paging_state == want_state && first.key() == Some(key));
            if !shape_ok {
                return viol("trace:unexpected-request", format!("expected EXECUTE of the statement (key {key}, page {p}), got {}; frames: {:?}", first.describe(), all()));
            }
            self.check_presented(first, &[refh.usable], &[refh.last_id.clone()], refh.id_unknown)?;
            if matches!(&first.req, Req::Execute { mid: Some(m), .. } if !m.is_empty()) {
                // it presented an id, so it holds one (otherwise it stays unknown until an id-carrying answer is taken up)
                refh.id_unknown = false;
            }
            let mut answer = first;
            let mut rounds = 0;
            while let Resp::Unprepared { .. } = answer.resp {
                rounds += 1;
                if rounds == 2 && recs.get(i + 1).is_none() && matches!(outcome, Outcome::Err(_)) {
                    // UNPREPARED twice in a row (evicted again between the re-PREPARE and the repeated request): the statement
                    // says "whenever"; the driver's execute path handles only the first one and hands the caller the second as
                    // an error. Recorded as a finding of its own without stopping the search.
                    self.findings.push((
                        "unprepared:second-in-a-row-not-reprepared".to_string(),
                        format!("the repeated EXECUTE was answered UNPREPARED again and the driver gave up: caller saw {outcome:?}; frames: {:?}", all()),
                    ));
                    self.branches.push("finding:second-unprepared-not-handled");
                    self.refh[h] = refh;
                    return Ok(());
                }
                if rounds > 4 {
                    return viol("unprepared:loop", format!("more than 4 re-preparations in one call; frames: {:?}", all()));
                }
                self.branches.push("unprepared");
                let Some(prep) = recs.get(i + 1) else {
                    return viol("unprepared:no-prepare", format!("UNPREPARED was not followed by a PREPARE; frames: {:?}; caller saw {outcome:?}", all()));
                };
                let Resp::Prepared { stmt: S, alt, .. } = prep.resp else {
                    return viol("unprepared:no-prepare", format!("UNPREPARED was followed by {} instead of a PREPARE of that statement", prep.describe()));
                };
                if prep.conn != first.conn {
                    return viol("unprepared:prepare-elsewhere", format!("re-PREPARE went to another connection: {} after {}", prep.describe(), first.describe()));
                }
                Self::note_announcement(&mut refh, &prep.resp);
                if alt {
                    self.branches.push("poison:id-changed");
                    if let Some(extra) = recs.get(i + 2) {
                        return viol("poison:request-after-id-change", format!("re-preparation yielded a different id, yet the driver went on with {}; frames: {:?}", extra.describe(), all()));
                    }
                    if !matches!(outcome, Outcome::Err(_)) {
                        return viol("poison:no-error", format!("re-preparation yielded a different id but the caller saw {outcome:?}"));
                    }
                    poisoned_end = true;
                    break 'pages;
                }
                let Some(resend) = recs.get(i + 2) else {
                    return viol("unprepared:no-resend", format!("after the re-PREPARE the request was not repeated; frames: {:?}; caller saw {outcome:?}", all()));
                };
                if !Self::same_request(first, resend) {
                    return viol("unprepared:resend-differs", format!("the repeated request differs from the original: {} vs {}", first.describe(), resend.describe()));
                }
                if resend.conn != first.conn {
                    return viol("unprepared:prepare-elsewhere", format!("the repeated request went to another connection: {}", resend.describe()));
                }
                self.check_presented(resend, &[refh.usable], &[refh.last_id.clone()], false)?;
                answer = resend;
                i += 2;
            }
            let Resp::Rows { version, sent_metadata, changed, page } = answer.resp else {
                return viol("unprepared:twice", format!("the repeated request was not answered with rows: {}; frames: {:?}", answer.describe(), all()));
            };
            let _ = page;
            last_version = version;
            let required = self.decode_required(&refh, answer);
            if !required {
                self.branches.push("silent:stale-cached-metadata");
            } else if !sent_metadata {
                self.branches.push("rows:decoded-with-cached-metadata");
            } else if changed {
                self.branches.push("rows:metadata-changed");
            } else {
                self.branches.push("rows:metadata-sent");
            }
            all_required &= required;
            Self::note_announcement(&mut refh, &answer.resp);
            if pages == 2 {
                expected_rows.push(expected_select_row(version, key, p));
            } else {
                expected_rows.push(expected_select_row(version, key, 0));
                expected_rows.push(expected_select_row(version, key, 1));
            }
            i += 1;
        }
        if i < recs.len() && !poisoned_end {
            return viol("trace:extra-request", format!("more requests than the call needs: {:?}", all()));
        }
        if !poisoned_end {
            if all_required {
                match outcome {
                    Outcome::Rows { rows, names } => {
                        if *rows != expected_rows {
                            return viol("rows:decoded-differently", format!("caller decoded {rows:?}, the node encoded {expected_rows:?}; frames: {:?}", all()));
                        }
                        if let Some(n) = names {
                            if *n != col_names(last_version) {
                                return viol("rows:column-specs-differ", format!("caller sees columns {n:?}, the node encoded with {:?}", col_names(last_version)));
                            }
                        }
                    }
                    other => return viol("caller:error-instead-of-result", format!("caller saw {other:?} where the normal result {expected_rows:?} was due; frames: {:?}", all())),
                }
            } else {
                self.branches.push(if matches!(outcome, Outcome::Rows { .. }) { "silent:result" } else { "silent:error" });
            }
        }
        self.refh[h] = refh;
        Ok(())
    }

    fn check_batch_trace(&mut self, recs: &[Rec], key: i32, outcome: &Outcome) -> Result<(), Viol> {
        let all = || show_recs(&recs[..]);
        let Some(first) = recs.first() else {
            return viol("trace:missing-request", format!("no BATCH reached the node; caller saw {outcome:?}"));
        };
        let shape_ok = matches!(&first.req, Req::Batch { items, .. } if items.len() == 2 && items[0].0 == L && !items[0].1 && items[1].0 == I && !items[1].1 && first.key() == Some(key));
        if !shape_ok {
            return viol("trace:unexpected-request", format!("expected BATCH [L, I] key {key}, got {}", first.describe()));
        }
        let mut i = 0usize;
        loop {
            let cur = &recs[i];
            if !Self::same_request(first, cur) {
                return viol("unprepared:resend-differs", format!("the repeated BATCH differs from the original: {} vs {}", first.describe(), cur.describe()));
            }
            match cur.resp {
                Resp::BatchRows { version } => {
                    if i + 1 != recs.len() {
                        return viol("trace:extra-request", format!("more requests than the call needs: {:?}", all()));
                    }
                    let want = vec![expected_batch_row(version, key)];
                    match outcome {
                        Outcome::Rows { rows, .. } if *rows == want => {}
                        Outcome::Rows { rows, .. } => return viol("rows:decoded-differently", format!("batch caller decoded {rows:?}, the node encoded {want:?}")),
                        other => return viol("caller:error-instead-of-result", format!("batch caller saw {other:?} where {want:?} was due; frames: {:?}", all())),
                    }
                    self.branches.push("batch:rows");
                    return Ok(());
                }
                Resp::Unprepared { stmt } => {
                    self.branches.push("batch:unprepared");
                    let Some(prep) = recs.get(i + 1) else {
                        return viol("unprepared:no-prepare", format!("UNPREPARED (batch) was not followed by a PREPARE; frames: {:?}; caller saw {outcome:?}", all()));
                    };
                    let ok = matches!(prep.resp, Resp::Prepared { stmt: s, .. } if s == stmt);
                    if !ok {
                        return viol("unprepared:no-prepare", format!("UNPREPARED of {} in a batch was followed by {}", ["S", "L", "I"][stmt], prep.describe()));
                    }
                    if prep.conn != cur.conn {
                        return viol("unprepared:prepare-elsewhere", format!("re-PREPARE went to another connection: {}", prep.describe()));
                    }
                    if let Resp::Prepared { alt: true, .. } = prep.resp {
                        self.branches.push("poison:id-changed");
                        if let Some(extra) = recs.get(i + 2) {
                            return viol("poison:request-after-id-change", format!("re-preparation yielded a different id, yet the driver went on with {}; frames: {:?}", extra.describe(), all()));
                        }
                        if !matches!(outcome, Outcome::Err(_)) {
                            return viol("poison:no-error", format!("re-preparation yielded a different id but the batch caller saw {outcome:?}"));
                        }
                        return Ok(());
                    }
                    if recs.get(i + 2).is_none() {
                        return viol("unprepared:no-resend", format!("after the re-PREPARE the BATCH was not repeated; frames: {:?}; caller saw {outcome:?}", all()));
                    }
                    i += 2;
                }
                _ => return viol("trace:unexpected-request", format!("unexpected answer in a batch trace: {}", cur.describe())),
            }
        }
    }

    // -------------------------------------------------------------------------------------------- overlap

    /// Two callers on one node with a parked answer in between (see `Ev::Overlap`).
    fn overlap(&mut self, node: usize, gate: u8, first: u8, kind: u8) -> Result<(), Viol> {
        let call = if kind == 0 { Call::Exec } else { Call::Batch };
        let watched = if kind == 0 { S } else { L };
        let from = self.trace_len();
        let before = self.refh[0].clone();
        let nstate = self.node_state()[node].clone();
        let fa = self.call_future(call, 0, node, 1);
        let fb = self.call_future(call, 0, node, 2);
        let cluster = self.cluster.clone();
        let model = self.model.clone();
        let rt = self.rt.as_ref().unwrap();
        let is_mine = move |a: &mockcluster::Action, prepare: bool| -> bool {
            if a.node != node {
                return false;
            }
            match a.request().map(|f| &f.request) {
                Some(Request::Prepare { text }) => prepare && text == TEXTS[watched],
                Some(Request::Execute { id, .. }) => !prepare && which_stmt(id).is_some(),
                Some(Request::Batch { .. }) => !prepare,
                _ => false,
            }
        };
        let res: Result<(Outcome, Outcome), String> = rt.block_on(async move {
            let frames_of = |key: Option<i32>| {
                let m = model.lock().unwrap();
                m.trace[from..].iter().filter(|r| r.key() == key).count()
            };
            let rule_a = cluster.hold(move |a| is_mine(a, gate == 1));
            let mut ha = tokio::spawn(fa);
            // caller a runs until the gated answer is parked
            let parked_a = tokio::select! {
                r = &mut ha => return Err(format!("caller a finished before its {} answer was parked: {:?}", if gate == 0 { "UNPREPARED" } else { "re-PREPARE" }, r.ok())),
                p = cluster.wait_held("caller a's gated answer", |_| true) => p?,
            };
            // caller b's request is issued now; its first answer is parked too
            let rule_b = cluster.hold(move |a| is_mine(a, false));
            let mut hb = tokio::spawn(fb);
            let parked_b = tokio::select! {
                r = &mut hb => return Err(format!("caller b finished although its answer should be parked: {:?}", r.ok())),
                p = cluster.wait_held("caller b's first answer", |a| a.id != parked_a.id) => p?,
            };
            cluster.unhold(rule_a);
            cluster.unhold(rule_b);
            let (oa, ob);
            if first == 0 {
                // release a's answer, wait until a moved on (next frame of a arrived, or a finished), then b's
                let seen_a = frames_of(Some(1));
                let seen_p = frames_of(None);
                cluster.release(parked_a.id);
                let mut a_done = None;
                tokio::select! {
                    r = &mut ha => a_done = Some(r.map_err(|e| e.to_string())?),
                    r = cluster.wait_for("caller a's next frame", mockcluster::DEADLINE, |_| (frames_of(Some(1)) > seen_a || frames_of(None) > seen_p).then_some(())) => r?,
                }
                cluster.release(parked_b.id);
                ob = hb.await.map_err(|e| e.to_string())?;
                oa = match a_done {
                    Some(o) => o,
                    None => ha.await.map_err(|e| e.to_string())?,
                };
            } else {
                let seen_b = frames_of(Some(2));
                let seen_p = frames_of(None);
                cluster.release(parked_b.id);
                let mut b_done = None;
                tokio::select! {
                    r = &mut hb => b_done = Some(r.map_err(|e| e.to_string())?),
                    r = cluster.wait_for("caller b's next frame", mockcluster::DEADLINE, |_| (frames_of(Some(2)) > seen_b || frames_of(None) > seen_p).then_some(())) => r?,
                }
                cluster.release(parked_a.id);
                oa = ha.await.map_err(|e| e.to_string())?;
                ob = match b_done {
                    Some(o) => o,
                    None => hb.await.map_err(|e| e.to_string())?,
                };
            }
            Ok((oa, ob))
        });
        self.cluster.unhold_all();
        self.cluster.release_all();
        let recs = self.trace_from(from);
        let all = || show_recs(&recs[..]);
        let (oa, ob) = match res {
            Ok(x) => x,
            Err(e) => return viol("overlap:stalled", format!("the overlap schedule could not be carried out: {e}; frames: {:?}", all())),
        };
        if self.verbose {
            self.story.push(format!("   caller a: {oa:?}"));
            self.story.push(format!("   caller b: {ob:?}"));
        }
        for (who, o) in [("a", &oa), ("b", &ob)] {
            match o {
                Outcome::Panic(p) => return viol("caller:panic", format!("caller {who} panicked: {p}")),
                Outcome::Hang => return viol("caller:hang", format!("caller {who} did not complete within {CALL_DEADLINE:?}; frames: {:?}", all())),
                _ => {}
            }
        }
        if let Some(r) = recs.iter().find(|r| r.node != node) {
            return viol("route:wrong-node", format!("request targeted at node {node} produced a frame on another node: {}", r.describe()));
        }
        // every UNPREPARED answer leads to exactly one PREPARE of that statement on that node
        for stmt in 0..3 {
            let unprep = recs.iter().filter(|r| matches!(r.resp, Resp::Unprepared { stmt: s } if s == stmt)).count();
            let prep = recs.iter().filter(|r| matches!(r.req, Req::Prepare { stmt: s } if s == stmt)).count();
            if unprep != prep {
                return viol("unprepared:prepare-count", format!("{unprep} UNPREPARED answers for {} but {prep} PREPAREs; frames: {:?}", ["S", "L", "I"][stmt], all()));
            }
        }
        let poisoned = nstate.poisoned;
        let v = nstate.version;
        let ext_node = self.cfg.ext_of(node);
        let silent = !ext_node && self.cfg.cached && before.usable != Some(v);
        let mut announced_here = false;
        for (who, key, outcome) in [("a", 1, &oa), ("b", 2, &ob)] {
            let mine: Vec<&Rec> = recs.iter().filter(|r| r.key() == Some(key)).collect();
            let Some(first_req) = mine.first() else {
                return viol("trace:missing-request", format!("caller {who}: no request reached the node; frames: {:?}", all()));
            };
            for (j, r) in mine.iter().enumerate() {
                if !Self::same_request(first_req, r) {
                    return viol("unprepared:resend-differs", format!("caller {who}: the repeated request differs from the original: {} vs {}", first_req.describe(), r.describe()));
                }
                if kind == 0 {
                    // what may be presented: the state before the overlap, or what this node announces during it
                    let announces_cols = !poisoned && (!self.cfg.late || recs.iter().any(|x| matches!(x.resp, Resp::Rows { changed: true, .. })));
                    let mut allowed = vec![before.usable];
                    if announces_cols {
                        allowed.push(Some(v));
                    }
                    if j > 0 && !self.cfg.late && !poisoned {
                        // the resend follows this caller's own re-PREPARE, which announced the node's current columns
                        allowed = vec![Some(v)];
                    }
                    self.check_presented(r, &allowed, &[before.last_id.clone(), ext_node.then(empty_meta_id), (ext_node && self.cfg.same_id).then(|| meta_id(S, v))], before.id_unknown)?;
                }
                if matches!(r.resp, Resp::Rows { changed: true, .. }) {
                    announced_here = true;
                }
                let last = j + 1 == mine.len();
                match (&r.resp, last) {
                    (Resp::Unprepared { .. }, false) => {}
                    (Resp::Unprepared { .. }, true) => {
                        // allowed only when the re-preparation changed the id (error, no second request)
                        if !poisoned {
                            return viol("unprepared:no-resend", format!("caller {who}: UNPREPARED but the request was not repeated; frames: {:?}; caller saw {outcome:?}", all()));
                        }
                        if !matches!(outcome, Outcome::Err(_)) {
                            return viol("poison:no-error", format!("caller {who}: re-preparation yields a different id but the caller saw {outcome:?}"));
                        }
                    }
                    (_, false) => return viol("trace:extra-request", format!("caller {who}: request repeated after a normal answer; frames: {:?}", all())),
                    (Resp::Rows { version, sent_metadata, .. }, true) => {
                        let want = vec![expected_select_row(*version, key, 0), expected_select_row(*version, key, 1)];
                        if *sent_metadata || !silent {
                            match outcome {
                                Outcome::Rows { rows, .. } if *rows == want => {}
                                Outcome::Rows { rows, .. } => return viol("rows:decoded-differently", format!("caller {who} decoded {rows:?}, the node encoded {want:?}; frames: {:?}", all())),
                                other => return viol("caller:error-instead-of-result", format!("caller {who} saw {other:?} where {want:?} was due; frames: {:?}", all())),
                            }
                        } else {
                            self.branches.push("silent:stale-cached-metadata");
                        }
                    }
                    (Resp::BatchRows { version }, true) => {
                        let want = vec![expected_batch_row(*version, key)];
                        match outcome {
                            Outcome::Rows { rows, .. } if *rows == want => {}
                            other => return viol("rows:decoded-differently", format!("batch caller {who} saw {other:?}, the node encoded {want:?}")),
                        }
                    }
                    (other, true) => return viol("trace:unexpected-request", format!("caller {who}: unexpected final answer {other:?}")),
                }
            }
            if poisoned && mine.len() > 1 && mine.iter().any(|r| matches!(r.resp, Resp::Unprepared { .. })) {
                return viol("poison:request-after-id-change", format!("caller {who}: re-preparation yields a different id, yet the request was sent again; frames: {:?}", all()));
            }
            // nothing is evicted during an overlap, so no caller can be told UNPREPARED twice about the SAME statement
            // (a batch may be told once per statement)
            for stmt in 0..3 {
                let unprepared_seen = mine.iter().filter(|r| matches!(r.resp, Resp::Unprepared { stmt: s } if s == stmt)).count();
                if unprepared_seen > 1 {
                    return viol("unprepared:twice", format!("caller {who} was answered UNPREPARED twice for the same statement; frames: {:?}", all()));
                }
            }
        }
        self.branches.push(match (gate, first) {
            (0, 0) => "overlap:unprep:a-first",
            (0, _) => "overlap:unprep:b-first",
            (_, 0) => "overlap:prep:a-first",
            _ => "overlap:prep:b-first",
        });
        // announcements made during the overlap (all carry this node's current version)
        if kind == 0 {
            for r in &recs {
                if let Resp::Prepared { stmt: S, alt: false, with_cols, mid, .. } = &r.resp {
                    if *with_cols && mid.is_some() {
                        announced_here = true;
                    } else if mid.is_some() && self.refh[0].usable.is_none() && !announced_here {
                        self.refh[0].last_id = mid.clone();
                    }
                }
            }
            if announced_here {
                self.refh[0].usable = Some(v);
                self.refh[0].last_id = ext_node.then(|| meta_id(S, v));
            }
            let learnt = recs.iter().any(|r| {
                matches!(&r.req, Req::Execute { mid: Some(m), .. } if !m.is_empty())
                    || matches!(&r.resp, Resp::Rows { changed: true, .. })
                    || matches!(&r.resp, Resp::Prepared { stmt: S, alt: false, mid: Some(_), .. })
            });
            if ext_node && learnt {
                self.refh[0].id_unknown = false;
            }
        }
        Ok(())
    }

    /// gate 2: a's ROWS answer parked -> alter(node) -> b's request, answer parked -> release in either order.
    fn overlap_alter(&mut self, node: usize, first: u8) -> Result<(), Viol> {
        let from = self.trace_len();
        let before = self.refh[0].clone();
        let fa = self.call_future(Call::Exec, 0, node, 1);
        let fb = self.call_future(Call::Exec, 0, node, 2);
        let cluster = self.cluster.clone();
        let model = self.model.clone();
        let rt = self.rt.as_ref().unwrap();
        let res: Result<(Outcome, Outcome), String> = rt.block_on(async move {
            let rule = cluster.hold(move |a| a.node == node && matches!(a.request().map(|f| &f.request), Some(Request::Execute { id, .. }) if which_stmt(id).is_some()));
            let mut ha = tokio::spawn(fa);
            let parked_a = tokio::select! {
                r = &mut ha => return Err(format!("caller a finished although its answer should be parked: {:?}", r.ok())),
                p = cluster.wait_held("caller a's ROWS answer", |_| true) => p?,
            };
            model.lock().unwrap().nodes[node].version += 1;
            let mut hb = tokio::spawn(fb);
            let parked_b = tokio::select! {
                r = &mut hb => return Err(format!("caller b finished although its answer should be parked: {:?}", r.ok())),
                p = cluster.wait_held("caller b's ROWS answer", |a| a.id != parked_a.id) => p?,
            };
            cluster.unhold(rule);
            let (oa, ob);
            if first == 0 {
                cluster.release(parked_a.id);
                oa = ha.await.map_err(|e| e.to_string())?;
                cluster.release(parked_b.id);
                ob = hb.await.map_err(|e| e.to_string())?;
            } else {
                cluster.release(parked_b.id);
                ob = hb.await.map_err(|e| e.to_string())?;
                cluster.release(parked_a.id);
                oa = ha.await.map_err(|e| e.to_string())?;
            }
            Ok((oa, ob))
        });
        self.cluster.unhold_all();
        self.cluster.release_all();
        let recs = self.trace_from(from);
        let all = || show_recs(&recs[..]);
        let (oa, ob) = match res {
            Ok(x) => x,
            Err(e) => return viol("overlap:stalled", format!("the overlap schedule could not be carried out: {e}; frames: {:?}", all())),
        };
        if self.verbose {
            self.story.push(format!("   caller a: {oa:?}"));
            self.story.push(format!("   caller b: {ob:?}"));
        }
        for (who, o) in [("a", &oa), ("b", &ob)] {
            match o {
                Outcome::Panic(p) => return viol("caller:panic", format!("caller {who} panicked: {p}")),
                Outcome::Hang => return viol("caller:hang", format!("caller {who} did not complete within {CALL_DEADLINE:?}; frames: {:?}", all())),
                _ => {}
            }
        }
        if let Some(r) = recs.iter().find(|r| r.node != node) {
            return viol("route:wrong-node", format!("request targeted at node {node} produced a frame on another node: {}", r.describe()));
        }
        // one EXECUTE per caller, both composed before anything new was delivered
        let mut answers: Vec<(u8, bool, bool)> = Vec::new(); // (version, sent_metadata, changed) of a, b
        for (who, key, outcome) in [("a", 1, &oa), ("b", 2, &ob)] {
            let mine: Vec<&Rec> = recs.iter().filter(|r| r.key() == Some(key)).collect();
            if mine.len() != 1 {
                return viol("trace:extra-request", format!("caller {who}: expected exactly one EXECUTE, frames: {:?}", all()));
            }
            self.check_presented(mine[0], &[before.usable], &[before.last_id.clone()], before.id_unknown)?;
            let Resp::Rows { version, sent_metadata, changed, .. } = mine[0].resp else {
                return viol("trace:unexpected-request", format!("caller {who}: expected a ROWS answer, got {}", mine[0].describe()));
            };
            let want = vec![expected_select_row(version, key, 0), expected_select_row(version, key, 1)];
            if self.decode_required(&before, mine[0]) {
                match outcome {
                    Outcome::Rows { rows, .. } if *rows == want => {}
                    Outcome::Rows { rows, .. } => return viol("rows:decoded-differently", format!("caller {who} decoded {rows:?}, the node encoded {want:?}; frames: {:?}", all())),
                    other => return viol("caller:error-instead-of-result", format!("caller {who} saw {other:?} where {want:?} was due; frames: {:?}", all())),
                }
            } else {
                self.branches.push("silent:stale-cached-metadata");
            }
            answers.push((version, sent_metadata, changed));
        }
        // announcements in DELIVERY order; an answer without metadata announces nothing
        let order: [usize; 2] = if first == 0 { [0, 1] } else { [1, 0] };
        let mut refh = before.clone();
        for i in order {
            let (version, _, changed) = answers[i];
            if changed {
                refh.usable = Some(version);
                refh.last_id = Some(meta_id(S, version));
            }
        }
        self.branches.push(if first == 0 { "overlap:rows+alter:a-first" } else { "overlap:rows+alter:b-first" });
        // The late answer of caller a (sent before the schema change, delivered after b's announcement) carries NO
        // metadata; if the driver nevertheless puts a's request-time copy back, the next EXECUTE presents an older id
        // than the one most recently announced. Recorded as a finding of its own; the reference follows the driver.
        if recs.iter().any(|r| matches!(&r.req, Req::Execute { mid: Some(m), .. } if !m.is_empty()) || matches!(&r.resp, Resp::Rows { changed: true, .. })) {
            refh.id_unknown = false;
        }
        if self.cfg.ext_of(node) && first == 1 && !answers[0].1 && answers[1].2 {
            let shown = self.getter_cols(0);
            if shown != col_names(answers[1].0) && shown == col_names(answers[0].0) {
                self.findings.push((
                    "announce:late-answer-without-metadata-reverts-newer-id".to_string(),
                    format!(
                        "caller b's answer announced columns {:?} (new id); caller a's older answer, delivered afterwards, carried NO metadata, yet the statement now shows {:?} again, so the next EXECUTE presents the superseded id; frames: {:?}",
                        col_names(answers[1].0),
                        shown,
                        all()
                    ),
                ));
                self.branches.push("finding:late-answer-reverts-id");
                refh.usable = Some(answers[0].0);
                refh.last_id = Some(meta_id(S, answers[0].0));
            }
        }
        self.refh[0] = refh;
        Ok(())
    }

    /// The user prepares the statement again and replaces handle h. Oracle: one PREPARE per node and nothing else; the new
    /// handle shows the columns of SOME node's current schema version (Session::prepare keeps one node's answer).
    fn reprepare(&mut self, h: usize) -> Result<(), Viol> {
        let from = self.trace_len();
        let session = self.session.as_ref().unwrap().clone();
        let res = self.rt.as_ref().unwrap().block_on(async move { tokio::time::timeout(CALL_DEADLINE, session.prepare(STMT_S)).await });
        let recs = self.trace_from(from);
        let mut ps = match res {
            Err(_) => return viol("caller:hang", format!("Session::prepare did not complete within {CALL_DEADLINE:?}")),
            Ok(Err(e)) => return viol("caller:error-instead-of-result", format!("Session::prepare failed: {e}; frames: {:?}", show_recs(&recs[..]))),
            Ok(Ok(ps)) => ps,
        };
        ps.set_use_cached_result_metadata(self.cfg.cached);
        ps.set_timestamp(explicit_ts(self.cfg));
        for n in 0..self.cfg.nodes {
            let mine: Vec<&Rec> = recs.iter().filter(|r| r.node == n).collect();
            if mine.len() != 1 || !matches!(mine[0].resp, Resp::Prepared { stmt: S, alt: false, .. }) {
                return viol("trace:unexpected-request", format!("Session::prepare: expected exactly one PREPARE on node {n}; frames: {:?}", show_recs(&recs[..])));
            }
        }
        self.handles[h] = ps;
        let shown = self.getter_cols(h);
        let versions: Vec<u8> = self.node_state().iter().map(|n| n.version).collect();
        let new_ref = if self.cfg.late {
            if !shown.is_empty() {
                return viol("prepare:metadata-from-nowhere", format!("PREPARED carried no result columns but the new handle shows {shown:?}"));
            }
            let placeholder = if self.cfg.same_id { meta_id(S, versions[0]) } else { empty_meta_id() };
            RefH { usable: None, last_id: self.cfg.any_ext().then_some(placeholder), prep_version: versions[0], id_unknown: false }
        } else {
            let Some(v) = versions.iter().copied().find(|v| col_names(*v) == shown) else {
                return viol("prepare:metadata-from-nowhere", format!("the new handle shows columns {shown:?}, no node announced those (node versions {versions:?})"));
            };
            RefH { usable: Some(v), last_id: self.cfg.any_ext().then(|| meta_id(S, v)), prep_version: v, id_unknown: self.cfg.mixed }
        };
        self.refh[h] = new_ref;
        self.branches.push(if versions.iter().any(|v| *v != versions[0]) { "reprepare:nodes-at-different-versions" } else { "reprepare" });
        Ok(())
    }

    pub fn dump_mock_log(&self) -> String {
        self.cluster.dump_log()
    }

    /// Last caller-visible facts for the replay printout.
    pub fn print_story(&self) {
        for l in &self.story {
            println!("{l}");
        }
    }
}
