//! Shared plumbing of the connection-level E-MOCK legs (c02_mock, c10_mock): a mock cluster whose scripted
//! statement echoes the bound value in rows that also name the answering node, a real Session with a pool of
//! one connection per node, caller futures whose result is compared with what the mock sent for that very
//! request, and the per-connection "stream id reused while a response is still owed" oracle over the mock log.
use mockcluster::wire::{ColType, Opcode, col, val};
use mockcluster::{Action, FrameInfo, KeyspaceSpec, LogEntry, LogKind, MockCluster, NodeSpec, Reply, Script, TableSpec};
use scylla::client::PoolSize;
use scylla::client::execution_profile::ExecutionProfile;
use scylla::client::session::Session;
use scylla::client::session_builder::SessionBuilder;
use scylla::statement::prepared::PreparedStatement;
use std::collections::{BTreeMap, BTreeSet};
use std::future::Future;
use std::num::NonZeroUsize;
use std::sync::Arc;
use std::time::Duration;

/// Liveness deadline for everything a correct driver does in milliseconds.
pub const LIVENESS: Duration = Duration::from_secs(20);
/// Bound values >= FENCE_BASE belong to fence / warm-up / fresh requests: never parked by the test gates.
pub const FENCE_BASE: i32 = 1000;
pub const STMT_IDEM: &str = "SELECT k, tag FROM ks.t WHERE k = ?";
pub const STMT_NON: &str = "SELECT k, tag FROM ks.t WHERE k = ? ALLOW FILTERING";

pub type Rows = Vec<(i32, String)>;
pub type Outcome = Result<Rows, String>;

/// The rows node `node` sends for bound value `v`: 1..3 rows of different lengths, every cell names node and value.
pub fn expected_rows(node: usize, v: i32) -> Rows {
    let n = 1 + (v.rem_euclid(3)) as usize;
    let pad = "x".repeat(7 * v.rem_euclid(5) as usize);
    (0..n).map(|i| (v, format!("node{node}/value{v}/row{i}of{n}/{pad}"))).collect()
}

/// Bound value of a test EXECUTE frame (statement = one of the two scripted texts, one 4-byte value).
pub fn bound_value(f: &FrameInfo) -> Option<i32> {
    if f.opcode != Opcode::Execute {
        return None;
    }
    let s = f.statement.as_deref()?;
    if s != STMT_IDEM && s != STMT_NON {
        return None;
    }
    let b = f.request.params()?.values.first()?.as_bytes()?;
    Some(i32::from_be_bytes(b.try_into().ok()?))
}
pub fn entry_value(e: &LogEntry) -> Option<i32> {
    e.frame().and_then(bound_value)
}
pub fn action_value(a: &Action) -> Option<i32> {
    a.request().and_then(bound_value)
}

pub struct World {
    pub cluster: MockCluster,
    pub session: Arc<Session>,
    pub idem: PreparedStatement,
    pub non: PreparedStatement,
}

pub struct WorldCfg {
    /// 1 = single node; 2 = node 0 (contact point, control connection, owns no token range that matters) and
    /// node 1 (owner of every token: token-aware plans are [node 1, node 0])
    pub nodes: usize,
    /// with 2 nodes: the node that owns every token is the contact point (index 0, carries the control
    /// connection too) instead of index 1
    pub owner_is_contact_point: bool,
    pub keepalive: Option<(Duration, Duration)>,
    /// connections per host
    pub pool: usize,
    /// retry policy of the default execution profile (None = the driver's default policy)
    pub retry: Option<Arc<dyn scylla::policies::retry::RetryPolicy>>,
    /// Some(n): the single node (nodes must be 1) is a ScyllaDB node with n shards and a shard-aware port; the pool is
    /// then PerShard(pool)
    pub shards: Option<u16>,
}
impl WorldCfg {
    pub fn new(nodes: usize) -> WorldCfg {
        WorldCfg { nodes, owner_is_contact_point: nodes == 1, keepalive: None, pool: 1, retry: None, shards: None }
    }
}

impl World {
    pub async fn new(cfg: &WorldCfg) -> Result<World, String> {
        let mut b = MockCluster::builder();
        if cfg.nodes == 1 {
            let n = NodeSpec::new("dc1", "r1", vec![0, i64::MAX]);
            b = b.node(match cfg.shards {
                Some(nr) => n.scylla(nr, 12),
                None => n,
            });
        } else {
            let (all, none) = (vec![0, i64::MAX], vec![i64::MIN + 1]);
            let (t0, t1) = if cfg.owner_is_contact_point { (all, none) } else { (none, all) };
            b = b.node(NodeSpec::new("dc1", "r1", t0)).node(NodeSpec::new("dc1", "r1", t1));
        }
        let cluster = b.keyspace(KeyspaceSpec::simple("ks", 1).table(TableSpec::new("t").pk("k", "int").col("tag", "text"))).build().await?;
        let cols = vec![col("ks", "t", "k", ColType::Int), col("ks", "t", "tag", ColType::Text)];
        for text in [STMT_IDEM, STMT_NON] {
            let c2 = cols.clone();
            cluster.script(Script::new(text).bind(vec![cols[0].clone()], vec![0]).result(cols.clone()).reply(move |ctx| {
                let v = ctx.params().and_then(|p| p.values.first()).and_then(|v| v.as_bytes()).and_then(|b| <[u8; 4]>::try_from(b).ok()).map(i32::from_be_bytes);
                match v {
                    Some(v) => Reply::rows(c2.clone(), expected_rows(ctx.node, v).into_iter().map(|(k, t)| vec![val::int(k), val::text(&t)]).collect()),
                    None => Reply::error(mockcluster::wire::ErrorBody::invalid("mock: test statement without a 4-byte value")),
                }
            }));
        }
        // No client-side request timeout: a request that is never failed by its connection stays pending (a hang is
        // then a hang, not an error after the default 30 s).
        let mut pb = ExecutionProfile::builder().request_timeout(None);
        if let Some(rp) = &cfg.retry {
            pb = pb.retry_policy(rp.clone());
        }
        let profile = pb.build();
        let mut sb = SessionBuilder::new()
            .known_node(cluster.contact_point(0))
            .pool_size(if cfg.shards.is_some() { PoolSize::PerShard(NonZeroUsize::new(cfg.pool.max(1)).unwrap()) } else { PoolSize::PerHost(NonZeroUsize::new(cfg.pool.max(1)).unwrap()) })
            .default_execution_profile_handle(profile.into_handle());
        if let Some((i, t)) = cfg.keepalive {
            sb = sb.keepalive_interval(i).keepalive_timeout(t);
        }
        let session = match tokio::time::timeout(LIVENESS, sb.build()).await {
            Ok(Ok(s)) => s,
            Ok(Err(e)) => return Err(format!("session did not come up: {e}")),
            Err(_) => return Err("session did not come up within the liveness deadline".into()),
        };
        let mut idem = session.prepare(STMT_IDEM).await.map_err(|e| format!("prepare: {e}"))?;
        idem.set_is_idempotent(true);
        let mut non = session.prepare(STMT_NON).await.map_err(|e| format!("prepare: {e}"))?;
        non.set_is_idempotent(false);
        Ok(World { cluster, session: Arc::new(session), idem, non })
    }

    /// One caller: EXECUTE with bound value `v`; the decoded rows or the error text.
    pub fn call(&self, v: i32, idempotent: bool) -> impl Future<Output = Outcome> + Send + 'static {
        let s = self.session.clone();
        let st = if idempotent { self.idem.clone() } else { self.non.clone() };
        async move {
            let r = s.execute_unpaged(&st, (v,)).await.map_err(|e| format!("{e}"))?;
            let rr = r.into_rows_result().map_err(|e| format!("not rows: {e}"))?;
            let mut out = Vec::new();
            for row in rr.rows::<(i32, String)>().map_err(|e| format!("rows type: {e}"))? {
                out.push(row.map_err(|e| format!("row: {e}"))?);
            }
            Ok(out)
        }
    }

    /// Round trip of an un-gated request (value >= FENCE_BASE); Err = it failed or hung.
    pub async fn fence(&self, v: i32) -> Result<(), String> {
        match tokio::time::timeout(LIVENESS, self.call(v, true)).await {
            Ok(Ok(_)) => Ok(()),
            Ok(Err(e)) => Err(format!("fence request {v} failed: {e}")),
            Err(_) => Err(format!("fence request {v} did not complete within {LIVENESS:?}")),
        }
    }

    /// Release a parked response and wait until the mock handed it to the connection's writer (`Sent` logged).
    /// `release` only wakes the task that performs the action, so without this wait two releases (or a release and
    /// a close / raw write) could reach the socket in either order.
    pub async fn release_in_order(&self, a: &Action) -> Result<(), String> {
        let seq = a.request_entry().map(|e| e.seq).ok_or("not a response action")?;
        if !self.cluster.release(a.id) {
            return Err(format!("release of the response to frame #{seq} failed"));
        }
        self.cluster
            .wait_entry(&format!("response to frame #{seq} handed to the socket"), seq, |e| matches!(&e.kind, LogKind::Sent { request_seq: Some(r), .. } if *r == seq))
            .await
            .map(|_| ())
    }

    pub async fn teardown(self) {
        self.cluster.shutdown().await;
        drop(self.session);
    }
}

/// Per connection: a frame may only carry a stream id on which the mock owes no response. The log orders `Frame`
/// (arrival) and `Sent` (response handed to the socket writer); a response that was never sent keeps its id owed.
pub fn stream_reuse(log: &[Arc<LogEntry>]) -> Vec<String> {
    let mut owed: BTreeMap<u64, BTreeMap<i16, u64>> = BTreeMap::new();
    let mut out = Vec::new();
    for e in log {
        match &e.kind {
            LogKind::Frame(f) => {
                let m = owed.entry(e.conn).or_default();
                if let Some(prev) = m.get(&f.stream) {
                    out.push(format!("connection {} (node {}): frame #{} carries stream id {} while the response to frame #{} on that id was still owed", e.conn, e.node, e.seq, f.stream, prev));
                }
                m.insert(f.stream, e.seq);
            }
            LogKind::Sent { stream, .. } => {
                owed.entry(e.conn).or_default().remove(stream);
            }
            _ => {}
        }
    }
    out
}

/// Stream ids used by test frames (for vacuity counters).
pub fn streams_of_values(log: &[Arc<LogEntry>]) -> BTreeMap<i32, Vec<(u64, i16)>> {
    let mut m: BTreeMap<i32, Vec<(u64, i16)>> = BTreeMap::new();
    for e in log {
        if let Some(v) = entry_value(e) {
            m.entry(v).or_default().push((e.conn, e.frame().unwrap().stream));
        }
    }
    m
}

/// Nodes that handed a COMPLETE response for bound value `v` to a socket.
pub fn answered_by(log: &[Arc<LogEntry>], v: i32) -> BTreeSet<usize> {
    let mut s = BTreeSet::new();
    for e in log {
        if let LogKind::Sent { request_seq: Some(rs), .. } = &e.kind {
            if log.get(*rs as usize).and_then(|r| entry_value(r)) == Some(v) {
                s.insert(e.node);
            }
        }
    }
    s
}

pub fn runtime() -> tokio::runtime::Runtime {
    runtime_n(2)
}
pub fn runtime_n(workers: usize) -> tokio::runtime::Runtime {
    tokio::runtime::Builder::new_multi_thread().worker_threads(workers).enable_all().build().unwrap_or_else(|e| vcore::machinery_error(&format!("tokio runtime: {e}")))
}

pub fn permutations(n: usize) -> Vec<Vec<usize>> {
    fn rec(cur: &mut Vec<usize>, used: &mut Vec<bool>, out: &mut Vec<Vec<usize>>) {
        if cur.len() == used.len() {
            out.push(cur.clone());
            return;
        }
        for i in 0..used.len() {
            if !used[i] {
                used[i] = true;
                cur.push(i);
                rec(cur, used, out);
                cur.pop();
                used[i] = false;
            }
        }
    }
    let mut out = Vec::new();
    rec(&mut Vec::new(), &mut vec![false; n], &mut out);
    out
}
