//! Helpers shared by the session-level E-MOCK legs (c09_session, c18_mock, c19_mock, c03_keys_session, c08_tablet):
//! wire codes written from the protocol specification (never taken from the driver), a recording timestamp
//! generator, runtime / partition plumbing.
use scylla::policies::timestamp_generator::TimestampGenerator;
use scylla::statement::{Consistency, SerialConsistency};
use std::sync::Mutex;

/// CQL v4 consistency codes (spec section 3, `[consistency]`), written from the specification.
pub fn consistency_code(c: Consistency) -> u16 {
    match c {
        Consistency::Any => 0x0000,
        Consistency::One => 0x0001,
        Consistency::Two => 0x0002,
        Consistency::Three => 0x0003,
        Consistency::Quorum => 0x0004,
        Consistency::All => 0x0005,
        Consistency::LocalQuorum => 0x0006,
        Consistency::EachQuorum => 0x0007,
        Consistency::Serial => 0x0008,
        Consistency::LocalSerial => 0x0009,
        Consistency::LocalOne => 0x000A,
    }
}
pub fn serial_code(c: SerialConsistency) -> u16 {
    match c {
        SerialConsistency::Serial => 0x0008,
        SerialConsistency::LocalSerial => 0x0009,
    }
}
pub const ALL_CONSISTENCIES: [Consistency; 11] = [
    Consistency::Any,
    Consistency::One,
    Consistency::Two,
    Consistency::Three,
    Consistency::Quorum,
    Consistency::All,
    Consistency::LocalQuorum,
    Consistency::EachQuorum,
    Consistency::Serial,
    Consistency::LocalSerial,
    Consistency::LocalOne,
];
pub fn consistency_name(code: u16) -> &'static str {
    ["ANY", "ONE", "TWO", "THREE", "QUORUM", "ALL", "LOCAL_QUORUM", "EACH_QUORUM", "SERIAL", "LOCAL_SERIAL", "LOCAL_ONE"].get(code as usize).copied().unwrap_or("?")
}

/// A timestamp generator owned by the harness: hands out `base, base+1, ...` and records every value, so an oracle
/// can say "the frame carries a value this generator handed out during this call" under every client schedule.
pub struct RecordingGen {
    pub base: i64,
    handed: Mutex<Vec<i64>>,
}
impl RecordingGen {
    pub fn new(base: i64) -> RecordingGen {
        RecordingGen { base, handed: Mutex::new(Vec::new()) }
    }
    pub fn handed_len(&self) -> usize {
        self.handed.lock().unwrap().len()
    }
    pub fn handed_since(&self, from: usize) -> Vec<i64> {
        self.handed.lock().unwrap()[from..].to_vec()
    }
}
impl TimestampGenerator for RecordingGen {
    fn next_timestamp(&self) -> i64 {
        let mut g = self.handed.lock().unwrap();
        let v = self.base + g.len() as i64;
        g.push(v);
        v
    }
}

/// Run one partition of work on its own multi-thread runtime (each partition owns a cluster + session).
pub fn block_on<F: std::future::Future>(workers: usize, f: F) -> F::Output {
    let rt = tokio::runtime::Builder::new_multi_thread().worker_threads(workers.max(1)).enable_all().build().unwrap_or_else(|e| vcore::machinery_error(&format!("tokio runtime: {e}")));
    let out = rt.block_on(f);
    rt.shutdown_background();
    out
}

/// Split `items` round-robin into `parts` buckets (simplest-first order is kept inside each bucket).
pub fn buckets<T>(items: Vec<T>, parts: usize) -> Vec<Vec<T>> {
    let parts = parts.max(1);
    let mut b: Vec<Vec<T>> = (0..parts).map(|_| Vec::new()).collect();
    for (i, x) in items.into_iter().enumerate() {
        b[i % parts].push(x);
    }
    b
}

/// Process-level watchdog: a leg that does not finish within `limit` (orders of magnitude above its normal run time)
/// ends as a machinery error (exit 2) instead of hanging its caller. Never a verdict.
pub fn watchdog(limit: std::time::Duration) {
    std::thread::spawn(move || {
        std::thread::sleep(limit);
        vcore::machinery_error(&format!("leg still running after {limit:?} (watchdog)"));
    });
}
