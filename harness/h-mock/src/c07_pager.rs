//! C07 helper: page-split enumeration, the reference expectation, the scripted mock world, the case runner
//! (real `Session::query_iter` / `execute_iter` against mockcluster) and the oracle.
//!
//! A *case* = (pager kind, idempotence, page split, paging-state alphabet, per-page fault queues, consumer regime).
//! The mock serves the split page by page keyed on the paging state of the request; faults are consumed by the
//! first requests that ask for their page. The oracle is computed from the case alone (`expect`), independent of
//! the driver: delivered rows, how the stream ends, and the exact sequence of page requests (by paging state).
//! Every wait is a condition on the mock's log / the consumer's progress; wall clock only as liveness deadline and
//! as the settle window before judging an expected-ABSENT request (early drop).
use futures::StreamExt;
use mockcluster::wire::{ColSpec, ColType, ErrorBody, Opcode, Response, col, val};
use mockcluster::{CloseKind, KeyspaceSpec, LogEntry, LogKind, MockCluster, NodeSpec, Reply, Script, TableSpec};
use scylla::client::session::Session;
use scylla::client::session_builder::SessionBuilder;
use scylla::statement::prepared::PreparedStatement;
use scylla::statement::unprepared::Statement;
use serde_json::{Value, json};
use std::collections::{BTreeMap, BTreeSet, HashMap, HashSet, VecDeque};
use std::sync::{Arc, Mutex};
use std::time::Duration;
use tokio::sync::Notify;

pub const NODES: usize = 3;
pub const STMT_PREFIX: &str = "SELECT a, run, idx, b, c FROM ks.pg WHERE run = ";
pub const STMT_PREPARED: &str = "SELECT a, run, idx, b, c FROM ks.pg WHERE run = ?";
/// liveness deadline for one case (correct code needs milliseconds)
pub const CASE_DEADLINE: Duration = Duration::from_secs(20);
/// how long a pausing consumer waits for the producer to run ahead before it resumes polling
pub const PAUSE_DEADLINE: Duration = Duration::from_secs(5);
/// settle window before judging that no further page request follows an early drop
pub const SETTLE: Duration = Duration::from_millis(60);

// ------------------------------------------------------------------------------------------------
// case description
// ------------------------------------------------------------------------------------------------

#[derive(Clone, Copy, Debug, PartialEq, Eq, PartialOrd, Ord, Hash)]
pub enum Mode {
    /// `Session::query_iter` with an unprepared statement without values
    Unprepared,
    /// `Session::execute_iter` with a prepared statement and one bound value (token-aware)
    Prepared,
}
impl Mode {
    pub const ALL: [Mode; 2] = [Mode::Unprepared, Mode::Prepared];
    pub fn name(self) -> &'static str {
        match self {
            Mode::Unprepared => "unprepared",
            Mode::Prepared => "prepared",
        }
    }
    pub fn from_name(s: &str) -> Option<Mode> {
        Mode::ALL.into_iter().find(|m| m.name() == s)
    }
}

/// Alphabet of paging-state byte strings. `state(kind, i)` is what the mock returns with page i-1 (i >= 1) and
/// expects in the request for page i. For most kinds the states of one run are pairwise distinct and the mock finds the
/// page by the bytes; where states repeat (`Const`, `SamePrev*`) the mock keeps a server-side cursor (next page not
/// yet answered) and serves, among the pages whose state matches, the one the cursor points at.
#[derive(Clone, Copy, Debug, PartialEq, Eq, PartialOrd, Ord, Hash)]
pub enum PsKind {
    /// one byte: [i]
    OneByte,
    /// i bytes of 0x00 (page 1: the single byte 0x00)
    Zero,
    /// i bytes of 0xFF
    Ff,
    /// 300 bytes
    Long,
    /// page i uses kind i mod 4
    Mixed,
    /// the state returned with the FIRST page is the zero-length byte string (HAS_MORE_PAGES + empty state); others [i]
    Empty1,
    /// the state returned with the second page is zero-length; others [i]
    Empty2,
    /// the SAME bytes are returned with every page (the state is a constant cursor handle; the server keeps the
    /// position itself)
    Const,
    /// the state returned with the second page equals the one returned with the first; others [i]
    SamePrev1,
    /// the state returned with the third page equals the one returned with the second; others [i]
    SamePrev2,
}
impl PsKind {
    pub const ALL: [PsKind; 10] = [PsKind::OneByte, PsKind::Zero, PsKind::Ff, PsKind::Long, PsKind::Mixed, PsKind::Empty1, PsKind::Empty2, PsKind::Const, PsKind::SamePrev1, PsKind::SamePrev2];
    pub fn name(self) -> &'static str {
        match self {
            PsKind::OneByte => "one-byte",
            PsKind::Zero => "zero",
            PsKind::Ff => "ff",
            PsKind::Long => "long300",
            PsKind::Mixed => "mixed",
            PsKind::Empty1 => "empty-at-1",
            PsKind::Empty2 => "empty-at-2",
            PsKind::Const => "constant",
            PsKind::SamePrev1 => "same-as-previous-at-2",
            PsKind::SamePrev2 => "same-as-previous-at-3",
        }
    }
    pub fn from_name(s: &str) -> Option<PsKind> {
        PsKind::ALL.into_iter().find(|m| m.name() == s)
    }
    pub fn state(self, i: usize) -> Vec<u8> {
        match self {
            PsKind::OneByte => vec![i as u8],
            PsKind::Zero => vec![0x00; i],
            PsKind::Ff => vec![0xFF; i],
            PsKind::Long => (0..300usize).map(|j| if j == 0 { i as u8 } else { (j * 7 + i) as u8 }).collect(),
            PsKind::Empty1 => if i == 1 { Vec::new() } else { vec![i as u8] },
            PsKind::Empty2 => if i == 2 { Vec::new() } else { vec![i as u8] },
            PsKind::Const => vec![0xC5; 4],
            PsKind::SamePrev1 => if i == 2 { vec![1] } else { vec![i as u8] },
            PsKind::SamePrev2 => if i == 3 { vec![2] } else { vec![i as u8] },
            PsKind::Mixed => {
                let k = [PsKind::OneByte, PsKind::Zero, PsKind::Ff, PsKind::Long][i % 4];
                // keep mixed states distinct from each other: lengths / first bytes differ per i within each kind
                k.state(i)
            }
        }
    }
}

#[derive(Clone, Copy, Debug, PartialEq, Eq, PartialOrd, Ord, Hash)]
pub enum Fault {
    /// READ_TIMEOUT(received >= required, no data): the default policy retries once on the same node
    ReadTimeout,
    /// UNAVAILABLE: retried once on the next node, idempotent or not
    Unavailable,
    /// OVERLOADED: retried on the next node iff the statement is idempotent, else surfaces
    Overloaded,
    /// half of the page's response frame is written, then the connection is reset: retried on the next node iff
    /// idempotent, else surfaces
    Reset,
    /// the (correct) response is parked behind a gate until the consumer has taken everything before it and polls
    Delay,
    /// INVALID: never retried
    Invalid,
    /// UNPREPARED (the node evicted the statement mid-paging; prepared pager only): the connection re-prepares and
    /// re-executes the SAME page request transparently; a second UNPREPARED in a row surfaces
    Unprepared,
}
impl Fault {
    pub const ALL: [Fault; 7] = [Fault::ReadTimeout, Fault::Unavailable, Fault::Overloaded, Fault::Reset, Fault::Delay, Fault::Invalid, Fault::Unprepared];
    pub fn name(self) -> &'static str {
        match self {
            Fault::ReadTimeout => "read-timeout",
            Fault::Unavailable => "unavailable",
            Fault::Overloaded => "overloaded",
            Fault::Reset => "reset",
            Fault::Delay => "delay",
            Fault::Invalid => "invalid",
            Fault::Unprepared => "unprepared",
        }
    }
    pub fn from_name(s: &str) -> Option<Fault> {
        Fault::ALL.into_iter().find(|m| m.name() == s)
    }
}

#[derive(Clone, Debug, PartialEq, Eq, PartialOrd, Ord, Hash)]
pub enum Consumer {
    Eager,
    /// after `at` rows (a page boundary; 0 = right after the pager was returned) the consumer stops polling until
    /// the mock has seen (and answered) the furthest page request the producer can issue without the consumer
    PauseAt(usize),
    /// the same at every page boundary
    PauseAll,
    /// takes k rows, then drops the stream
    DropAfter(usize),
}
impl Consumer {
    pub fn json(&self) -> Value {
        match self {
            Consumer::Eager => json!({"kind": "eager"}),
            Consumer::PauseAt(c) => json!({"kind": "pause-at", "rows": c}),
            Consumer::PauseAll => json!({"kind": "pause-all"}),
            Consumer::DropAfter(k) => json!({"kind": "drop-after", "rows": k}),
        }
    }
    pub fn from_json(v: &Value) -> Option<Consumer> {
        let n = v["rows"].as_u64().unwrap_or(0) as usize;
        match v["kind"].as_str()? {
            "eager" => Some(Consumer::Eager),
            "pause-at" => Some(Consumer::PauseAt(n)),
            "pause-all" => Some(Consumer::PauseAll),
            "drop-after" => Some(Consumer::DropAfter(n)),
            _ => None,
        }
    }
    pub fn kind(&self) -> &'static str {
        match self {
            Consumer::Eager => "eager",
            Consumer::PauseAt(_) => "pause-at",
            Consumer::PauseAll => "pause-all",
            Consumer::DropAfter(_) => "drop-after",
        }
    }
}

/// One delivered row: (a int NULLable, run int, idx int, b text NULLable, c int NULLable) - NULLs are possible in the
/// first, a middle and the last column.
pub type Row = (Option<i32>, i32, i32, Option<String>, Option<i32>);

/// Cell contents of the scripted rows.
#[derive(Clone, Copy, Debug, PartialEq, Eq, PartialOrd, Ord, Hash)]
pub enum RowShape {
    /// row idx has NULLs according to the bits of (idx + offset) mod 8: bit 0 -> a, bit 1 -> b, bit 2 -> c. Every
    /// NULL position and combination occurs, also in rows that are followed by further rows of the same page.
    Nulls(u8),
    /// as Nulls(1), and the text cell of row 0 has this many bytes (a page whose frame body exceeds 32 KiB / 64 KiB)
    Big(usize),
}
impl RowShape {
    pub fn name(self) -> String {
        match self {
            RowShape::Nulls(k) => format!("nulls:{k}"),
            RowShape::Big(n) => format!("big:{n}"),
        }
    }
    pub fn from_name(s: &str) -> Option<RowShape> {
        let (k, v) = s.split_once(':')?;
        match k {
            "nulls" => Some(RowShape::Nulls(v.parse().ok()?)),
            "big" => Some(RowShape::Big(v.parse().ok()?)),
            _ => None,
        }
    }
    pub fn mask(self, idx: i32) -> u8 {
        let off = match self {
            RowShape::Nulls(k) => k as i32,
            RowShape::Big(_) => 1,
        };
        ((idx + off).rem_euclid(8)) as u8
    }
}

/// The row the script holds for (run, idx).
pub fn row_value(run: i32, idx: i32, shape: RowShape) -> Row {
    let m = shape.mask(idx);
    let b = match shape {
        RowShape::Big(n) if idx == 0 => Some((0..n).map(|j| (b'a' + (j % 23) as u8) as char).collect::<String>()),
        _ if m & 2 != 0 => None,
        _ => Some(format!("row-{idx}")),
    };
    (if m & 1 != 0 { None } else { Some(idx * 10 + 1) }, run, idx, b, if m & 4 != 0 { None } else { Some(-idx) })
}

#[derive(Clone, Debug, PartialEq, Eq, Hash)]
pub struct Case {
    pub mode: Mode,
    pub idempotent: bool,
    /// page sizes in server order (0 = empty page); sum = number of rows
    pub split: Vec<usize>,
    pub ps: PsKind,
    /// (page, fault) in injection order; the faults of one page are consumed by successive requests for that page
    pub faults: Vec<(usize, Fault)>,
    pub consumer: Consumer,
    /// nodes of the mock cluster (2 or 3; 3 unless stated)
    pub nodes: usize,
    /// prepared pager only: `use_cached_result_metadata(true)` (the driver asks the server to skip result metadata)
    pub cached_metadata: bool,
    /// the server attaches result metadata to this page although skipping was requested
    pub metadata_anyway_on: Option<usize>,
    /// cell contents (NULL pattern / a big cell)
    pub shape: RowShape,
    /// (page, kind): the response frame of that page carries envelope extensions: 1 = a warnings list, 2 = a custom
    /// payload, 3 = both, 4 = both + a tracing id
    pub extras: Option<(usize, u8)>,
}
impl Case {
    pub fn json(&self) -> Value {
        json!({
            "mode": self.mode.name(),
            "idempotent": self.idempotent,
            "split": self.split,
            "ps": self.ps.name(),
            "faults": self.faults.iter().map(|(p, f)| json!([p, f.name()])).collect::<Vec<_>>(),
            "consumer": self.consumer.json(),
            "nodes": self.nodes,
            "cached_metadata": self.cached_metadata,
            "metadata_anyway_on": self.metadata_anyway_on,
            "rows": self.shape.name(),
            "extras": self.extras.map(|(p, k)| json!([p, k])),
        })
    }
    pub fn from_json(v: &Value) -> Option<Case> {
        Some(Case {
            mode: Mode::from_name(v["mode"].as_str()?)?,
            idempotent: v["idempotent"].as_bool()?,
            split: v["split"].as_array()?.iter().map(|x| x.as_u64().unwrap_or(0) as usize).collect(),
            ps: PsKind::from_name(v["ps"].as_str()?)?,
            faults: v["faults"].as_array()?.iter().filter_map(|x| Some((x[0].as_u64()? as usize, Fault::from_name(x[1].as_str()?)?))).collect(),
            consumer: Consumer::from_json(&v["consumer"])?,
            nodes: v["nodes"].as_u64().map(|n| n as usize).unwrap_or(NODES).clamp(1, NODES),
            cached_metadata: v["cached_metadata"].as_bool().unwrap_or(false),
            metadata_anyway_on: v["metadata_anyway_on"].as_u64().map(|n| n as usize),
            shape: v["rows"].as_str().and_then(RowShape::from_name).unwrap_or(RowShape::Nulls(0)),
            extras: match &v["extras"] {
                Value::Array(a) if a.len() == 2 => Some((a[0].as_u64()? as usize, a[1].as_u64()? as u8)),
                _ => None,
            },
        })
    }
    pub fn rows(&self) -> usize {
        self.split.iter().sum()
    }
    pub fn has_reset(&self) -> bool {
        self.faults.iter().any(|(_, f)| *f == Fault::Reset)
    }
    pub fn page_faults(&self, page: usize) -> Vec<Fault> {
        self.faults.iter().filter(|(p, _)| *p == page).map(|(_, f)| *f).collect()
    }
}

/// Every split of `n` rows into pages: sequences of page sizes >= 0 summing to n, at least one page, never three
/// empty pages in a row (empty first / middle / last pages and runs of two included). Simplest (fewest pages) first.
pub fn splits(n: usize) -> Vec<Vec<usize>> {
    fn rec(left: usize, zeros: usize, cur: &mut Vec<usize>, out: &mut Vec<Vec<usize>>) {
        if left == 0 && !cur.is_empty() {
            out.push(cur.clone());
        }
        if zeros < 2 {
            cur.push(0);
            rec(left, zeros + 1, cur, out);
            cur.pop();
        }
        for s in 1..=left {
            cur.push(s);
            rec(left - s, 0, cur, out);
            cur.pop();
        }
    }
    let mut out = Vec::new();
    rec(n, 0, &mut Vec::new(), &mut out);
    out.sort_by(|a, b| (a.len(), a).cmp(&(b.len(), b)));
    out
}

// ------------------------------------------------------------------------------------------------
// reference expectation (from the property statement + the documented default retry policy; no driver code)
// ------------------------------------------------------------------------------------------------

#[derive(Clone, Copy, Debug, PartialEq, Eq)]
pub enum Verdict {
    RetrySame,
    RetryNext,
    Surface,
    /// not an error: this attempt is answered (late)
    Served,
    /// the same request is sent again on the same connection after a transparent re-prepare
    Reexecute,
}

#[derive(Clone, Debug)]
pub struct Expect {
    /// row indexes the stream must deliver, in order, if the consumer takes everything
    pub rows: Vec<i32>,
    /// the stream ends with an error (after `rows`) instead of a clean end
    pub error: Option<(usize, Fault)>,
    /// page index of every request the mock must see, in order, if the consumer takes everything
    pub requests: Vec<usize>,
    /// verdict per fault, in request order (parallel to the faulted entries of `requests`)
    pub verdicts: Vec<(usize, Fault, Verdict)>,
    /// last page that is ever requested
    pub stop_page: usize,
    /// first row index of each page (prefix sums), len = pages + 1
    pub first_row: Vec<usize>,
}
impl Expect {
    /// number of requests expected for `page`
    pub fn attempts(&self, page: usize) -> usize {
        self.requests.iter().filter(|p| **p == page).count()
    }
    /// page whose rows contain row number `c - 1` (0 for c = 0): the page the consumer holds after taking c rows
    pub fn page_holding(&self, c: usize) -> usize {
        if c == 0 {
            return 0;
        }
        (0..self.first_row.len() - 1).find(|&p| self.first_row[p + 1] >= c && self.first_row[p + 1] > self.first_row[p]).unwrap_or(0)
    }
}

pub fn expect(case: &Case) -> Expect {
    let pages = case.split.len();
    let mut first_row = vec![0usize];
    for s in &case.split {
        first_row.push(first_row.last().unwrap() + s);
    }
    let mut e = Expect { rows: Vec::new(), error: None, requests: Vec::new(), verdicts: Vec::new(), stop_page: 0, first_row };
    'pages: for p in 0..pages {
        e.stop_page = p;
        // the retry decision state is per page request (each page is one logical request)
        let mut read_timeout_retried = false;
        let mut unavailable_retried = false;
        let mut targets_left = case.nodes; // distinct nodes the (fresh, per page request) plan can still offer
        let mut served = false;
        let mut prev_unprepared = false;
        for f in case.page_faults(p) {
            e.requests.push(p);
            let was_unprepared = std::mem::replace(&mut prev_unprepared, f == Fault::Unprepared);
            let v = match f {
                Fault::Delay => Verdict::Served,
                Fault::Unprepared if !was_unprepared => Verdict::Reexecute,
                Fault::Unprepared => Verdict::Surface,
                Fault::ReadTimeout if !read_timeout_retried => {
                    read_timeout_retried = true;
                    Verdict::RetrySame
                }
                Fault::ReadTimeout => Verdict::Surface,
                Fault::Unavailable if !unavailable_retried => {
                    unavailable_retried = true;
                    Verdict::RetryNext
                }
                Fault::Unavailable => Verdict::Surface,
                Fault::Overloaded | Fault::Reset if case.idempotent => Verdict::RetryNext,
                Fault::Overloaded | Fault::Reset => Verdict::Surface,
                Fault::Invalid => Verdict::Surface,
            };
            let v = if v == Verdict::RetryNext {
                targets_left -= 1;
                if targets_left == 0 { Verdict::Surface } else { v }
            } else {
                v
            };
            e.verdicts.push((p, f, v));
            match v {
                Verdict::Surface => {
                    e.error = Some((p, f));
                    break 'pages;
                }
                Verdict::Served => {
                    served = true;
                    break;
                }
                _ => {}
            }
        }
        if !served {
            e.requests.push(p);
        }
        e.rows.extend((e.first_row[p]..e.first_row[p + 1]).map(|i| i as i32));
    }
    e
}

/// A fault list is admissible when nothing is queued behind a Delay of the same page (it would never be consumed)
/// and, per page, behind a fault that surfaces.
pub fn admissible(case: &Case) -> bool {
    let e = expect(case);
    e.verdicts.len() == case.faults.len()
        && case.faults.iter().all(|(p, _)| *p < case.split.len())
        && (case.mode == Mode::Prepared || case.faults.iter().all(|(_, f)| *f != Fault::Unprepared))
}

// ------------------------------------------------------------------------------------------------
// the scripted world
// ------------------------------------------------------------------------------------------------

struct RunScript {
    pages: Vec<Vec<i32>>,
    /// states[i] = paging state that asks for page i (states[0] unused)
    states: Vec<Vec<u8>>,
    faults: Vec<VecDeque<Fault>>,
    requests: usize,
    cap: usize,
    capped: bool,
    unknown_state: Option<Vec<u8>>,
    /// next page not yet answered (server-side position; used only where paging states repeat)
    cursor: usize,
    /// request seq -> page the mock resolved it to (None: a state the server never returned)
    resolved: HashMap<u64, Option<usize>>,
    metadata_anyway_on: Option<usize>,
    shape: RowShape,
    extras: Option<(usize, u8)>,
}
#[derive(Default)]
struct Shared {
    runs: HashMap<i32, RunScript>,
    /// request seqs whose response is to be parked by the gate
    held: HashSet<u64>,
}

fn result_cols() -> Vec<ColSpec> {
    vec![col("ks", "pg", "a", ColType::Int), col("ks", "pg", "run", ColType::Int), col("ks", "pg", "idx", ColType::Int), col("ks", "pg", "b", ColType::Text), col("ks", "pg", "c", ColType::Int)]
}

fn run_of(stmt: Option<&str>, values: &[mockcluster::wire::Val]) -> Option<i32> {
    let s = stmt?;
    let tail = s.strip_prefix(STMT_PREFIX)?;
    if tail == "?" {
        let b = values.first()?.as_bytes()?;
        Some(i32::from_be_bytes(b.try_into().ok()?))
    } else {
        tail.parse().ok()
    }
}

fn script_reply(shared: &Arc<Mutex<Shared>>, ctx: &mockcluster::ReqCtx) -> Reply {
    let Some(params) = ctx.params() else { return Reply::error(ErrorBody::invalid("c07: no query parameters")) };
    let Some(run) = run_of(ctx.statement.as_deref(), &params.values) else { return Reply::error(ErrorBody::invalid("c07: cannot identify the run")) };
    let mut g = shared.lock().unwrap();
    let Shared { runs, held } = &mut *g;
    let Some(rs) = runs.get_mut(&run) else { return Reply::error(ErrorBody::invalid("c07: unknown run")) };
    rs.requests += 1;
    let resolved: Option<usize> = match &params.paging_state {
        None => Some(0),
        Some(b) => {
            let cands: Vec<usize> = (1..rs.states.len()).filter(|i| rs.states[*i] == *b).collect();
            if cands.contains(&rs.cursor) { Some(rs.cursor) } else { cands.first().copied() }
        }
    };
    rs.resolved.insert(ctx.entry.seq, resolved);
    if rs.requests > rs.cap {
        rs.capped = true;
        return Reply::error(ErrorBody::invalid("c07: request cap reached (runaway pager)"));
    }
    let Some(page) = resolved else {
        rs.unknown_state = params.paging_state.clone();
        return Reply::error(ErrorBody::invalid("c07: unknown paging state"));
    };
    let shape = rs.shape;
    let rows: Vec<Vec<mockcluster::wire::Cell>> = rs.pages[page]
        .iter()
        .map(|i| {
            let (a, run, idx, b, c) = row_value(run, *i, shape);
            vec![a.map(val::int).unwrap_or_else(val::null), val::int(run), val::int(idx), b.as_deref().map(val::text).unwrap_or_else(val::null), c.map(val::int).unwrap_or_else(val::null)]
        })
        .collect();
    let next = if page + 1 < rs.pages.len() { Some(rs.states[page + 1].clone()) } else { None };
    let mut normal = Response::rows_paged(result_cols(), rows, next);
    if rs.metadata_anyway_on == Some(page) {
        // the server sends the result metadata although the request asked to skip it
        if let Response::Rows(r) = &mut normal {
            r.honor_skip_metadata = false;
        }
    }
    // envelope extensions of this page's frame: [tracing id] <warnings> <custom payload> <message>
    let extra_kind = rs.extras.filter(|(p, _)| *p == page).map(|(_, k)| k).unwrap_or(0);
    let dress = move |r: Response| -> mockcluster::wire::Envelope {
        let mut env: mockcluster::wire::Envelope = r.into();
        if extra_kind == 1 || extra_kind >= 3 {
            env = env.with_warning("c07: scripted warning \u{e9}").with_warning("");
        }
        if extra_kind >= 2 {
            env = env.with_payload("c07-extra", vec![0, 0, 0, 1]).with_payload("k", Vec::new());
        }
        if extra_kind == 4 {
            env = env.with_tracing_id([0x7A; 16]);
        }
        env
    };
    let cl = params.consistency;
    let fault = rs.faults[page].pop_front();
    if matches!(fault, None | Some(Fault::Delay)) {
        rs.cursor = page + 1;
    }
    match fault {
        None => Reply::Frame(dress(normal)),
        Some(Fault::ReadTimeout) => Reply::error(ErrorBody::read_timeout(cl, 1, 1, false)),
        Some(Fault::Unavailable) => Reply::error(ErrorBody::unavailable(cl, 2, 1)),
        Some(Fault::Overloaded) => Reply::error(ErrorBody::overloaded("c07: overloaded")),
        Some(Fault::Invalid) => Reply::error(ErrorBody::invalid("c07: scripted non-retryable error")),
        Some(Fault::Unprepared) => match ctx.request.prepared_id() {
            // answered as if the node had evicted the statement. The node's id cache itself is left alone: an
            // eviction is per node, and a late request of an earlier (dropped) stream of this world could evict
            // between this case's PREPARE and its re-EXECUTE - a second UNPREPARED that no script asked for
            Some(id) => Reply::error(ErrorBody::unprepared(id)),
            None => Reply::error(ErrorBody::invalid("c07: UNPREPARED scripted for an unprepared statement")),
        },
        Some(Fault::Reset) => {
            // measure the frame as it will be written: the mock drops the metadata when the request asked for it
            if let Response::Rows(r) = &mut normal {
                if r.honor_skip_metadata && params.skip_metadata {
                    r.metadata.no_metadata = true;
                }
            }
            let env: mockcluster::wire::Envelope = dress(normal);
            let len = env.encode_frame(ctx.stream).len();
            let body = len - mockcluster::wire::HEADER_LEN;
            Reply::CutFrame { env, bytes: mockcluster::wire::HEADER_LEN + body / 2, then: CloseKind::Rst }
        }
        Some(Fault::Delay) => {
            held.insert(ctx.entry.seq);
            Reply::Frame(dress(normal))
        }
    }
}

/// One mock cluster + one Session, reused for many cases (each case has its own run id; frames are attributed to
/// cases by the run id in the statement text / bound value, so a late request of an earlier case cannot be
/// mistaken for one of the current case).
pub struct World {
    pub cluster: MockCluster,
    pub session: Arc<Session>,
    shared: Arc<Mutex<Shared>>,
    prepared: PreparedStatement,
    next_run: i32,
    /// early-drop cases whose "at most one further page request" verdict is still open
    pending: Vec<PendingDrop>,
    pub cases_run: usize,
    pub nodes: usize,
    /// some stream of this world was dropped early (its producer may still have a request in flight)
    pub had_drop: bool,
}

struct PendingDrop {
    case: Case,
    run: i32,
    /// log position when the case started
    from: u64,
    /// log position right after the stream was dropped
    mark: u64,
    /// the script still has pages the producer could ask for (a settle window is needed before judging)
    open: bool,
}

#[derive(Clone, Debug)]
pub struct Complaint {
    pub key: String,
    pub text: String,
    pub case: Value,
}

#[derive(Clone, Debug, PartialEq, Eq)]
pub enum End {
    /// `next()` returned None
    Done,
    /// `next()` returned an error
    Error(String),
    /// the call that creates the pager returned an error (first page)
    StartError(String),
    Dropped,
}

#[derive(Default)]
struct ProgState {
    rows: Vec<Row>,
    paused: bool,
    end: Option<End>,
    drop_mark: Option<u64>,
    pauses: usize,
    pause_timeouts: usize,
}
#[derive(Default)]
struct Progress {
    st: Mutex<ProgState>,
    n: Notify,
}
impl Progress {
    fn update(&self, f: impl FnOnce(&mut ProgState)) {
        f(&mut self.st.lock().unwrap());
        self.n.notify_waiters();
    }
    async fn wait<T>(&self, mut f: impl FnMut(&ProgState) -> Option<T>) -> T {
        loop {
            let notified = self.n.notified();
            tokio::pin!(notified);
            notified.as_mut().enable();
            if let Some(t) = f(&self.st.lock().unwrap()) {
                return t;
            }
            notified.await;
        }
    }
}

/// What one case execution observed (for counters / distinct outcomes).
#[derive(Clone, Debug, Default)]
pub struct Observed {
    pub rows: usize,
    pub end: String,
    pub requests: usize,
    pub retries: usize,
    pub node_switches: usize,
    pub same_node_retries: usize,
    pub pauses: usize,
    pub delays_released_while_polling: usize,
    pub frames_checked: usize,
    pub states_checked: usize,
    pub max_state_len: usize,
    pub null_cells: usize,
    pub rows_after_null_row_in_page: usize,
    pub max_cell_bytes: usize,
}

impl World {
    pub async fn setup(nodes: usize) -> Result<World, String> {
        let mut b = MockCluster::builder();
        let toks: [[i64; 2]; NODES] = [[-6_000_000_000_000_000_000, 1_000_000_000_000_000_000], [-3_000_000_000_000_000_000, 4_000_000_000_000_000_000], [0, 7_000_000_000_000_000_000]];
        for (i, t) in toks.iter().enumerate().take(nodes) {
            b = b.node(NodeSpec::new("dc1", &format!("r{i}"), t.to_vec()));
        }
        b = b.keyspace(KeyspaceSpec::simple("ks", nodes).table(TableSpec::new("pg").pk("run", "int").col("idx", "int").col("a", "int").col("b", "text").col("c", "int")));
        let cluster = b.build().await?;
        let shared: Arc<Mutex<Shared>> = Arc::new(Mutex::new(Shared::default()));
        let sh = shared.clone();
        cluster.script(Script::new(STMT_PREFIX).prefix().bind(vec![col("ks", "pg", "run", ColType::Int)], vec![0]).result(result_cols()).reply(move |ctx| script_reply(&sh, ctx)));
        let sh = shared.clone();
        cluster.hold(move |a| match a.request_entry() {
            Some(e) => sh.lock().unwrap().held.contains(&e.seq),
            None => false,
        });
        let session = SessionBuilder::new().known_node(cluster.contact_point(0)).build().await.map_err(|e| format!("session did not come up: {e}"))?;
        for n in 0..nodes {
            cluster
                .wait_conns(&format!("node {n} has a ready pool connection"), mockcluster::DEADLINE, |cs| cs.iter().any(|c| c.node == n && c.open && c.ready && c.registered.is_empty()).then_some(()))
                .await?;
        }
        let prepared = session.prepare(STMT_PREPARED).await.map_err(|e| format!("prepare failed: {e}"))?;
        Ok(World { cluster, session: Arc::new(session), shared, prepared, next_run: 1, pending: Vec::new(), cases_run: 0, nodes, had_drop: false })
    }

    pub async fn teardown(self) {
        self.cluster.shutdown().await;
        drop(self.session);
    }

    fn frames_of(&self, run: i32, from: u64) -> Vec<Arc<LogEntry>> {
        self.cluster
            .log_since(from)
            .into_iter()
            .filter(|e| matches!(e.opcode(), Some(Opcode::Query | Opcode::Execute)) && entry_run(e) == Some(run))
            .collect()
    }

    /// Run one case. Returns the complaints of the oracle (empty = held) or Err for a machinery problem.
    pub async fn run_case(&mut self, case: &Case) -> Result<(Vec<Complaint>, Observed), String> {
        let exp = expect(case);
        let run = self.next_run;
        self.next_run += 1;
        self.cases_run += 1;
        if matches!(case.consumer, Consumer::DropAfter(_)) {
            self.had_drop = true;
        }
        let pages = case.split.len();
        {
            let mut g = self.shared.lock().unwrap();
            let mut faults: Vec<VecDeque<Fault>> = vec![VecDeque::new(); pages];
            for (p, f) in &case.faults {
                faults[*p].push_back(*f);
            }
            g.runs.insert(
                run,
                RunScript {
                    pages: (0..pages).map(|p| (exp.first_row[p]..exp.first_row[p + 1]).map(|i| i as i32).collect()).collect(),
                    states: (0..pages).map(|i| if i == 0 { Vec::new() } else { case.ps.state(i) }).collect(),
                    faults,
                    requests: 0,
                    cap: 3 * pages + 2 * case.faults.len() + 8,
                    capped: false,
                    unknown_state: None,
                    cursor: 0,
                    resolved: HashMap::new(),
                    metadata_anyway_on: case.metadata_anyway_on,
                    shape: case.shape,
                    extras: case.extras,
                },
            );
        }
        let from = self.cluster.log_len();
        let progress = Arc::new(Progress::default());
        let consumer = tokio::spawn(consume(self.session.clone(), self.cluster.clone(), self.shared.clone(), self.prepared.clone(), case.clone(), exp.clone(), run, from, progress.clone()));
        let mk = |key: &str, text: String| Complaint { key: format!("{}:{}", case.mode.name(), key), text, case: case.json() };
        let mut complaints: Vec<Complaint> = Vec::new();
        let mut obs = Observed::default();

        // controller: release parked (delayed) responses once the consumer has taken everything before them and is
        // polling (or cannot get further: paused / finished)
        let body = async {
            let mut released_polling = 0usize;
            let delays: Vec<usize> = exp.verdicts.iter().filter(|(_, f, _)| *f == Fault::Delay).map(|(p, _, _)| *p).collect();
            for p in delays {
                let held = tokio::select! {
                    // (if the request never arrives the case deadline reports the hang)
                    h = self.cluster.wait_held("the delayed page response to be parked", |a| a.request_entry().map(|e| entry_run(e) == Some(run)).unwrap_or(false)) => h.ok(),
                    _ = progress.wait(|s| s.end.clone()) => None,
                };
                let Some(held) = held else { break };
                let need = exp.first_row[p];
                let polling = progress.wait(|s| if s.rows.len() >= need || s.paused || s.end.is_some() { Some(s.rows.len() >= need && s.end.is_none() && !s.paused) } else { None }).await;
                if polling {
                    // the consumer holds every earlier row; let its next poll reach the empty channel first
                    tokio::task::yield_now().await;
                    released_polling += 1;
                }
                let now = progress.st.lock().unwrap().rows.len();
                if now > need {
                    return Ok::<Result<usize, String>, String>(Err(format!("{now} rows were delivered while the response for page {p} (first row {need}) was still parked at the server")));
                }
                if let Some(e) = held.request_entry() {
                    self.shared.lock().unwrap().held.remove(&e.seq);
                }
                self.cluster.release(held.id);
            }
            progress.wait(|s| s.end.clone()).await;
            Ok(Ok(released_polling))
        };
        let timed = tokio::time::timeout(CASE_DEADLINE, body).await;
        // anything still parked belongs to this or an earlier case of this world (cases run one after the other)
        self.shared.lock().unwrap().held.clear();
        self.cluster.release_all();
        match timed {
            Err(_) => {
                consumer.abort();
                let (n, paused) = {
                    let st = progress.st.lock().unwrap();
                    (st.rows.len(), st.paused)
                };
                let seen: Vec<i64> = self.frames_of(run, from).iter().map(|e| self.page_of(run, e).map(|p| p as i64).unwrap_or(-1)).collect();
                complaints.push(mk(
                    "liveness:stream-did-not-finish",
                    format!("the stream neither ended nor failed within {CASE_DEADLINE:?}: {n} rows delivered, consumer paused={paused}, page requests seen {seen:?} (expected {:?})", exp.requests),
                ));
                return Ok((complaints, obs));
            }
            Ok(Err(e)) => {
                consumer.abort();
                return Err(e);
            }
            Ok(Ok(Err(v))) => {
                consumer.abort();
                complaints.push(mk("rows:before-their-response", v));
                return Ok((complaints, obs));
            }
            Ok(Ok(Ok(n))) => obs.delays_released_while_polling = n,
        }
        match consumer.await {
            Ok(Ok(())) => {}
            Ok(Err(e)) => return Err(e),
            Err(e) => return Err(format!("consumer task: {e}")),
        }
        let (got_rows, end, drop_mark, pauses, pause_timeouts) = {
            let st = progress.st.lock().unwrap();
            (st.rows.clone(), st.end.clone().unwrap(), st.drop_mark, st.pauses, st.pause_timeouts)
        };
        obs.rows = got_rows.len();
        obs.pauses = pauses;

        // ---- oracle 1: rows and the way the stream ends
        let first_page_fails = matches!(exp.error, Some((0, _)));
        let k = match case.consumer {
            Consumer::DropAfter(k) if k <= exp.rows.len() && !first_page_fails => Some(k),
            _ => None,
        };
        let want_rows: Vec<i32> = match k {
            Some(k) => exp.rows[..k].to_vec(),
            None => exp.rows.clone(),
        };
        let foreign = got_rows.iter().any(|r| r.1 != run);
        let got_idx: Vec<i32> = got_rows.iter().map(|r| r.2).collect();
        // NULLs delivered, and rows that came after a row with a NULL within the same page (their cells start at an
        // offset that depends on how the NULL was skipped)
        for (n, r) in got_rows.iter().enumerate() {
            let nulls = r.0.is_none() as usize + r.3.is_none() as usize + r.4.is_none() as usize;
            obs.null_cells += nulls;
            if n > 0 && got_idx[n] == got_idx[n - 1] + 1 {
                let prev = &got_rows[n - 1];
                let same_page = (0..pages).any(|p| exp.first_row[p] as i32 <= prev.2 && (r.2 as usize) < exp.first_row[p + 1]);
                if same_page && (prev.0.is_none() || prev.3.is_none() || prev.4.is_none()) {
                    obs.rows_after_null_row_in_page += 1;
                }
            }
            obs.max_cell_bytes = obs.max_cell_bytes.max(r.3.as_ref().map(|b| b.len()).unwrap_or(0));
        }
        if foreign {
            complaints.push(mk("rows:foreign", format!("rows of another statement were delivered: {got_rows:?} (run {run})")));
        } else if got_idx != want_rows {
            let mut sorted_got = got_idx.clone();
            sorted_got.sort();
            let mut dedup = sorted_got.clone();
            dedup.dedup();
            let mut sorted_want = want_rows.clone();
            sorted_want.sort();
            let kind = if dedup.len() < sorted_got.len() {
                "rows:duplicated"
            } else if sorted_got == sorted_want {
                "rows:reordered"
            } else if got_idx.iter().all(|i| want_rows.contains(i)) {
                "rows:lost"
            } else {
                "rows:unexpected"
            };
            complaints.push(mk(kind, format!("delivered rows (by idx) {got_idx:?}; scripted pages {:?} with faults {:?} require {want_rows:?} (stream end: {})", case.split, fault_names(case), end_short(&end))));
        }
        if !foreign && got_idx == want_rows {
            if let Some(bad) = got_rows.iter().find(|r| **r != row_value(run, r.2, case.shape)) {
                let want = row_value(run, bad.2, case.shape);
                let short = |r: &Row| format!("({:?}, {}, {}, {:?}, {:?})", r.0, r.1, r.2, r.3.as_ref().map(|b| if b.len() > 24 { format!("<{} bytes>", b.len()) } else { b.clone() }), r.4);
                complaints.push(mk("rows:cell-values", format!("row idx {} was delivered as {} but the script holds {} (rows {})", bad.2, short(bad), short(&want), case.shape.name())));
            }
        }
        obs.end = match &end {
            End::Dropped => {
                if k.is_none() {
                    return Err("consumer dropped although it was not asked to".into());
                }
                "dropped".to_string()
            }
            _ if k.is_some() => {
                if got_idx.len() >= k.unwrap() {
                    return Err(format!("consumer did not drop after {} rows", k.unwrap()));
                }
                complaints.push(mk("end:early", format!("the stream ended ({}) after {} rows although the script delivers {} rows before its end", end_short(&end), got_idx.len(), exp.rows.len())));
                "early".to_string()
            }
            End::Done => {
                if let Some((p, f)) = exp.error {
                    complaints.push(mk("end:error-swallowed", format!("the non-retried {} on page {p} must surface as an error after the rows of earlier pages; the stream ended cleanly after {} rows", f.name(), got_idx.len())));
                }
                "done".to_string()
            }
            End::Error(e) | End::StartError(e) => {
                if exp.error.is_none() {
                    complaints.push(mk("end:unexpected-error", format!("every scripted failure is one the retry policy retries (faults {:?}), yet the stream failed after {} rows: {e}", fault_names(case), got_idx.len())));
                }
                format!("error:{}:{}", if matches!(end, End::StartError(_)) { "at-start" } else { "in-stream" }, classify_error(e))
            }
        };

        // ---- oracle 2: page requests as the mock logged them (paging state parsed by the independent cqlref parser)
        let frames = self.frames_of(run, from);
        let mut seen_pages: Vec<usize> = Vec::new();
        let mut bad_state: Option<Vec<u8>> = None;
        for e in &frames {
            let f = e.frame().unwrap();
            if !self.is_resolved(run, e) {
                // logged, but the mock has not answered it yet (an in-flight request of a just-dropped stream):
                // nothing delivered so far can depend on it; the deferred judgement of the drop sees it
                continue;
            }
            let st = match cqlref::proto::parse_request_body(if f.opcode == Opcode::Query { 0x07 } else { 0x0A }, &f.body, false) {
                Ok(cqlref::proto::Request::Query { params, .. }) | Ok(cqlref::proto::Request::Execute { params, .. }) => params.paging_state,
                other => return Err(format!("cqlref cannot parse a page request the mock accepted: {other:?}")),
            };
            if st != f.request.params().unwrap().paging_state {
                return Err("mock and cqlref disagree on the paging state of a frame".into());
            }
            obs.frames_checked += 1;
            match &st {
                None => seen_pages.push(0),
                Some(b) => {
                    obs.states_checked += 1;
                    obs.max_state_len = obs.max_state_len.max(b.len());
                    // the page the mock resolved the request to: a page whose state has exactly these bytes (where
                    // states repeat: the one its cursor pointed at)
                    match self.page_of(run, e).map(|p| p as usize).filter(|i| *i < pages && case.ps.state(*i) == *b) {
                        Some(i) => seen_pages.push(i),
                        None => {
                            bad_state.get_or_insert(b.clone());
                            seen_pages.push(usize::MAX);
                        }
                    }
                }
            }
        }
        obs.requests = seen_pages.len();
        let capped = self.shared.lock().unwrap().runs[&run].capped;
        let requires = format!("the script (pages {:?}, faults {:?}) requires [{}]: request i carries the state returned with page i-1 (the first none), a retry the same state again", case.split, fault_names(case), describe_pages(&exp.requests));
        if let Some(b) = &bad_state {
            complaints.push(mk("frames:unknown-paging-state", format!("a page request carried a paging state the server never returned: {}{} ({} bytes); requests by page: [{}]", vcore::hex(&b[..b.len().min(16)]), if b.len() > 16 { ".." } else { "" }, b.len(), describe_pages(&seen_pages))));
        } else if seen_pages.first().map(|p| *p != 0).unwrap_or(false) {
            complaints.push(mk("frames:first-request-has-state", format!("the first page request carried a paging state; requests by page: [{}]", describe_pages(&seen_pages))));
        } else if k.is_none() {
            if seen_pages != exp.requests {
                let key = if capped { "frames:runaway" } else { "frames:wrong-paging-state" };
                complaints.push(mk(key, format!("page requests by page index (read off their paging states): [{}]; {requires}", describe_pages(&seen_pages))));
            }
        } else {
            // early drop: what was requested so far is a prefix of the full sequence and reaches the page holding row k-1
            let need_page = exp.page_holding(k.unwrap());
            let need_len = exp.requests.iter().rposition(|p| *p == need_page).map(|i| i + 1).unwrap_or(0);
            if !exp.requests.starts_with(&seen_pages) || seen_pages.len() < need_len {
                complaints.push(mk("frames:wrong-paging-state", format!("page requests by page index up to the early drop after {} rows: [{}]; must be a prefix of the full sequence reaching page {need_page}; {requires}", k.unwrap(), describe_pages(&seen_pages))));
            }
            if let Some(mark) = drop_mark {
                // if the mock has already seen every request of the script, nothing the script could still answer is outstanding
                self.pending.push(PendingDrop { case: case.clone(), run, from, mark, open: seen_pages.len() < exp.requests.len() });
            }
        }
        // where retries went (informational; node choice is not part of C07)
        for w in frames.windows(2) {
            let (a, b) = (&w[0], &w[1]);
            if self.page_of(run, a) == self.page_of(run, b) {
                obs.retries += 1;
                if a.node == b.node {
                    obs.same_node_retries += 1;
                } else {
                    obs.node_switches += 1;
                }
            }
        }
        if pause_timeouts > 0 && complaints.is_empty() {
            // rows, end and frames are right but the producer did not run ahead of a consumer that does not poll:
            // the harness assumes a prefetching producer (bounded channel); that is not part of the property
            return Err(format!("harness assumption broken: the producer did not fetch ahead while the consumer paused ({pause_timeouts} pause(s) timed out), yet the property holds on this case"));
        }
        Ok((complaints, obs))
    }


    fn page_of(&self, run: i32, e: &LogEntry) -> Option<u64> {
        e.frame()?;
        let g = self.shared.lock().unwrap();
        let rs = g.runs.get(&run)?;
        rs.resolved.get(&e.seq).copied().flatten().map(|p| p as u64)
    }

    fn is_resolved(&self, run: i32, e: &LogEntry) -> bool {
        self.shared.lock().unwrap().runs.get(&run).map(|rs| rs.resolved.contains_key(&e.seq)).unwrap_or(false)
    }

    /// The page requests of a run with what the mock answered: `n<node>/c<conn> page<p> -> <reply>`.
    pub fn trace_of(&self, run: i32) -> String {
        let log = self.cluster.log();
        let mut v = Vec::new();
        for e in self.frames_of(run, 0) {
            let reply = log
                .iter()
                .skip(e.seq as usize)
                .find_map(|x| match &x.kind {
                    LogKind::Sent { request_seq: Some(s), response, .. } if *s == e.seq => Some(response.response.summary()),
                    _ => None,
                })
                .unwrap_or_else(|| "(no complete reply)".into());
            v.push(format!("#{} n{}/c{} page{} -> {}", e.seq, e.node, e.conn, self.page_of(run, &e).map(|p| p.to_string()).unwrap_or_else(|| "?".into()), reply));
        }
        if std::env::var("C07_DEBUG").is_ok() {
            let fr = self.frames_of(run, 0);
            if let (Some(a), Some(b)) = (fr.first(), fr.last()) {
                for e in log.iter().skip(a.seq as usize).take((b.seq - a.seq) as usize + 4) {
                    v.push(format!("\n    {}", e.describe()));
                }
            }
        }
        v.join("; ")
    }

    pub fn has_pending(&self) -> bool {
        !self.pending.is_empty()
    }
    pub fn has_open_pending(&self) -> bool {
        self.pending.iter().any(|p| p.open)
    }

    /// Judge the early-drop cases run so far: after the drop the mock may see at most one further page (retries of
    /// that page included), and never a page beyond the two the producer can hold without the consumer.
    /// Call after the settle window (`settle().await`).
    pub fn judge_drops(&mut self) -> (Vec<Complaint>, usize) {
        let mut out = Vec::new();
        let pend = std::mem::take(&mut self.pending);
        let n = pend.len();
        for p in pend {
            let exp = expect(&p.case);
            let Consumer::DropAfter(k) = p.case.consumer else { continue };
            let after: BTreeSet<u64> = self.frames_of(p.run, p.mark).iter().filter_map(|e| self.page_of(p.run, e)).collect();
            let all_frames = self.frames_of(p.run, p.from);
            let all: Vec<u64> = all_frames.iter().filter_map(|e| self.page_of(p.run, e)).collect();
            let key = |s: &str| format!("{}:{}", p.case.mode.name(), s);
            let all_us: Vec<usize> = all.iter().map(|x| *x as usize).collect();
            let unknown = all_frames.len() != all.len();
            if unknown || !exp.requests.starts_with(&all_us) {
                out.push(Complaint {
                    key: key("frames:wrong-paging-state"),
                    text: format!("page requests by page index around an early drop after {k} rows: {all:?}{}; must be a prefix of {:?}; frames: {}", if unknown { " plus requests with a paging state the server never returned" } else { "" }, exp.requests, self.trace_of(p.run)),
                    case: p.case.json(),
                });
            }
            if after.len() > 1 {
                out.push(Complaint {
                    key: key("frames:requests-after-drop"),
                    text: format!("after the stream was dropped (having taken {k} rows) the server still saw requests for pages {after:?}; at most one further page request is allowed; all requests by page: {all:?}"),
                    case: p.case.json(),
                });
            }
            let held = exp.page_holding(k) as u64;
            if let Some(m) = all.iter().max() {
                if *m > held + 2 {
                    out.push(Complaint {
                        key: key("frames:prefetch-beyond-channel"),
                        text: format!("the consumer took {k} rows (page {held}) and dropped, yet page {m} was requested; all requests by page: {all:?}"),
                        case: p.case.json(),
                    });
                }
            }
        }
        (out, n)
    }

    pub async fn settle(&self) {
        self.cluster.release_all();
        self.cluster.quiesce(SETTLE).await;
    }

    pub fn unexpected(&self) -> Option<String> {
        self.cluster.unexpected().first().map(|e| e.describe())
    }
}

fn entry_run(e: &LogEntry) -> Option<i32> {
    let f = e.frame()?;
    run_of(f.statement.as_deref(), &f.request.params()?.values)
}
fn fault_names(case: &Case) -> Vec<String> {
    case.faults.iter().map(|(p, f)| format!("{p}:{}", f.name())).collect()
}
fn end_short(e: &End) -> String {
    match e {
        End::Done => "clean end".into(),
        End::Dropped => "dropped".into(),
        End::Error(s) => format!("error in stream: {}", s.split(": ").next().unwrap_or(s)),
        End::StartError(s) => format!("error from the creating call: {}", s.split(": ").next().unwrap_or(s)),
    }
}
fn describe_pages(v: &[usize]) -> String {
    v.iter().map(|p| if *p == usize::MAX { "?".to_string() } else { p.to_string() }).collect::<Vec<_>>().join(",")
}

fn classify_error(e: &str) -> &'static str {
    let l = e.to_ascii_lowercase();
    if l.contains("unprepared") {
        "unprepared"
    } else if l.contains("invalid") {
        "invalid"
    } else if l.contains("overloaded") {
        "overloaded"
    } else if l.contains("unavailable") {
        "unavailable"
    } else if l.contains("timeout") || l.contains("timed out") {
        "read-timeout"
    } else if l.contains("connection") || l.contains("broken") || l.contains("reset") || l.contains("closed") {
        "broken-connection"
    } else {
        "other"
    }
}

#[allow(clippy::too_many_arguments)]
async fn consume(session: Arc<Session>, cluster: MockCluster, shared: Arc<Mutex<Shared>>, prepared: PreparedStatement, case: Case, exp: Expect, run: i32, from: u64, progress: Arc<Progress>) -> Result<(), String> {
    let pager = match case.mode {
        Mode::Unprepared => {
            let mut st = Statement::new(format!("{STMT_PREFIX}{run}"));
            st.set_is_idempotent(case.idempotent);
            session.query_iter(st, ()).await
        }
        Mode::Prepared => {
            let mut p = prepared.clone();
            p.set_is_idempotent(case.idempotent);
            p.set_use_cached_result_metadata(case.cached_metadata);
            session.execute_iter(p, (run,)).await
        }
    };
    let pager = match pager {
        Ok(p) => p,
        Err(e) => {
            progress.update(|s| s.end = Some(End::StartError(format!("{e}: {e:?}"))));
            return Ok(());
        }
    };
    let mut stream = match pager.rows_stream::<Row>() {
        Ok(s) => s,
        Err(e) => return Err(format!("type check of the row type failed: {e}")),
    };
    let boundaries: BTreeSet<usize> = {
        // row counts at which the consumer sits on a page boundary: 0 and the end of every non-empty page but the last row
        let mut b = BTreeSet::new();
        b.insert(0);
        for p in 0..case.split.len() {
            if case.split[p] > 0 {
                b.insert(exp.first_row[p + 1]);
            }
        }
        b
    };
    let mut got = 0usize;
    loop {
        let pause_here = match case.consumer {
            Consumer::PauseAt(c) => c == got,
            Consumer::PauseAll => boundaries.contains(&got),
            _ => false,
        };
        if pause_here {
            // do not poll until the producer has gone as far as it can without us: the page we hold is j, page j+1
            // fits into the channel, page j+2 is fetched and then blocks on the full channel
            let j = exp.page_holding(got);
            let target = (j + 2).min(exp.stop_page);
            let want_attempts = exp.attempts(target);
            let answered = exp.error.map(|(p, _)| p != target).unwrap_or(true);
            progress.update(|s| {
                s.paused = true;
                s.pauses += 1;
            });
            let what = format!("the mock to see {want_attempts} request(s) for page {target} while the consumer does not poll");
            let r = cluster
                .wait_for(&what, PAUSE_DEADLINE, |log| {
                    // requests the mock has resolved to the target page (paging states may repeat: ask the script)
                    let resolved_to_target: HashSet<u64> = match shared.lock().unwrap().runs.get(&run) {
                        Some(rs) => rs.resolved.iter().filter(|(_, p)| **p == Some(target)).map(|(s, _)| *s).collect(),
                        None => HashSet::new(),
                    };
                    let mine: Vec<&Arc<LogEntry>> = log.iter().skip(from as usize).filter(|e| resolved_to_target.contains(&e.seq)).collect();
                    if mine.len() < want_attempts {
                        return None;
                    }
                    if !answered {
                        return Some(());
                    }
                    let last = mine[want_attempts - 1].seq;
                    log.iter().skip(from as usize).any(|e| matches!(&e.kind, LogKind::Sent { request_seq: Some(s), .. } if *s == last)).then_some(())
                })
                .await;
            progress.update(|s| {
                s.paused = false;
                if r.is_err() {
                    // resume polling: rows / end / frames decide; a correct stream whose producer does not run
                    // ahead is reported as a broken harness assumption, not as a violation
                    s.pause_timeouts += 1;
                }
            });
        }
        if let Consumer::DropAfter(k) = case.consumer {
            if got == k {
                drop(stream);
                let mark = cluster.log_len();
                progress.update(|s| {
                    s.drop_mark = Some(mark);
                    s.end = Some(End::Dropped);
                });
                return Ok(());
            }
        }
        match stream.next().await {
            None => {
                progress.update(|s| s.end = Some(End::Done));
                return Ok(());
            }
            Some(Ok(row)) => {
                got += 1;
                progress.update(|s| s.rows.push(row));
                if got > 64 {
                    progress.update(|s| s.end = Some(End::Error("c07: more than 64 rows delivered (runaway)".into())));
                    return Ok(());
                }
            }
            Some(Err(e)) => {
                progress.update(|s| s.end = Some(End::Error(format!("{e}: {e:?}"))));
                return Ok(());
            }
        }
    }
}

// ------------------------------------------------------------------------------------------------
// parallel driver: W worker tasks, each with its own world, pull cases from a shared queue
// ------------------------------------------------------------------------------------------------

pub struct BatchResult {
    pub complaints: Vec<Complaint>,
    pub observed: Vec<(usize, Observed)>,
    pub worlds: usize,
    pub drops_judged: usize,
    pub machinery: Option<String>,
}

/// Run `cases` on `jobs` concurrent workers. Stops handing out cases once `stop_after` complaints exist.
pub async fn run_batch(cases: Arc<Vec<Case>>, jobs: usize, stop_after: usize) -> BatchResult {
    let next = Arc::new(std::sync::atomic::AtomicUsize::new(0));
    let out: Arc<Mutex<BatchResult>> = Arc::new(Mutex::new(BatchResult { complaints: Vec::new(), observed: Vec::new(), worlds: 0, drops_judged: 0, machinery: None }));
    let mut handles = Vec::new();
    for _ in 0..jobs.max(1).min(cases.len().max(1)) {
        let cases = cases.clone();
        let next = next.clone();
        let out = out.clone();
        handles.push(tokio::spawn(async move {
            let mut world: Option<World> = None;
            loop {
                {
                    let g = out.lock().unwrap();
                    // a runaway pager or a hang makes every further case slow: one is enough, stop the leg
                    if g.machinery.is_some() || g.complaints.len() >= stop_after || g.complaints.iter().any(|c| c.key.contains("runaway") || c.key.contains("liveness")) {
                        break;
                    }
                }
                let i = next.fetch_add(1, std::sync::atomic::Ordering::SeqCst);
                if i >= cases.len() {
                    break;
                }
                // a connection reset must not hit a connection that still carries the in-flight request of an earlier,
                // dropped stream of the same world (that producer would see a broken connection and retry)
                if world.as_ref().map(|w| (cases[i].has_reset() && w.had_drop) || w.nodes != cases[i].nodes).unwrap_or(false) {
                    let w = world.take().unwrap();
                    finish_world(w, &out).await;
                }
                if world.is_none() {
                    match World::setup(cases[i].nodes).await {
                        Ok(w) => {
                            out.lock().unwrap().worlds += 1;
                            world = Some(w);
                        }
                        Err(e) => {
                            out.lock().unwrap().machinery.get_or_insert(e);
                            break;
                        }
                    }
                }
                let w = world.as_mut().unwrap();
                let case = &cases[i];
                match w.run_case(case).await {
                    Ok((c, obs)) => {
                        let broken = !c.is_empty();
                        {
                            let mut g = out.lock().unwrap();
                            g.complaints.extend(c);
                            g.observed.push((i, obs));
                        }
                        // a world that saw a reset (its pools are refilling) or a violation is not reused
                        if case.has_reset() || broken || w.cases_run >= 400 {
                            let w = world.take().unwrap();
                            finish_world(w, &out).await;
                        }
                    }
                    Err(e) => {
                        let dump = w.cluster.dump_log();
                        let tail: Vec<&str> = dump.lines().rev().take(30).collect();
                        out.lock().unwrap().machinery.get_or_insert(format!("case {}: {e}\nlog tail (newest first):\n{}", case.json(), tail.join("\n")));
                        break;
                    }
                }
            }
            if let Some(w) = world.take() {
                finish_world(w, &out).await;
            }
        }));
    }
    for h in handles {
        if let Err(e) = h.await {
            out.lock().unwrap().machinery.get_or_insert(format!("worker task: {e}"));
        }
    }
    let mut g = out.lock().unwrap();
    BatchResult { complaints: std::mem::take(&mut g.complaints), observed: std::mem::take(&mut g.observed), worlds: g.worlds, drops_judged: g.drops_judged, machinery: g.machinery.take() }
}

async fn finish_world(mut w: World, out: &Arc<Mutex<BatchResult>>) {
    if w.has_pending() {
        if w.has_open_pending() {
            w.settle().await;
        }
        let (c, n) = w.judge_drops();
        let mut g = out.lock().unwrap();
        g.complaints.extend(c);
        g.drops_judged += n;
    }
    if let Some(u) = w.unexpected() {
        out.lock().unwrap().machinery.get_or_insert(format!("mock saw an unscripted request: {u}"));
    }
    w.teardown().await;
}

/// Counters shared by the legs: per-dimension coverage of a case list.
pub fn dimension_counts(cases: &[Case]) -> BTreeMap<String, u64> {
    let mut m: BTreeMap<String, u64> = BTreeMap::new();
    let mut bump = |k: String| *m.entry(k).or_insert(0) += 1;
    for c in cases {
        bump(format!("cases_mode_{}", c.mode.name()));
        bump(format!("cases_ps_{}", c.ps.name()));
        bump(format!("cases_consumer_{}", c.consumer.kind()));
        bump(format!("cases_rows_{}", c.rows()));
        bump(format!("cases_faults_{}", c.faults.len()));
        bump(format!("cases_nodes_{}", c.nodes));
        if let Some((p, k)) = c.extras {
            bump(format!("cases_page_with_{}_{}", ["", "warnings", "custom_payload", "warnings_and_custom_payload", "warnings_custom_payload_and_tracing_id"][k as usize], if p == 0 { "first_page" } else { "later_page" }));
        }
        match c.shape {
            RowShape::Nulls(_) => bump("cases_rows_with_null_pattern".into()),
            RowShape::Big(n) if n > 65536 => bump("cases_with_page_body_over_64KiB".into()),
            RowShape::Big(_) => bump("cases_with_page_body_over_32KiB".into()),
        }
        if c.cached_metadata {
            bump(if c.metadata_anyway_on.is_some() { "cases_cached_metadata_server_attaches_metadata_anyway".into() } else { "cases_cached_metadata".into() });
        }
        for (_, f) in &c.faults {
            bump(format!("faults_{}", f.name()));
        }
        if c.split.iter().any(|s| *s == 0) {
            bump("cases_with_empty_page".into());
        }
        if c.split.windows(2).any(|w| w[0] == 0 && w[1] == 0) {
            bump("cases_with_two_consecutive_empty_pages".into());
        }
        if c.split.last() == Some(&0) {
            bump("cases_with_empty_last_page".into());
        }
        if c.split.first() == Some(&0) {
            bump("cases_with_empty_first_page".into());
        }
    }
    m
}
