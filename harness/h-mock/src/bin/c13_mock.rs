//! C13 leg "mock" (E-MOCK + E-DFS): a real Session with a SimpleSpeculativeExecutionPolicy (max 0..=2, thorough 3;
//! retry interval 20 ms) and the Default retry policy against 3 mock nodes that park every response to the request
//! under test. vcore::dfs enumerates every order in which the parked responses are released, each with an outcome
//! from {success, definitive error (Invalid), failure that moves the execution to the next plan target (Overloaded
//! for idempotent statements; IsBootstrapping for non-idempotent ones, where Overloaded is final)}, interleaved
//! with "let the next execution start first" - for query_unpaged / execute_unpaged / batch and for the paged
//! iterators query_iter / execute_iter (scripted page = the first, fetched on the caller's task, or the second,
//! fetched by the pager's worker: the pager builds its execution parameters separately from the session APIs).
//!
//! Speculative executions start on the driver's wall-clock timer, so the harness never looks at "what is parked
//! right now": it ACKNOWLEDGES frames one at a time through the explicit step "wait for the next frame" (a
//! condition with a 20 s deadline), which is enabled exactly while the reference count says another frame must
//! still come: frames(total) = min(3 plan targets, 1 + max (idempotent only) + failures released that move on).
//! Choice sets therefore depend on the choices made so far only. Expected-ABSENT frames (a second execution of a
//! non-idempotent request; one more than 1 + max) are looked for during a settle window of 30 (15) retry intervals
//! at the first point where the count says nothing more may come while something is outstanding; a frame that
//! shows up later is still caught by the log oracle at the end.
//!
//! Oracle over the mock's log (holds under every client schedule):
//!  * NOT idempotent: never two frames outstanding (received, response not yet handed to a socket) at once,
//!    whatever the policy; one frame per plan target;
//!  * idempotent: at most 1 + max outstanding at once; no two frames of the request on the same node; frames in
//!    total = the reference count, never more;
//!  * the caller gets the FIRST released success (rows / coordinator name the node that was released) or definitive
//!    error; if every execution failed ignorably and the plan is used up, the last such error; nothing earlier;
//!  * the call always returns (20 s where correct code needs milliseconds).
use h_mock::retryleg::*;
use mockcluster::{Action, LogKind, MockCluster};
use scylla::client::execution_profile::ExecutionProfile;
use scylla::client::session::Session;
use scylla::client::session_builder::SessionBuilder;
use scylla::policies::retry::{DefaultRetryPolicy, FallthroughRetryPolicy};
use scylla::policies::speculative_execution::SimpleSpeculativeExecutionPolicy;
use serde_json::json;
use std::collections::BTreeSet;
use std::sync::Arc;
use std::sync::Mutex;
use std::sync::atomic::Ordering;
use std::time::Duration;
use vcore::Report;
use vcore::dfs::{Chooser, DfsOpts};

const CASE_ID: i32 = 7;
const INTERVAL: Duration = Duration::from_millis(20);

#[derive(Clone, Copy, Debug, PartialEq, Eq)]
enum Outcome {
    Success,
    Definitive,
    /// Overloaded: the Default retry policy moves an idempotent request to the next target and stops a non-idempotent one
    Overloaded,
    /// IsBootstrapping: next target whatever the idempotence (the attempt was certainly not applied)
    Bootstrapping,
}
impl Outcome {
    fn name(self) -> &'static str {
        match self {
            Outcome::Success => "success",
            Outcome::Definitive => "invalid",
            Outcome::Overloaded => "overloaded",
            Outcome::Bootstrapping => "bootstrapping",
        }
    }
    fn driver_name(self) -> &'static str {
        match self {
            Outcome::Success => "-",
            Outcome::Definitive => "Invalid",
            Outcome::Overloaded => "Overloaded",
            Outcome::Bootstrapping => "IsBootstrapping",
        }
    }
}

struct Params {
    /// the phase: non-idempotent statements are explored first (their tree is small and carries the main clause)
    idempotent: bool,
    max_counts: Vec<usize>,
    variants: Vec<(Api, usize)>,
    settle_non: Duration,
    settle_idem: Duration,
}

#[derive(Default, Clone)]
struct Stats {
    executions: u64,
    steps: u64,
    overlapping_runs: u64,
    max_outstanding_idem: u64,
    max_outstanding_non: u64,
    settles: u64,
    signatures: BTreeSet<String>,
    per_variant: std::collections::BTreeMap<String, u64>,
    results: std::collections::BTreeMap<String, u64>,
    nontrivial: u64,
}

struct World {
    cluster: MockCluster,
    session: Arc<Session>,
    stmts: Arc<Stmts>,
}

fn violation(key: &str, text: String) -> String {
    format!("{key} :: {text}")
}

fn is_test_action(a: &Action, page: usize) -> bool {
    a.request().and_then(ident).map(|(id, p, _)| id == CASE_ID && p == page).unwrap_or(false)
}

async fn build_world(max: usize, fallthrough: bool) -> Result<World, String> {
    let cluster = build_cluster().await?;
    let profile = ExecutionProfile::builder()
        .request_timeout(None)
        .retry_policy(if fallthrough { Arc::new(FallthroughRetryPolicy::new()) } else { Arc::new(DefaultRetryPolicy::new()) })
        .speculative_execution_policy(Some(Arc::new(SimpleSpeculativeExecutionPolicy { max_retry_count: max, retry_interval: INTERVAL })))
        .build();
    let sb = SessionBuilder::new().known_node(cluster.contact_point(0)).default_execution_profile_handle(profile.into_handle());
    let session = match tokio::time::timeout(LIVENESS, sb.build()).await {
        Ok(Ok(s)) => s,
        Ok(Err(e)) => return Err(format!("session did not come up: {e}")),
        Err(_) => return Err("session did not come up within the liveness deadline".into()),
    };
    wait_all_connected(&session).await?;
    let stmts = prepare_all(&session).await?;
    Ok(World { cluster, session: Arc::new(session), stmts: Arc::new(stmts) })
}

/// Ok(()) = the execution met the oracle; Err(text) = "key :: description".
async fn run(p: &Params, ch: &mut Chooser, stats: &Mutex<Stats>, verbose: bool) -> Result<(), String> {
    let idempotent = p.idempotent;
    let max = p.max_counts[ch.choose_free("max", p.max_counts.len())];
    let fallthrough = ch.choose_free("retry-policy", 2) == 1;
    let (api, page) = p.variants[ch.choose_free("api", p.variants.len())];
    // Default retry policy: Overloaded moves an idempotent request to the next plan target inside the same execution
    // and ends a non-idempotent one; IsBootstrapping moves on either way. Fallthrough: every failure ends its
    // execution; for an idempotent request Overloaded is then an IGNORABLE result of that execution - the call must
    // keep waiting for the other executions and for those the timer may still start.
    let outcomes: &[Outcome] = if idempotent || fallthrough { &[Outcome::Success, Outcome::Definitive, Outcome::Overloaded] } else { &[Outcome::Success, Outcome::Definitive, Outcome::Overloaded, Outcome::Bootstrapping] };
    let takes_next_target = |o: Outcome| !fallthrough && if idempotent { o == Outcome::Overloaded } else { o == Outcome::Bootstrapping };
    let moves_on = |o: Outcome| takes_next_target(o) || (fallthrough && idempotent && o == Outcome::Overloaded);
    let executions_allowed = if idempotent { 1 + max } else { 1 };
    let cfg_text = format!("{} page {page}, idempotent={idempotent}, speculative max {max}, retry policy {}", api.name(), if fallthrough { "fallthrough" } else { "default" });

    let w = build_world(max, fallthrough).await.unwrap_or_else(|e| vcore::machinery_error(&e));
    let cluster = w.cluster.clone();
    cluster.hold(move |a| is_test_action(a, page));
    let call_cfg = CallCfg { api, id: CASE_ID, idempotent, consistency: None, profile: None, retry_policy: None };
    let (s2, st2) = (w.session.clone(), w.stmts.clone());
    let mut handle = tokio::spawn(async move { call(&s2, &st2, &call_cfg).await });

    let mut acked: Vec<Action> = Vec::new();
    let mut released: Vec<Option<Outcome>> = Vec::new();
    let mut moved_on = 0usize;
    let mut settled = false;
    let mut trace: Vec<String> = Vec::new();
    let mut terminal: Option<(usize, Outcome)> = None;
    let mut last_released: Option<Outcome> = None;
    let mut steps = 0u64;
    let mut verdict: Result<(), String> = Ok(());
    let mut forbidden_seen = false;

    'run: loop {
        let expected_total = N_NODES.min(executions_allowed + moved_on);
        let outstanding: Vec<usize> = (0..acked.len()).filter(|i| released[*i].is_none()).collect();
        // expected-ABSENT: nothing more may start now - look for it once
        if !settled && !outstanding.is_empty() && acked.len() == expected_total && acked.len() < N_NODES {
            settled = true;
            let window = if idempotent { p.settle_idem } else { p.settle_non };
            let seen: BTreeSet<u64> = acked.iter().map(|a| a.id).collect();
            if let Ok(extra) = cluster.wait_held_for("an execution that must not start", window, |a| is_test_action(a, page) && !seen.contains(&a.id)).await {
                trace.push(format!("UNEXPECTED frame on node {} while {} outstanding", extra.node, outstanding.len()));
                forbidden_seen = true;
                break 'run; // the log oracle below names it
            }
            trace.push(format!("settled {}ms: no further execution", window.as_millis()));
            stats.lock().unwrap().settles += 1;
        }
        let can_wait = acked.len() < expected_total;
        let n_alt = usize::from(can_wait) + outstanding.len() * outcomes.len();
        if n_alt == 0 {
            break 'run; // every execution failed and moved on until the plan was used up: the call returns the last error
        }
        if handle.is_finished() {
            verdict = Err(violation("c13-mock:returned-before-any-answer", format!("{cfg_text}: the call returned although no success or definitive error was released and executions were still outstanding or startable; steps {trace:?}")));
            break 'run;
        }
        // alternative order: releases of the oldest outstanding frame first (success first), waiting last
        let c = ch.choose_free("step", n_alt);
        steps += 1;
        if c == outstanding.len() * outcomes.len() {
            let seen: BTreeSet<u64> = acked.iter().map(|a| a.id).collect();
            let arrived = tokio::select! {
                biased;
                a = cluster.wait_held("the next execution's frame", |a| is_test_action(a, page) && !seen.contains(&a.id)) => a,
                _ = &mut handle => {
                    verdict = Err(violation("c13-mock:returned-before-any-answer", format!("{cfg_text}: the call returned although no success or definitive error was released and another execution could still be started; steps {trace:?}")));
                    break 'run;
                }
            };
            match arrived {
                Ok(a) => {
                    trace.push(format!("frame {} arrived on node {}", acked.len(), a.node));
                    acked.push(a);
                    released.push(None);
                }
                Err(e) => {
                    verdict = Err(violation(
                        "c13-mock:expected-execution-never-started",
                        format!("{cfg_text}: after {trace:?} the reference count says frame {} of {expected_total} must still come (1 + max executions, each failure that moves on takes the next plan target), it did not within 20 s: {e}", acked.len() + 1),
                    ));
                    break 'run;
                }
            }
            continue;
        }
        let (i, o) = (outstanding[c / outcomes.len()], outcomes[c % outcomes.len()]);
        let a = acked[i].clone();
        let seq = a.request_entry().map(|e| e.seq).unwrap_or(0);
        let ok = match o {
            Outcome::Success => cluster.release(a.id),
            Outcome::Definitive => cluster.release_with(a.id, sym("invalid").unwrap().reply(0)),
            Outcome::Overloaded => cluster.release_with(a.id, sym("overloaded").unwrap().reply(0)),
            Outcome::Bootstrapping => cluster.release_with(a.id, sym("bootstrapping").unwrap().reply(0)),
        };
        if !ok {
            vcore::machinery_error("a parked response could not be released");
        }
        if let Err(e) = cluster.wait_entry("released response handed to the socket", seq, |e| matches!(&e.kind, LogKind::Sent { request_seq: Some(r), .. } if *r == seq)).await {
            vcore::machinery_error(&e);
        }
        released[i] = Some(o);
        last_released = Some(o);
        trace.push(format!("release frame {i} (node {}) with {}", a.node, o.name()));
        if moves_on(o) {
            if takes_next_target(o) {
                moved_on += 1;
            }
        } else {
            terminal = Some((i, o));
            break 'run;
        }
    }

    // ---- the call returns
    let out = if verdict.is_ok() && !forbidden_seen {
        match tokio::time::timeout(LIVENESS, &mut handle).await {
            Ok(Ok(o)) => Some(o),
            Ok(Err(e)) => {
                verdict = Err(violation("c13-mock:call-panicked", format!("{cfg_text}: {e}; steps {trace:?}")));
                None
            }
            Err(_) => {
                verdict = Err(violation("c13-mock:call-never-returned", format!("{cfg_text}: the call did not return within {LIVENESS:?} after {trace:?} (terminal answer: {terminal:?})")));
                None
            }
        }
    } else {
        None
    };
    handle.abort();

    // ---- log oracle
    let log = cluster.log();
    let frames = attempts_of(&log, CASE_ID).into_iter().filter(|a| a.page == page).collect::<Vec<_>>();
    let mut outstanding: Vec<(u64, usize)> = Vec::new();
    let mut max_out = 0usize;
    let mut max_nodes = 0usize;
    let mut overlap_text = String::new();
    for e in &log {
        match &e.kind {
            LogKind::Frame(_) if frames.iter().any(|f| f.seq == e.seq) => {
                outstanding.push((e.seq, e.node));
                let nodes: BTreeSet<usize> = outstanding.iter().map(|x| x.1).collect();
                if outstanding.len() > max_out {
                    max_out = outstanding.len();
                    overlap_text = format!("frames {:?} (log seq, node) outstanding together", outstanding);
                }
                max_nodes = max_nodes.max(nodes.len());
            }
            LogKind::Sent { request_seq: Some(r), .. } => outstanding.retain(|x| x.0 != *r),
            _ => {}
        }
    }
    let wire = json!(frames.iter().map(|f| json!({"node": f.node, "seq": f.seq})).collect::<Vec<_>>());
    let mut first_err: Option<String> = verdict.clone().err();
    let mut complain = |k: &str, t: String| {
        if first_err.is_none() || k.contains("nonidempotent") {
            first_err = Some(violation(k, t));
        }
    };
    if !idempotent && max_out > 1 {
        let key = if max_nodes > 1 { "c13-mock:nonidempotent-in-flight-on-two-nodes" } else { "c13-mock:nonidempotent-in-flight-twice-on-one-node" };
        complain(key, format!("{cfg_text}: a statement NOT marked idempotent had {overlap_text}; steps {trace:?}; wire {wire}"));
    }
    if idempotent && max_out > 1 + max {
        complain("c13-mock:more-executions-than-1-plus-max", format!("{cfg_text}: {overlap_text}; steps {trace:?}; wire {wire}"));
    }
    let nodes: BTreeSet<usize> = frames.iter().map(|f| f.node).collect();
    if nodes.len() != frames.len() {
        complain("c13-mock:two-executions-on-one-plan-target", format!("{cfg_text}: {} frames on {} nodes; steps {trace:?}; wire {wire}", frames.len(), nodes.len()));
    }
    let expected_total = N_NODES.min(executions_allowed + moved_on);
    if frames.len() > expected_total {
        complain("c13-mock:more-frames-than-executions-allowed", format!("{cfg_text}: {} frames, at most {expected_total} = min(plan 3, {executions_allowed} executions + {moved_on} failures that moved on); steps {trace:?}; wire {wire}", frames.len()));
    }
    // ---- result
    let mut result_sig = String::from("-");
    if let Some(out) = &out {
        result_sig = match &out.err {
            None => "ok".to_string(),
            Some(e) => format!("err:{}", e.split(':').next().unwrap_or("")),
        };
        match terminal {
            Some((i, Outcome::Success)) => {
                let node = acked[i].node;
                if let Some(e) = &out.err {
                    complain("c13-mock:error-although-success-was-released-first", format!("{cfg_text}: frame {i} (node {node}) was answered with success first, the caller got {e}; steps {trace:?}"));
                } else {
                    let named: Option<usize> = if api == Api::Batch {
                        out.coordinator.and_then(|h| cluster.node_of_host_id(h))
                    } else {
                        out.rows.iter().find(|(_, t)| t.ends_with(&format!("/page{page}"))).and_then(|(_, t)| t.strip_prefix("node")?.split('/').next()?.parse().ok())
                    };
                    let want_rows = if api == Api::Batch { 0 } else { 2 };
                    if named != Some(node) || out.rows.len() != want_rows {
                        complain("c13-mock:caller-got-another-executions-answer", format!("{cfg_text}: the first released answer was the success of node {node}; the caller holds rows {:?} / coordinator node {named:?}; steps {trace:?}", out.rows));
                    }
                }
            }
            Some((i, o)) => {
                if out.err.as_deref() != Some(o.driver_name()) {
                    complain("c13-mock:first-definitive-answer-not-returned", format!("{cfg_text}: frame {i} was answered with {} first (final for this statement); the caller got err={:?} rows={:?}; steps {trace:?}", o.name(), out.err, out.rows));
                }
            }
            None => {
                let want = last_released.map(|o| o.driver_name());
                if out.err.as_deref() != want {
                    complain("c13-mock:last-error-not-returned", format!("{cfg_text}: every execution failed ignorably and none may still be started; last released error {want:?}; the caller got err={:?} rows={:?}; steps {trace:?}", out.err, out.rows));
                }
            }
        }
    }
    if verbose {
        println!("config: {cfg_text}\nsteps: {trace:#?}\nwire: {wire}\nmax outstanding {max_out} on {max_nodes} nodes\nresult: {out:?}");
    }
    {
        let mut s = stats.lock().unwrap();
        s.executions += 1;
        s.steps += steps;
        if max_nodes > 1 {
            s.overlapping_runs += 1;
        }
        if idempotent {
            s.max_outstanding_idem = s.max_outstanding_idem.max(max_out as u64);
        } else {
            s.max_outstanding_non = s.max_outstanding_non.max(max_out as u64);
        }
        if frames.len() > 1 {
            s.nontrivial += 1;
        }
        *s.per_variant.entry(format!("{}_page{page}_{}", api.name(), if idempotent { "idempotent" } else { "nonidempotent" })).or_default() += 1;
        *s.results.entry(result_sig.clone()).or_default() += 1;
        s.signatures.insert(format!("{idempotent}|{fallthrough}|{max}|{}|{max_out}|{result_sig}", frames.len()));
    }
    w.cluster.shutdown().await;
    drop(w);
    match first_err {
        Some(e) => Err(e),
        None => Ok(()),
    }
}

fn run_blocking(p: &Params, ch: &mut Chooser, stats: &Mutex<Stats>, verbose: bool) -> Result<(), String> {
    let rt = runtime(2);
    let r = rt.block_on(run(p, ch, stats, verbose));
    rt.shutdown_timeout(Duration::from_millis(200));
    r
}

fn main() {
    let r = Report::new("C13", "mock", "model_checking", "E-MOCK");
    std::panic::set_hook(Box::new(|_| {}));
    let thorough = r.tier().is_thorough();
    let params = |idempotent: bool| Params {
        idempotent,
        max_counts: if thorough { vec![0, 1, 2, 3] } else { vec![0, 1, 2] },
        variants: vec![(Api::QuerySel, 0), (Api::ExecSel, 0), (Api::Batch, 0), (Api::QueryIter, 0), (Api::ExecIter, 0), (Api::QueryIter, 1), (Api::ExecIter, 1)],
        settle_non: INTERVAL * 30,
        settle_idem: INTERVAL * if thorough { 30 } else { 15 },
    };
    let stats: Mutex<Stats> = Default::default();
    if let Some(case) = r.replay_case() {
        let choices: Vec<usize> = case["choices"].as_array().map(|a| a.iter().map(|x| x.as_u64().unwrap_or(0) as usize).collect()).unwrap_or_default();
        let p = params(case["idempotent"].as_bool().unwrap_or(false));
        // a replay file written by one tier is replayed with that tier's parameter lists
        let (res, ch) = vcore::dfs::replay_one(&choices, |ch| run_blocking(&p, ch, &stats, true));
        if let Some(d) = ch.diverged {
            vcore::machinery_error(&d);
        }
        if let Err(e) = res {
            let (k, t) = e.split_once(" :: ").unwrap_or(("c13-mock:unkeyed", &e));
            r.violation(k, t, case.clone());
        }
        r.finish_replay();
    }
    let t0 = std::time::Instant::now();
    let budget = Duration::from_secs(r.tier().pick(120, 900));
    let mut executions = 0u64;
    let mut max_points = 0usize;
    let mut capped: Option<String> = None;
    let mut found = false;
    for idempotent in [false, true] {
        let p = params(idempotent);
        let opts = DfsOpts { bound: 0, max_executions: 2_000_000, wall: budget.saturating_sub(t0.elapsed()), jobs: r.args.jobs.clamp(1, 16), stop_at_first: true };
        let res = vcore::dfs::explore(&opts, |ch| run_blocking(&p, ch, &stats, false));
        if !res.divergences.is_empty() {
            vcore::machinery_error(&format!("replay divergence: {}", res.divergences[0]));
        }
        executions += res.executions;
        max_points = max_points.max(res.max_points);
        for v in &res.violations {
            let (k, t) = v.what.split_once(" :: ").unwrap_or(("c13-mock:unkeyed", &v.what));
            r.violation(k, &format!("{t} [choices {:?}]", v.choices), json!({"idempotent": idempotent, "choices": v.choices, "labels": v.labels}));
            found = true;
        }
        if res.capped.is_some() {
            capped = res.capped.clone();
        }
        if found || capped.is_some() {
            break;
        }
    }
    let s = stats.into_inner().unwrap();
    r.eval(s.executions);
    r.nontrivial(s.nontrivial);
    r.transitions.fetch_add(s.steps, Ordering::Relaxed);
    r.states.store(s.signatures.len() as u64, Ordering::Relaxed);
    r.counters.add("executions", executions);
    r.counters.add("max_choice_points", max_points as u64);
    r.counters.add("runs_with_frames_outstanding_on_two_or_more_nodes", s.overlapping_runs);
    r.counters.add("max_outstanding_idempotent", s.max_outstanding_idem);
    r.counters.add("max_outstanding_nonidempotent", s.max_outstanding_non);
    r.counters.add("settle_windows_without_a_forbidden_execution", s.settles);
    r.counters.add("distinct_signatures", s.signatures.len() as u64);
    for (k, v) in &s.per_variant {
        r.counters.add(&format!("runs_{k}"), *v);
    }
    for (k, v) in &s.results {
        r.counters.add(&format!("result_{k}"), *v);
    }
    if let Some(c) = &capped {
        r.note("capped", json!(c));
    }
    r.note("retry_interval_ms", json!(INTERVAL.as_millis() as u64));
    let p = params(true);
    r.note("settle_ms", json!({"nonidempotent": p.settle_non.as_millis() as u64, "idempotent": p.settle_idem.as_millis() as u64}));
    r.note("speculative_max_counts", json!(p.max_counts));
    r.note("api_variants", json!(p.variants.iter().map(|(a, pg)| format!("{} page {pg}", a.name())).collect::<Vec<_>>()));
    r.set_exhaustive(capped.is_none() && !found);
    r.set_rule("executions in which the request under test put more than one frame on the wire (a later execution or a move to the next plan target)");
    r.assume("client-internal scheduling and the driver's speculative timer run on the real clock (engine E-MOCK): release orders, outcomes and 'next frame first' are enumerated; how a release races the timer is whatever happens, the oracle holds for both orders");
    r.assume("expected-absent executions are looked for during one settle window per run (30 / 15 retry intervals) and in the log at the end of the run");
    r.assume("retry policy Default or Fallthrough; plan = 3 nodes with one pooled connection each; outcomes: success, Invalid, Overloaded, IsBootstrapping (non-idempotent with Default only)");
    if r.violation_count() == 0 && (s.max_outstanding_idem < 2 || s.max_outstanding_non != 1 || s.settles == 0) {
        vcore::machinery_error(&format!("vacuous: max outstanding idempotent {} / non-idempotent {} / settle windows {}", s.max_outstanding_idem, s.max_outstanding_non, s.settles));
    }
    r.finish();
}
