//! C14 - prepared statements survive server-side eviction transparently and faithfully.
//! E-BFS over HISTORIES: a state is the event history that reaches it; every replay builds a fresh stateful
//! mock cluster + a real `Session` and re-checks the oracle after every event (h_mock::c14_model).
//! One BFS per configuration {metadata-id extension} x {use_cached_result_metadata} x {1, 2 nodes} x
//! {PREPARED carries result columns / does not ("late")}.
//!
//!   c14 --tier quick|thorough [--depth N] [--only "ext=1 cached=0 nodes=1 late=0"] [--jobs N]
//!   c14 --replay <file>       re-runs exactly one history and prints the wire trace

use h_mock::c14_model::{Cfg, Ev, SetupFail, Viol, World};
use serde_json::json;
use std::sync::atomic::Ordering;
use std::time::{Duration, Instant};
use vcore::Report;
use vcore::bfs::{BfsOpts, Model, bfs};

struct M<'a> {
    cfg: Cfg,
    max_version: u8,
    r: &'a Report,
}

fn encode(v: Viol) -> String {
    format!("{}|{}", v.key, v.text)
}

/// A world, or the reason why the DRIVER failed while it was set up (then every history, the empty one first, violates).
struct Slot {
    w: Option<World>,
    broken: Option<Viol>,
}

impl Model for M<'_> {
    type Event = Ev;
    type Obj = Slot;
    fn init(&self) -> Slot {
        self.r.traces_validated.fetch_add(1, Ordering::Relaxed);
        match World::new(self.cfg) {
            Ok(w) => Slot { w: Some(w), broken: None },
            Err(SetupFail::Violation(v)) => Slot { w: None, broken: Some(v) },
            Err(SetupFail::Machinery(e)) => vcore::machinery_error(&format!("C14 world did not come up ({}): {e}", self.cfg.name())),
        }
    }
    fn enabled(&self, s: &Slot) -> Vec<Ev> {
        s.w.as_ref().map(|w| w.enabled(self.max_version)).unwrap_or_default()
    }
    fn apply(&self, s: &mut Slot, ev: &Ev) -> Result<(), String> {
        let Some(w) = s.w.as_mut() else {
            return Err(encode(s.broken.clone().unwrap()));
        };
        let res = w.apply(*ev).map_err(encode);
        self.r.eval(1);
        for b in w.branches.drain(..) {
            self.r.counters.add(&format!("branch {b}"), 1);
        }
        for (key, text) in w.findings.drain(..) {
            let hist: Vec<String> = w.applied.iter().map(|e| e.to_text()).collect();
            self.r.violation(&key, &format!("[{}] history {:?}: {}", self.cfg.name(), hist, text), case_json(&self.cfg, &w.applied));
        }
        res
    }
    fn check(&self, s: &Slot) -> Result<(), String> {
        match &s.broken {
            Some(v) => {
                self.r.eval(1);
                Err(encode(v.clone()))
            }
            None => Ok(()),
        }
    }
    fn canon(&self, s: &Slot) -> Vec<u8> {
        s.w.as_ref().map(|w| w.canon()).unwrap_or_else(|| b"broken".to_vec())
    }
}

fn case_json(cfg: &Cfg, hist: &[Ev]) -> serde_json::Value {
    json!({"cfg": cfg.to_json(), "events": hist.iter().map(|e| e.to_text()).collect::<Vec<_>>()})
}

fn replay(r: &Report, case: &serde_json::Value) {
    let cfg = Cfg::from_json(&case["cfg"]);
    let events: Vec<Ev> = case["events"]
        .as_array()
        .map(|a| a.iter().map(|e| Ev::parse(e.as_str().unwrap_or("")).unwrap_or_else(|| vcore::machinery_error(&format!("bad event {e}")))).collect())
        .unwrap_or_default();
    println!("config: {}", cfg.name());
    let mut w = match World::new(cfg) {
        Ok(w) => w,
        Err(SetupFail::Violation(v)) => {
            println!("set-up: [{}] {}", v.key, v.text);
            r.violation(&v.key, &v.text, case.clone());
            return;
        }
        Err(SetupFail::Machinery(e)) => vcore::machinery_error(&e),
    };
    w.verbose = true;
    let mut bad = None;
    for (i, ev) in events.iter().enumerate() {
        if let Err(v) = w.apply(*ev) {
            bad = Some((i, v));
            break;
        }
    }
    w.print_story();
    for (key, text) in w.findings.drain(..) {
        println!("finding: [{key}] {text}");
        r.violation(&key, &text, case.clone());
    }
    if let Some((i, v)) = bad {
        println!("oracle after event {} ({}): [{}] {}", i + 1, events[i].to_text(), v.key, v.text);
        r.violation(&v.key, &v.text, case.clone());
    }
}

fn main() {
    let r = Report::new("C14", "histories", "model_checking", "E-BFS");
    vcore::quiet_panics();
    if let Some(case) = r.replay_case() {
        replay(&r, &case);
        r.finish_replay();
    }
    let thorough = r.tier().is_thorough();
    let only = r.args.extra_value("--only").map(|s| s.to_string());
    let depth_override: Option<usize> = r.args.extra_value("--depth").and_then(|s| s.parse().ok());
    let jobs = r.args.jobs.min(16);

    // (cfg, depth). Quick: depth 4 on one node, depth 3 on two nodes (core alphabet there); with the extension the driver
    // ignores use_cached_result_metadata, so that duplicate configuration runs one level shallower in the quick tier.
    // Thorough: depth 6 / full alphabet on one node, depth 5 on two nodes.
    let mut runs: Vec<(Cfg, usize)> = Vec::new();
    for late in [false, true] {
        for ext in [true, false] {
            for cached in [false, true] {
                for nodes in [1usize, 2] {
                    let (mut depth, alpha) = if thorough { (if nodes == 1 { 6 } else { 5 }, if nodes == 1 { 2 } else { 1 }) } else if nodes == 1 { (4, 1) } else { (3, 0) };
                    if !thorough && ((ext && cached) || (!ext && late && nodes == 1)) {
                        depth -= 1;
                    }
                    if !thorough && ext && late && nodes == 1 {
                        // the largest quick space (2840 transitions at depth 4); depth 4 is covered by the thorough tier
                        depth -= 1;
                    }
                    // the entry-point alphabet on two nodes: one configuration at depth 4 (it triples the 2-node spaces)
                    let entry = thorough && (nodes == 1 || (ext && !cached && !late));
                    if thorough && nodes == 2 && entry {
                        depth = 4;
                    }
                    runs.push((Cfg { ext, cached, nodes, late, alpha, mixed: false, ts: 0, entry, same_id: false }, depth));
                }
            }
        }
    }
    // timestamps: {session generator} x {explicit timestamp on the statement}; the all-off combination is every run above
    for ts in [3u8, 1, 2] {
        runs.push((Cfg { ext: true, cached: false, nodes: 1, late: false, alpha: if thorough { 2 } else { 1 }, mixed: false, ts, entry: thorough, same_id: false }, if thorough { 5 } else { 2 }));
    }
    // other entry points / lifecycles (quick: two dedicated shallow runs; thorough: part of every run)
    if !thorough {
        runs.push((Cfg { ext: true, cached: false, nodes: 1, late: false, alpha: 1, mixed: false, ts: 0, entry: true, same_id: false }, 3));
        runs.push((Cfg { ext: false, cached: true, nodes: 1, late: false, alpha: 1, mixed: false, ts: 0, entry: true, same_id: false }, 3));
    }
    // column-less PREPARED whose REAL id is later re-announced, with the columns, under the SAME id (LIST ROLES OF on ScyllaDB)
    runs.push((Cfg { ext: true, cached: false, nodes: 1, late: true, alpha: if thorough { 2 } else { 1 }, mixed: false, ts: 0, entry: thorough, same_id: true }, if thorough { 6 } else { 3 }));
    runs.push((Cfg { ext: true, cached: true, nodes: 2, late: true, alpha: if thorough { 1 } else { 0 }, mixed: false, ts: 0, entry: false, same_id: true }, if thorough { 4 } else { 2 }));
    // mixed cluster: node 0 with the metadata-id extension, node 1 without; the statement's metadata is shared by both
    for cached in [true, false] {
        runs.push((Cfg { ext: false, cached, nodes: 2, late: false, alpha: if thorough { 1 } else { 0 }, mixed: true, ts: if cached { 0 } else { 3 }, entry: false, same_id: false }, if thorough { 5 } else { 3 }));
    }
    // cheap configurations first, so that a wall cap (reported, never silent) can only cut the tail
    runs.sort_by_key(|(c, _)| c.nodes);
    if let Some(o) = &only {
        runs.retain(|(c, _)| c.name().starts_with(o.as_str()));
    }
    let t0 = Instant::now();
    let wall_cap = Duration::from_secs(r.args.extra_value("--wall").and_then(|s| s.parse().ok()).unwrap_or(if thorough { 900 } else { 50 }));
    let mut per_cfg = Vec::new();
    let mut all_complete = true;
    for (cfg, depth) in runs {
        let depth = depth_override.unwrap_or(depth);
        let m = M { cfg, max_version: depth as u8, r: &r };
        let left = wall_cap.saturating_sub(t0.elapsed());
        let opts = BfsOpts { max_depth: depth, max_states: 2_000_000, wall: left, jobs, max_violations: 4 };
        let t = Instant::now();
        let res = bfs(&m, &opts);
        r.states.fetch_add(res.states, Ordering::Relaxed);
        r.transitions.fetch_add(res.transitions, Ordering::Relaxed);
        let depth_done = res.capped.as_deref().map(|c| c.starts_with("depth cap")).unwrap_or(res.fixpoint);
        if !depth_done {
            all_complete = false;
        }
        println!(
            "cfg {:<40} depth {} states {:>6} transitions {:>7} per-depth {:?} {} wall {:.1}s",
            cfg.name(),
            depth,
            res.states,
            res.transitions,
            res.states_per_depth,
            res.capped.clone().unwrap_or_else(|| if res.fixpoint { "fixpoint".into() } else { "stopped".into() }),
            t.elapsed().as_secs_f64()
        );
        per_cfg.push(json!({"cfg": cfg.name(), "depth": depth, "states": res.states, "transitions": res.transitions, "states_per_depth": res.states_per_depth, "ended": res.capped.clone().unwrap_or_else(|| if res.fixpoint { "fixpoint".into() } else { "violation".into() })}));
        for h in res.sample_histories.iter().take(1) {
            r.sample(case_json(&cfg, h));
        }
        for v in &res.violations {
            // a set-up violation (driver failed although the mock answered) can also surface while a prefix is rebuilt
            let what = match v.what.strip_prefix("REPLAY-DIVERGENCE: ") {
                Some(rest) if rest.starts_with("setup:") => rest.to_string(),
                _ => v.what.clone(),
            };
            let v = &vcore::bfs::BfsViolation { history: v.history.clone(), what };
            let (key, text) = match v.what.split_once('|') {
                Some((k, t)) if !v.what.starts_with("REPLAY-DIVERGENCE") => (k.to_string(), t.to_string()),
                _ => {
                    // an accepted history failed when replayed: the harness or the driver is not deterministic
                    // at the granularity the oracle looks at. Never a verdict.
                    eprintln!("replay divergence in {} after {:?}: {}", cfg.name(), v.history.iter().map(|e| e.to_text()).collect::<Vec<_>>(), v.what);
                    vcore::machinery_error(&format!("replay divergence: {}", v.what));
                }
            };
            let hist: Vec<String> = v.history.iter().map(|e| e.to_text()).collect();
            r.violation(&key, &format!("[{}] history {:?}: {}", cfg.name(), hist, text), case_json(&cfg, &v.history));
        }
    }
    // E-BFS audit (thorough): the same space explored with 3 and with all worker threads must give identical counts
    if thorough && only.is_none() {
        let cfg = Cfg { ext: true, cached: false, nodes: 1, late: true, alpha: 2, mixed: false, ts: 0, entry: true, same_id: false };
        let m = M { cfg, max_version: 4, r: &r };
        let a = bfs(&m, &BfsOpts { max_depth: 4, max_states: 2_000_000, wall: Duration::from_secs(600), jobs: 3, max_violations: 1 });
        let b = bfs(&m, &BfsOpts { max_depth: 4, max_states: 2_000_000, wall: Duration::from_secs(600), jobs, max_violations: 1 });
        if (a.states, a.transitions, &a.states_per_depth) != (b.states, b.transitions, &b.states_per_depth) {
            vcore::machinery_error(&format!("E-BFS audit: counts differ between 3 and {jobs} threads: {:?} vs {:?}", a.states_per_depth, b.states_per_depth));
        }
        r.note("thread_count_audit", json!({"cfg": cfg.name(), "depth": 4, "jobs": [3, jobs], "states": a.states, "transitions": a.transitions}));
    }
    r.nontrivial(r.counters.get("branch unprepared") + r.counters.get("branch batch:unprepared"));
    r.set_rule("event executions in which the node answered UNPREPARED and the driver had to re-prepare (select + batch), counted over all replays; `branch *` counters show how often each oracle branch was taken");
    r.set_exhaustive(all_complete);
    r.note("per_config", json!(per_cfg));
    r.note("jobs", json!(jobs));
    r.assume("E-MOCK limit: client-internal task scheduling is whatever the OS produces; oracles are written to hold under every client schedule; server-side orders (which answer is parked, which is released first) are enumerated");
    r.assume("dedup key = per-node (cache, schema version, poison flag) + per-handle (announced column metadata, columns shown by PreparedStatement::get_current_result_set_col_specs); the metadata id itself has no public getter, it is tied to the columns it was announced with");
    r.assume("no extension + use_cached_result_metadata + schema altered since preparation: the statement is silent (documented user's risk); only result-or-error without panic/hang is asserted there");
    r.finish();
}
