//! C08 leg `tablet-payload` (E-MOCK, sandboxed): responses to a LIVE session carry a `tablets-routing-v1` custom
//! payload whose bytes are well-formed, semantically odd, or malformed; the session must neither panic, abort nor
//! hang, and subsequent requests (routed through whatever tablet information was accepted) and a metadata refresh
//! (the cluster worker that applies tablet feedback is alive) still succeed.
//! Corpus (simplest first):
//!   wellformed   7 token ranges (incl. empty / reversed / full ring / at both ends) x 11 replica lists (0..3 replicas,
//!                duplicate, unknown and nil host ids, shard -1 / = shard count / i32::MAX / i32::MIN)
//!   truncation   every proper prefix of a 2-replica payload
//!   field        every length / count field of that payload (3 tuple-element lengths, list count, per replica: element
//!                length, host length, shard length) replaced by each of {-1, 0, 1, -2, v+1, v-1, 0x7FFF, 0xFFFF, MAX, MIN}
//!   wrongtype    serializations of other CQL types under the same key (empty, bigint, text, 2-/4-tuples, int tokens,
//!                bigint shard, list<uuid>, set<text>, top-level list, trailing bytes, 1 MiB of 0x00 / 0xFF)
//! Every payload is delivered on the answer to `execute_unpaged` AND on the first page of `execute_iter`.
//! Cases run in child processes (address space capped) so that an abort / oversize allocation is a RESULT.
use h_mock::sess;
use mockcluster::wire::{ColType, Envelope, Response, TABLETS_PAYLOAD_KEY, col, val};
use mockcluster::{KeyspaceSpec, MockCluster, NodeSpec, Reply, Script, TableSpec};
use scylla::client::session::Session;
use scylla::client::session_builder::SessionBuilder;
use serde_json::{Value, json};
use std::io::{BufRead, Write};
use std::sync::{Arc, Mutex};
use std::time::Duration;
use uuid::Uuid;
use vcore::Report;

const SELECT: &str = "SELECT a, b FROM ks.t WHERE a = ?";
const NR_SHARDS: u16 = 2;
const CHILD_AS_LIMIT: u64 = 4 << 30;

#[derive(Clone, Debug)]
struct Case {
    class: String,
    what: String,
    payload: Vec<u8>,
}
impl Case {
    fn json(&self) -> Value {
        let uniform = self.payload.len() > 4096 && self.payload.iter().all(|b| *b == self.payload[0]);
        if uniform {
            json!({"leg":"tablet-payload","class":self.class,"what":self.what,"fill":self.payload[0],"len":self.payload.len()})
        } else {
            json!({"leg":"tablet-payload","class":self.class,"what":self.what,"payload_hex":vcore::hex(&self.payload)})
        }
    }
    fn from_json(v: &Value) -> Case {
        let payload = match v["payload_hex"].as_str() {
            Some(h) => vcore::unhex(h),
            None => vec![v["fill"].as_u64().unwrap_or(0) as u8; v["len"].as_u64().unwrap_or(0) as usize],
        };
        Case { class: v["class"].as_str().unwrap_or("replay").to_string(), what: v["what"].as_str().unwrap_or("").to_string(), payload }
    }
}

// ---- payload builder (CQL v4 value encoding of tuple<bigint, bigint, list<tuple<uuid, int>>>), noting every length field
struct Built {
    bytes: Vec<u8>,
    /// (field name without index, offset of the big-endian i32)
    fields: Vec<(String, usize)>,
}
fn build(first: i64, last: i64, reps: &[(Uuid, i32)]) -> Built {
    let mut b = Vec::new();
    let mut fields = Vec::new();
    let mut int_field = |b: &mut Vec<u8>, name: &str, v: i32| {
        fields.push((name.to_string(), b.len()));
        b.extend_from_slice(&v.to_be_bytes());
    };
    int_field(&mut b, "len:first_token", 8);
    b.extend_from_slice(&first.to_be_bytes());
    int_field(&mut b, "len:last_token", 8);
    b.extend_from_slice(&last.to_be_bytes());
    let list_len = 4 + reps.len() * (4 + 4 + 16 + 4 + 4);
    int_field(&mut b, "len:replicas", list_len as i32);
    int_field(&mut b, "count:replicas", reps.len() as i32);
    for (u, s) in reps {
        int_field(&mut b, "len:replica", 4 + 16 + 4 + 4);
        int_field(&mut b, "len:replica.host", 16);
        b.extend_from_slice(u.as_bytes());
        int_field(&mut b, "len:replica.shard", 4);
        b.extend_from_slice(&s.to_be_bytes());
    }
    Built { bytes: b, fields }
}

fn corpus(hosts: &[Uuid]) -> Vec<Case> {
    let (h0, h1) = (hosts[0], hosts[1]);
    let unknown = Uuid::from_u128(0xdead_beef_0000_0000_0000_0000_0000_0001);
    let mut out = Vec::new();
    let ranges: [(i64, i64, &str); 7] = [
        (-100, 100, "small"),
        (i64::MIN, i64::MAX, "full-ring"),
        (i64::MAX - 1, i64::MAX, "top"),
        (i64::MIN, i64::MIN + 1, "bottom"),
        (5, 5, "empty"),
        (100, -100, "reversed"),
        (i64::MAX, i64::MIN, "reversed-extremes"),
    ];
    let replica_lists: Vec<(&str, Vec<(Uuid, i32)>)> = vec![
        ("none", vec![]),
        ("one", vec![(h0, 0)]),
        ("two", vec![(h0, 0), (h1, 1)]),
        ("duplicate", vec![(h0, 0), (h0, 0)]),
        ("unknown-host", vec![(unknown, 0)]),
        ("nil-host", vec![(Uuid::nil(), 0)]),
        ("shard-minus-1", vec![(h0, -1)]),
        ("shard-eq-count", vec![(h0, NR_SHARDS as i32), (h1, 0)]),
        ("shard-max", vec![(h0, i32::MAX)]),
        ("shard-min", vec![(h1, i32::MIN), (h0, 1)]),
        ("three-mixed", vec![(h0, 1), (unknown, 7), (h1, 0)]),
    ];
    for (first, last, rname) in ranges {
        for (lname, reps) in &replica_lists {
            out.push(Case { class: format!("wellformed:{rname}:{lname}"), what: format!("tokens ({first}, {last}] replicas {lname}"), payload: build(first, last, reps).bytes });
        }
    }
    let base = build(i64::MIN, i64::MAX, &[(h0, 0), (h1, 1)]);
    for cut in 0..base.bytes.len() {
        out.push(Case { class: "truncation".into(), what: format!("first {cut} of {} bytes", base.bytes.len()), payload: base.bytes[..cut].to_vec() });
    }
    for (name, off) in &base.fields {
        let v = i32::from_be_bytes(base.bytes[*off..*off + 4].try_into().unwrap());
        let mut seen = std::collections::BTreeSet::new();
        for m in [-1, 0, 1, -2, v + 1, v - 1, 0x7FFF, 0xFFFF, i32::MAX, i32::MIN] {
            if m == v || !seen.insert(m) {
                continue;
            }
            let mut p = base.bytes.clone();
            p[*off..*off + 4].copy_from_slice(&m.to_be_bytes());
            out.push(Case { class: format!("field:{name}"), what: format!("{name} at offset {off}: {v} -> {m}"), payload: p });
        }
    }
    let cell = |c: mockcluster::wire::Cell| c.unwrap();
    let good_list = val::list(&[val::tuple(&[val::uuid(h0), val::int(0)])]);
    let wrong: Vec<(&str, Vec<u8>)> = vec![
        ("empty", vec![]),
        ("bigint", 7i64.to_be_bytes().to_vec()),
        ("text", b"tablets".to_vec()),
        ("tuple<bigint,bigint>", cell(val::tuple(&[val::bigint(i64::MIN), val::bigint(i64::MAX)]))),
        ("tuple<int,int,list>", cell(val::tuple(&[val::int(-5), val::int(5), good_list.clone()]))),
        ("tuple<text,text,list>", cell(val::tuple(&[val::text("a"), val::text("b"), good_list.clone()]))),
        ("4-tuple", cell(val::tuple(&[val::bigint(i64::MIN), val::bigint(i64::MAX), good_list.clone(), val::int(1)]))),
        ("shard-is-bigint", cell(val::tuple(&[val::bigint(i64::MIN), val::bigint(i64::MAX), val::list(&[val::tuple(&[val::uuid(h0), val::bigint(0)])])]))),
        ("host-is-text", cell(val::tuple(&[val::bigint(i64::MIN), val::bigint(i64::MAX), val::list(&[val::tuple(&[val::text("not-a-uuid"), val::int(0)])])]))),
        ("list<uuid>", cell(val::tuple(&[val::bigint(i64::MIN), val::bigint(i64::MAX), val::list(&[val::uuid(h0), val::uuid(h1)])]))),
        ("set<text>", cell(val::tuple(&[val::bigint(i64::MIN), val::bigint(i64::MAX), val::set_text(&["x", "y"])]))),
        ("replica-1-tuple", cell(val::tuple(&[val::bigint(i64::MIN), val::bigint(i64::MAX), val::list(&[val::tuple(&[val::uuid(h0)])])]))),
        ("replica-3-tuple", cell(val::tuple(&[val::bigint(i64::MIN), val::bigint(i64::MAX), val::list(&[val::tuple(&[val::uuid(h0), val::int(0), val::int(9)])])]))),
        ("null-elements", cell(val::tuple(&[val::null(), val::null(), val::null()]))),
        ("null-replica", cell(val::tuple(&[val::bigint(i64::MIN), val::bigint(i64::MAX), val::list(&[val::null()])]))),
        ("null-host-and-shard", cell(val::tuple(&[val::bigint(i64::MIN), val::bigint(i64::MAX), val::list(&[val::tuple(&[val::null(), val::null()])])]))),
        ("top-level-list", cell(good_list.clone())),
        ("trailing-bytes", [base.bytes.clone(), vec![1, 2, 3, 4, 5, 6, 7]].concat()),
        ("1MiB-zeros", vec![0u8; 1 << 20]),
        ("1MiB-0xff", vec![0xffu8; 1 << 20]),
    ];
    for (name, bytes) in wrong {
        out.push(Case { class: format!("wrongtype:{name}"), what: name.to_string(), payload: bytes });
    }
    out
}

// ------------------------------------------------------------------------------------------------ child

static PANICS: Mutex<Vec<String>> = Mutex::new(Vec::new());

fn fixed_hosts() -> Vec<Uuid> {
    vec![Uuid::from_u128(0x1111_0000_0000_0000_0000_0000_0000_0001), Uuid::from_u128(0x2222_0000_0000_0000_0000_0000_0000_0002)]
}

#[derive(Debug)]
enum Step {
    Ok,
    Err(String),
    Panic(String),
    Hang,
}

async fn guarded<T: Send + 'static, E: std::fmt::Display + Send + 'static>(fut: impl std::future::Future<Output = Result<T, E>> + Send + 'static) -> Step {
    let h = tokio::spawn(fut);
    match tokio::time::timeout(mockcluster::DEADLINE, h).await {
        Err(_) => Step::Hang,
        Ok(Err(join)) => Step::Panic(join.to_string()),
        Ok(Ok(Ok(_))) => Step::Ok,
        Ok(Ok(Err(e))) => Step::Err(e.to_string()),
    }
}

async fn drain(session: Arc<Session>, ps: scylla::statement::prepared::PreparedStatement, key: i32) -> Result<usize, String> {
    use futures::StreamExt;
    let pager = session.execute_iter(ps, (key,)).await.map_err(|e| e.to_string())?;
    let mut st = pager.rows_stream::<(i32, String)>().map_err(|e| e.to_string())?;
    let mut n = 0;
    while let Some(r) = st.next().await {
        r.map_err(|e| e.to_string())?;
        n += 1;
    }
    Ok(n)
}

fn child_main() -> ! {
    vcore::sandbox::limit_address_space(CHILD_AS_LIMIT);
    std::panic::set_hook(Box::new(|info| {
        let loc = info.location().map(|l| format!("{}:{}", l.file(), l.line())).unwrap_or_default();
        let msg = info.payload().downcast_ref::<&str>().map(|s| s.to_string()).or_else(|| info.payload().downcast_ref::<String>().cloned()).unwrap_or_default();
        PANICS.lock().unwrap().push(format!("{loc}: {msg}"));
    }));
    let mut cases = Vec::new();
    for line in std::io::stdin().lock().lines() {
        let line = line.unwrap_or_default();
        if line.trim().is_empty() {
            continue;
        }
        let v: Value = serde_json::from_str(&line).unwrap_or_else(|e| vcore::machinery_error(&format!("child: bad case line: {e}")));
        cases.push((v["idx"].as_u64().unwrap_or(0), Case::from_json(&v["case"])));
    }
    let out = std::io::stdout();
    let say = |v: Value| {
        let mut o = out.lock();
        let _ = writeln!(o, "{v}");
        let _ = o.flush();
    };
    sess::block_on(2, async {
        let hosts = fixed_hosts();
        let cluster = MockCluster::builder()
            .node(NodeSpec::new("dc1", "r1", vec![-100, 4000]).scylla(NR_SHARDS, 12).tablets().host_id(hosts[0]))
            .node(NodeSpec::new("dc1", "r2", vec![0, 9000]).scylla(NR_SHARDS, 12).tablets().host_id(hosts[1]))
            .keyspace(KeyspaceSpec::simple("ks", 2).tablets(4).table(TableSpec::new("t").pk("a", "int").col("b", "text")))
            .build()
            .await
            .unwrap_or_else(|e| vcore::machinery_error(&e));
        let cols = vec![col("ks", "t", "a", ColType::Int), col("ks", "t", "b", ColType::Text)];
        let current: Arc<Mutex<Option<Vec<u8>>>> = Arc::new(Mutex::new(None));
        let (cur2, cols2) = (current.clone(), cols.clone());
        cluster.script(Script::new(SELECT).bind(vec![cols[0].clone()], vec![0]).result(cols.clone()).reply(move |_ctx| {
            let env = Envelope::from(Response::rows(cols2.clone(), vec![vec![val::int(1), val::text("one")]]));
            match cur2.lock().unwrap().clone() {
                Some(p) => Reply::Frame(env.with_payload(TABLETS_PAYLOAD_KEY, p)),
                None => Reply::Frame(env),
            }
        }));
        let session = Arc::new(SessionBuilder::new().known_node(cluster.contact_point(0)).build().await.unwrap_or_else(|e| vcore::machinery_error(&format!("session: {e}\n{}", cluster.dump_log()))));
        cluster
            .wait_conns("pool connections on both nodes", mockcluster::DEADLINE, |cs| (0..2).all(|n| cs.iter().filter(|c| c.node == n && c.open && c.ready && c.registered.is_empty()).count() >= NR_SHARDS as usize).then_some(()))
            .await
            .unwrap_or_else(|e| vcore::machinery_error(&e));
        let ps = session.prepare(SELECT).await.unwrap_or_else(|e| vcore::machinery_error(&format!("prepare: {e}")));
        let negotiated = cluster.conns().iter().any(|c| c.startup.as_ref().map(|s| s.contains_key("TABLETS_ROUTING_V1")).unwrap_or(false));
        say(json!({"ready": true, "tablets_negotiated": negotiated}));
        for (idx, c) in &cases {
            say(json!({"begin": idx}));
            let key = (*idx as i32) % 97;
            *current.lock().unwrap() = Some(c.payload.clone());
            let from = cluster.log_len();
            let (s1, p1) = (session.clone(), ps.clone());
            let with_unpaged = guarded(async move { s1.execute_unpaged(&p1, (key,)).await }).await;
            let with_iter = guarded(drain(session.clone(), ps.clone(), key)).await;
            let delivered = cluster
                .log_since(from)
                .iter()
                .filter(|e| matches!(&e.kind, mockcluster::LogKind::Sent { response, .. } if response.custom_payload.iter().any(|(k, v)| k == TABLETS_PAYLOAD_KEY && *v == c.payload)))
                .count();
            *current.lock().unwrap() = None;
            // the worker that applies tablet feedback must still be alive and the next requests must be served
            let s3 = session.clone();
            let refresh = guarded(async move { s3.refresh_metadata().await }).await;
            let (s2, p2) = (session.clone(), ps.clone());
            let from2 = cluster.log_len();
            let after = guarded(async move { s2.execute_unpaged(&p2, (key,)).await }).await;
            let after_target: Vec<(usize, Option<u16>)> = cluster.log_since(from2).iter().filter(|e| e.is_user_frame()).map(|e| (e.node, e.shard)).collect();
            let after_iter = guarded(drain(session.clone(), ps.clone(), key)).await;
            let panics: Vec<String> = std::mem::take(&mut *PANICS.lock().unwrap());
            say(json!({"end": idx, "with_unpaged": format!("{with_unpaged:?}"), "with_iter": format!("{with_iter:?}"), "refresh": format!("{refresh:?}"), "after": format!("{after:?}"), "after_iter": format!("{after_iter:?}"),
                "panics": panics, "delivered": delivered, "after_target": after_target}));
            // a session that panicked / hung / stopped serving is poisoned: later payloads get a fresh process
            let clean = panics.is_empty() && [&with_unpaged, &with_iter].iter().all(|s| matches!(s, Step::Ok | Step::Err(_))) && [&refresh, &after, &after_iter].iter().all(|s| matches!(s, Step::Ok));
            if !clean {
                say(json!({"stopped": idx}));
                std::process::exit(0);
            }
        }
        let unexpected = cluster.unexpected().len();
        say(json!({"done": true, "unexpected": unexpected}));
        cluster.shutdown().await;
    });
    std::process::exit(0)
}

// ------------------------------------------------------------------------------------------------ parent

fn classify(r: &Report, c: &Case, v: &Value) {
    r.eval(1);
    let get = |k: &str| v[k].as_str().unwrap_or("").to_string();
    if v["delivered"].as_u64().unwrap_or(0) < 2 {
        vcore::machinery_error(&format!("the payload of {} was delivered on {} responses, expected 2", c.json(), v["delivered"]));
    }
    let panics: Vec<String> = v["panics"].as_array().map(|a| a.iter().filter_map(|x| x.as_str().map(String::from)).collect()).unwrap_or_default();
    let kind = c.class.split(':').take(2).collect::<Vec<_>>().join(":");
    if let Some(p) = panics.first() {
        // site = source file of the panic (no line number: keys must survive unrelated edits)
        let site = p.split(": ").next().unwrap_or("").rsplit('/').next().unwrap_or("").split(':').next().unwrap_or("").to_string();
        r.violation(&format!("tablet:panic:{site}:{kind}"), &format!("payload [{}] {}: a task of the client panicked: {panics:?}", c.class, c.what), c.json());
        return;
    }
    for step in ["with_unpaged", "with_iter"] {
        let s = get(step);
        if s == "Ok" {
            r.counters.add("responses_with_payload_answered_ok", 1);
        } else if s.starts_with("Err") {
            r.counters.add("responses_with_payload_answered_err", 1);
        } else {
            let what = if s == "Hang" { "hang" } else { "panic" };
            r.violation(&format!("tablet:{what}:{step}:{kind}"), &format!("payload [{}] {}: the request that received it: {s}", c.class, c.what), c.json());
            return;
        }
    }
    for step in ["refresh", "after", "after_iter"] {
        let s = get(step);
        if s != "Ok" {
            let what = if s == "Hang" { "hang" } else if s.starts_with("Panic") { "panic" } else { "failed" };
            r.violation(&format!("tablet:subsequent-{step}-{what}:{kind}"), &format!("payload [{}] {}: after it, {step} = {s}", c.class, c.what), c.json());
            return;
        }
    }
    r.counters.add(&format!("held_{}", c.class.split(':').next().unwrap_or("")), 1);
    // vacuity guard (not an oracle): an accepted full-ring tablet with the single replica (node 0, shard 0) steers the follow-up request
    if c.class == "wellformed:full-ring:one" || c.class == "wellformed:small:one" {
        r.counters.add(if v["after_target"] == json!([[0, 0]]) { "followup_routed_by_the_delivered_tablet" } else { "followup_not_routed_by_the_delivered_tablet" }, 1);
    }
}

/// Runs the cases in child processes; a child that dies takes only the case it was executing with it.
fn run_batch(r: &Report, mut todo: Vec<(usize, Case)>) {
    let mut restarts = 0;
    while !todo.is_empty() {
        let mut input = String::new();
        for (i, c) in &todo {
            input.push_str(&json!({"idx": i, "case": c.json()}).to_string());
            input.push('\n');
        }
        let wall = Duration::from_secs(60) + mockcluster::DEADLINE * 2;
        let res = vcore::sandbox::run_self(&["--child"], input.as_bytes(), wall);
        let mut begun: Option<u64> = None;
        let mut finished = std::collections::BTreeSet::new();
        let mut done = false;
        let mut stopped = false;
        for line in String::from_utf8_lossy(&res.stdout).lines() {
            let Ok(v) = serde_json::from_str::<Value>(line) else { continue };
            if v["ready"] == true {
                if v["tablets_negotiated"] != true {
                    vcore::machinery_error("TABLETS_ROUTING_V1 was not negotiated by the session");
                }
            } else if let Some(i) = v["begin"].as_u64() {
                begun = Some(i);
            } else if let Some(i) = v["end"].as_u64() {
                let c = &todo.iter().find(|(j, _)| *j as u64 == i).unwrap_or_else(|| vcore::machinery_error("child reported an unknown case")).1;
                classify(r, c, &v);
                finished.insert(i);
                begun = None;
            } else if v["stopped"].is_u64() {
                stopped = true;
            } else if v["done"] == true {
                done = true;
                if v["unexpected"].as_u64().unwrap_or(0) != 0 {
                    vcore::machinery_error("mock saw an unscripted request");
                }
            }
        }
        if done {
            return;
        }
        match begun {
            None if stopped => todo.retain(|(j, _)| !finished.contains(&(*j as u64))),
            Some(i) => {
                let c = todo.iter().find(|(j, _)| *j as u64 == i).unwrap().1.clone();
                let kind = c.class.split(':').take(2).collect::<Vec<_>>().join(":");
                let how = if res.timed_out { "hang".to_string() } else { format!("abort(signal={:?},exit={:?})", res.signal, res.exit_code) };
                r.eval(1);
                r.violation(
                    &format!("tablet:{}:{kind}", if res.timed_out { "process-hang" } else { "process-died" }),
                    &format!("payload [{}] {}: the client process did not survive it: {how}; stderr tail: {}", c.class, c.what, res.stderr_tail),
                    c.json(),
                );
                todo.retain(|(j, _)| !finished.contains(&(*j as u64)) && *j as u64 != i);
            }
            None => vcore::machinery_error(&format!("child ended outside a case: exit={:?} signal={:?} timed_out={} stderr: {}", res.exit_code, res.signal, res.timed_out, res.stderr_tail)),
        }
        restarts += 1;
        if restarts > 20 {
            r.note("caps_hit", json!("more than 20 child restarts in one partition; remaining cases skipped"));
            r.set_exhaustive(false);
            return;
        }
    }
}

fn main() {
    if std::env::args().any(|a| a == "--child") {
        child_main();
    }
    let r = Report::new("C08", "tablet-payload", "exploration", "E-MOCK");
    sess::watchdog(std::time::Duration::from_secs(r.tier().pick(600, 3600)));
    r.set_exhaustive(true);
    if let Some(case) = r.replay_case() {
        let c = Case::from_json(&case);
        println!("replaying payload [{}] {} ({} bytes)", c.class, c.what, c.payload.len());
        run_batch(&r, vec![(0, c)]);
        r.finish_replay();
    }
    let all: Vec<(usize, Case)> = corpus(&fixed_hosts()).into_iter().enumerate().collect();
    r.note("payloads", json!(all.len()));
    let mut per_class = std::collections::BTreeMap::new();
    for (_, c) in &all {
        *per_class.entry(c.class.split(':').next().unwrap_or("").to_string()).or_insert(0u64) += 1;
    }
    r.note("payloads_per_class", json!(per_class));
    r.nontrivial(all.iter().filter(|(_, c)| !c.class.starts_with("wellformed:small:one") && !c.class.starts_with("wellformed:small:two")).count() as u64);
    r.set_rule("payloads other than a plain well-formed tablet (malformed bytes, or well-formed with an odd token range / replica list)");
    r.sample(all[0].1.json());
    r.sample(all[all.len() / 2].1.json());
    r.sample(all[all.len() - 3].1.json());
    let parts = r.args.jobs.clamp(1, 8);
    let rr = &r;
    std::thread::scope(|s| {
        for b in sess::buckets(all, parts) {
            s.spawn(move || run_batch(rr, b));
        }
    });
    r.assume("2 ScyllaDB nodes x 2 shards with TABLETS_ROUTING_V1 negotiated, tablet keyspace; each payload on an execute_unpaged answer and on an execute_iter first page");
    r.assume("child address space capped at 4 GiB: an allocation driven by a count in the payload shows up as an abort of the child, reported as a violation for that payload");
    r.finish();
}
