//! C03 leg `keys-session` (E-MOCK): the Session-level complement of the hook-based `keys` leg (h-drv c03k).
//! Prepared statements are obtained by the real `Session::prepare` from a mock node whose PREPARED response carries
//! chosen metadata: k = 1..4 partition-key components among m = k..6 bind markers in EVERY arrangement (all injective
//! maps key component -> marker position, i.e. positions x order; 805 statements), all markers blobs, non-key markers
//! interleaved and valued. Component values: every tuple over lengths {0, 1, 15, 16, 17} (bytes crossing 0x80), plus per
//! arrangement a 65535-byte component (accepted) and a 65536-byte component (refused for composite keys, raw for a
//! single-column key). Oracle (cqlref::murmur3, one-shot): `compute_partition_key` = single column: raw bytes;
//! composite: len16, bytes, 0 in PARTITION-KEY order; `calculate_token` = Murmur3 token of that. A table whose
//! `scylla_tables.partitioner` is the CDC partitioner gets the CDC token through the same path.
use h_mock::sess;
use mockcluster::wire::{ColType, col};
use mockcluster::{KeyspaceSpec, MockCluster, NodeSpec, Script, TableSpec};
use scylla::client::session::Session;
use scylla::client::session_builder::SessionBuilder;
use serde_json::{Value, json};
use vcore::{Report, catch};

const LENS: [usize; 5] = [0, 1, 15, 16, 17];

#[derive(Clone, Debug)]
struct Arr {
    m: usize,
    /// pk_marker[j] = bind-marker index that binds partition-key component j
    pk_marker: Vec<usize>,
    cdc: bool,
}
impl Arr {
    fn text(&self) -> String {
        let table = if self.cdc { "cdc_log" } else { "t" };
        let conds: Vec<String> = (0..self.m)
            .map(|i| match self.pk_marker.iter().position(|p| *p == i) {
                Some(j) => format!("pk{j} = ?"),
                None => format!("v{i} = ?"),
            })
            .collect();
        format!("SELECT * FROM ks.{table} WHERE {} ALLOW FILTERING", conds.join(" AND "))
    }
    fn json(&self, lens: &[usize]) -> Value {
        json!({"leg":"keys-session","m":self.m,"pk_marker":self.pk_marker,"cdc":self.cdc,"component_lengths":lens})
    }
}

fn arrangements() -> Vec<Arr> {
    fn rec(m: usize, k: usize, cur: &mut Vec<usize>, out: &mut Vec<Arr>) {
        if cur.len() == k {
            out.push(Arr { m, pk_marker: cur.clone(), cdc: false });
            return;
        }
        for p in 0..m {
            if !cur.contains(&p) {
                cur.push(p);
                rec(m, k, cur, out);
                cur.pop();
            }
        }
    }
    let mut out = Vec::new();
    for k in 1..=4usize {
        for m in k..=6usize {
            rec(m, k, &mut Vec::new(), &mut out);
        }
    }
    // CDC log table: one key column (the stream id) among 1..3 markers at every position
    for m in 1..=3usize {
        for p in 0..m {
            out.push(Arr { m, pk_marker: vec![p], cdc: true });
        }
    }
    out
}

fn component(j: usize, len: usize) -> Vec<u8> {
    (0..len).map(|i| (0x7e + j * 5 + i * 3) as u8).collect()
}
fn filler(i: usize) -> Vec<u8> {
    (0..(i % 4)).map(|x| (0xf0 + x + i) as u8).collect()
}

/// Values in bind-marker order for the given key-component lengths.
fn bound_values(a: &Arr, lens: &[usize]) -> (Vec<Vec<u8>>, Vec<Vec<u8>>) {
    let comps: Vec<Vec<u8>> = lens.iter().enumerate().map(|(j, l)| component(j, *l)).collect();
    let vals: Vec<Vec<u8>> = (0..a.m)
        .map(|i| match a.pk_marker.iter().position(|p| *p == i) {
            Some(j) => comps[j].clone(),
            None => filler(i),
        })
        .collect();
    (vals, comps)
}

fn check_values(r: &Report, a: &Arr, ps: &scylla::statement::prepared::PreparedStatement, lens: &[usize]) {
    let (vals, comps) = bound_values(a, lens);
    let refs: Vec<&[u8]> = comps.iter().map(|c| c.as_slice()).collect();
    let want_key = cqlref::murmur3::partition_key_bytes(&refs);
    r.eval(1);
    let key = catch(std::panic::AssertUnwindSafe(|| ps.compute_partition_key(&vals)));
    let tok = catch(std::panic::AssertUnwindSafe(|| ps.calculate_token(&vals)));
    let case = a.json(lens);
    let (key, tok) = match (key, tok) {
        (Ok(k), Ok(t)) => (k, t),
        (Err(p), _) | (_, Err(p)) => return r.violation("keys-session:panic", &format!("{case}: panicked: {p}"), case),
    };
    match want_key {
        None => {
            r.counters.add("oversize_component_cases", 1);
            if key.is_ok() {
                r.violation("keys-session:oversize-key-accepted", &format!("{case}: compute_partition_key accepted a 65536-byte component of a composite key"), case.clone());
            }
            if tok.is_ok() {
                r.violation("keys-session:oversize-token-accepted", &format!("{case}: calculate_token accepted a 65536-byte component of a composite key"), case);
            }
        }
        Some(want) => {
            let want_token = if a.cdc { cqlref::murmur3::cdc_token(&want) } else { cqlref::murmur3::murmur3_token(&want) };
            match key {
                Ok(k) if k.as_ref() == want.as_slice() => {}
                Ok(k) => {
                    let show = |b: &[u8]| if b.len() > 48 { format!("{}.. ({} bytes)", vcore::hex(&b[..48]), b.len()) } else { vcore::hex(b) };
                    return r.violation("keys-session:partition-key", &format!("{case}: compute_partition_key = {}, the server hashes {}", show(&k), show(&want)), case);
                }
                Err(e) => return r.violation("keys-session:key-refused", &format!("{case}: compute_partition_key refused a legal key: {e}"), case),
            }
            match tok {
                Ok(Some(t)) if t.value() == want_token => {
                    r.counters.add(if a.cdc { "cdc_tokens_equal" } else { "murmur3_tokens_equal" }, 1);
                }
                Ok(Some(t)) => r.violation("keys-session:token", &format!("{case}: calculate_token = {}, the server computes {want_token}", t.value()), case),
                Ok(None) => r.violation("keys-session:no-token", &format!("{case}: calculate_token returned no token although every key component is bound"), case),
                Err(e) => r.violation("keys-session:token-refused", &format!("{case}: calculate_token refused a legal key: {e}"), case),
            }
        }
    }
}

fn value_tuples(k: usize) -> Vec<Vec<usize>> {
    let mut out: Vec<Vec<usize>> = vec![vec![]];
    for _ in 0..k {
        out = out.into_iter().flat_map(|t| LENS.iter().map(move |l| { let mut u = t.clone(); u.push(*l); u })).collect();
    }
    out
}

async fn check_arrangement(r: &Report, cluster: &MockCluster, session: &Session, a: &Arr, idx: usize, only: Option<&[usize]>) {
    let table = if a.cdc { "cdc_log" } else { "t" };
    let cols: Vec<_> = (0..a.m)
        .map(|i| match a.pk_marker.iter().position(|p| *p == i) {
            Some(j) => col("ks", table, &format!("pk{j}"), ColType::Blob),
            None => col("ks", table, &format!("v{i}"), ColType::Blob),
        })
        .collect();
    let text = a.text();
    cluster.script(Script::new(&text).bind(cols.clone(), a.pk_marker.iter().map(|p| *p as u16).collect()).result(cols));
    let ps = match session.prepare(text.as_str()).await {
        Ok(ps) => ps,
        Err(e) => return r.violation("keys-session:prepare-failed", &format!("{}: Session::prepare failed: {e}", a.json(&[])), a.json(&[])),
    };
    r.counters.add("statements_prepared_through_session", 1);
    let got_idx: Vec<(u16, u16)> = ps.get_variable_pk_indexes().iter().map(|p| (p.index, p.sequence)).collect();
    let mut want_idx: Vec<(u16, u16)> = a.pk_marker.iter().enumerate().map(|(j, p)| (*p as u16, j as u16)).collect();
    want_idx.sort();
    let mut got_sorted = got_idx.clone();
    got_sorted.sort();
    if got_sorted != want_idx {
        return r.violation("keys-session:pk-indexes", &format!("{}: statement holds (marker, key position) pairs {got_idx:?}, the node sent {want_idx:?}", a.json(&[])), a.json(&[]));
    }
    if let Some(lens) = only {
        return check_values(r, a, &ps, lens);
    }
    let k = a.pk_marker.len();
    if a.cdc {
        for l in [8usize, 16, 17, 40] {
            check_values(r, a, &ps, &[l]);
        }
        return;
    }
    for t in value_tuples(k) {
        check_values(r, a, &ps, &t);
    }
    // boundary of the 16-bit component length: 65535 accepted, 65536 refused (composite) / raw (single column)
    let j = idx % k;
    for big in [65535usize, 65536] {
        let mut lens: Vec<usize> = (0..k).map(|x| LENS[(idx + x) % LENS.len()]).collect();
        lens[j] = big;
        check_values(r, a, &ps, &lens);
    }
}

fn run_partition(r: &Report, part: Vec<(usize, Arr)>, only: Option<Vec<usize>>) {
    sess::block_on(2, async {
        let mut cdc = TableSpec::new("cdc_log").pk("pk0", "blob").col("v", "blob");
        cdc.partitioner = Some("com.scylladb.dht.CDCPartitioner".to_string());
        let cluster = MockCluster::builder()
            .node(NodeSpec::new("dc1", "r1", vec![-100, 4000]).scylla(2, 12))
            .keyspace(KeyspaceSpec::simple("ks", 1).table(TableSpec::new("t").pk("pk0", "blob").col("v", "blob")).table(cdc))
            .build()
            .await
            .unwrap_or_else(|e| vcore::machinery_error(&e));
        let session = SessionBuilder::new().known_node(cluster.contact_point(0)).build().await.unwrap_or_else(|e| vcore::machinery_error(&format!("session: {e}\n{}", cluster.dump_log())));
        for (idx, a) in &part {
            check_arrangement(r, &cluster, &session, a, *idx, only.as_deref()).await;
        }
        if r.violation_count() == 0 {
            if let Some(u) = cluster.unexpected().first() {
                vcore::machinery_error(&format!("mock saw an unscripted request: {}", u.describe()));
            }
        }
        cluster.shutdown().await;
        drop(session);
    });
}

fn main() {
    let r = Report::new("C03", "keys-session", "exploration", "E-MOCK");
    sess::watchdog(std::time::Duration::from_secs(r.tier().pick(600, 3600)));
    vcore::quiet_panics();
    if let Err(e) = cqlref::murmur3::self_test() {
        vcore::machinery_error(&e);
    }
    if let Some(case) = r.replay_case() {
        let a = Arr {
            m: case["m"].as_u64().unwrap_or(1) as usize,
            pk_marker: case["pk_marker"].as_array().map(|v| v.iter().filter_map(|x| x.as_u64()).map(|x| x as usize).collect()).unwrap_or_default(),
            cdc: case["cdc"].as_bool().unwrap_or(false),
        };
        let lens: Vec<usize> = case["component_lengths"].as_array().map(|v| v.iter().filter_map(|x| x.as_u64()).map(|x| x as usize).collect()).unwrap_or_default();
        let lens = if lens.len() == a.pk_marker.len() { lens } else { vec![1; a.pk_marker.len()] };
        println!("replaying {}", a.json(&lens));
        run_partition(&r, vec![(0, a)], Some(lens));
        r.finish_replay();
    }
    let all: Vec<(usize, Arr)> = arrangements().into_iter().enumerate().collect();
    r.note("arrangements", json!(all.len()));
    let permuted = all.iter().filter(|(_, a)| a.pk_marker.windows(2).any(|w| w[0] > w[1])).count();
    r.note("arrangements_with_key_order_differing_from_marker_order", json!(permuted));
    r.nontrivial(permuted as u64);
    r.set_rule("arrangements (statements) whose bind markers bind the key components in an order different from partition-key order");
    r.sample(all[0].1.json(&[0]));
    r.sample(all[all.len() / 2].1.json(&[1, 16, 17, 0]));
    let parts = r.args.jobs.clamp(1, 16);
    let rr = &r;
    std::thread::scope(|s| {
        for b in sess::buckets(all, parts) {
            s.spawn(move || run_partition(rr, b, None));
        }
    });
    r.set_exhaustive(true);
    r.assume("all bind markers are blobs (the token depends on serialized bytes only); typed columns and NULL/unset non-key markers are the hook-based keys leg");
    r.assume("CDC tables: stream ids of >= 8 bytes (short ids are the hook-based leg)");
    r.finish();
}
