//! C06 leg "mock" (E-MOCK): a real Session against 3 mock nodes. For every script of per-attempt outcomes over the
//! class alphabet {Unavailable, Overloaded, ServerError, TruncateError, ReadTimeout, WriteTimeout x write-type
//! class, IsBootstrapping, connection reset while the request is outstanding} x idempotent flag x {Default,
//! DowngradingConsistency, Fallthrough} x initial consistency x {query_unpaged, execute_unpaged, batch, query_iter,
//! execute_iter (the scripted page being the first - fetched on the caller's task - or the second - fetched by the
//! pager's worker, coordinator-stable plan)}: the mock answers attempt i of the logical request with the scripted
//! ERROR frame / reset and every attempt after the script with success. The mock's LOG is the observation: which
//! QUERY/EXECUTE/BATCH frames of that logical request arrived, on which node, with which consistency.
//!
//! Script space = a tree: a script is extended by one more outcome exactly when the driver sent the attempt that
//! would receive it (a script whose prefix already ended the request yields the same run as that prefix).
//!
//! Oracle (cqlref::retry = the statement as tables; nothing is taken from the driver's policy code):
//!  frames:  a NON-idempotent request is on the wire again only after {unavailable, bootstrapping, read timeout};
//!           Default never sends again after a frame at SERIAL / LOCAL_SERIAL; frames <= 3 (plan) + the policy's
//!           same-node bound; same-node re-sends <= that bound; nothing is sent after the first success;
//!  policy:  the built-in policy is wrapped by a recorder that forwards every question: each decision is judged by
//!           cqlref::retry::SessionJudge with the class the MOCK injected; the loop asked with the failed attempt's
//!           own error / consistency / idempotence, once per failed attempt, one retry session per request;
//!  loop:    the frames equal cqlref::retry::interpret(plan of 3, decisions taken): count, same node / another
//!           node, consistency on the wire; the caller gets success / the error of the last attempt / the ignored
//!           write exactly as decided, and the rows of the pages that were served;
//!  liveness: every client future completes (20 s where correct code needs milliseconds).
use cqlref::retry::{self, Cl, LoopOutcome, Policy, SessionJudge, Step};
use h_mock::retryleg::*;
use h_mock::sess::ALL_CONSISTENCIES;
use mockcluster::MockCluster;
use scylla::client::execution_profile::{ExecutionProfile, ExecutionProfileHandle};
use scylla::client::session::Session;
use scylla::client::session_builder::SessionBuilder;
use serde_json::{Value, json};
use std::collections::HashMap;
use std::sync::atomic::{AtomicBool, AtomicUsize, Ordering};
use std::sync::{Arc, Mutex};
use vcore::Report;

/// Where the retry policy under test is configured. Statement-level settings override the session's default
/// profile; in every mode the places that must NOT be effective carry a decoy (a recorder around a different policy).
#[derive(Clone, Copy, Debug, PartialEq, Eq, Hash, PartialOrd, Ord)]
enum SetAt {
    /// execution profile handle set on the statement (session default profile = decoy)
    StmtProfile,
    /// the session's default execution profile; the statement carries nothing
    SessionProfile,
    /// `set_retry_policy` on the statement; the session default profile = decoy
    StmtPolicyOverSessionProfile,
    /// `set_retry_policy` on the statement; the statement's own execution profile handle = decoy
    StmtPolicyOverStmtProfile,
}
impl SetAt {
    const ALL: [SetAt; 4] = [SetAt::StmtProfile, SetAt::SessionProfile, SetAt::StmtPolicyOverSessionProfile, SetAt::StmtPolicyOverStmtProfile];
    fn name(self) -> &'static str {
        match self {
            SetAt::StmtProfile => "statement-profile-handle",
            SetAt::SessionProfile => "session-default-profile",
            SetAt::StmtPolicyOverSessionProfile => "statement-policy-over-session-profile",
            SetAt::StmtPolicyOverStmtProfile => "statement-policy-over-statement-profile",
        }
    }
}
/// The decoy differs from the policy under test in what it does after the failures of the alphabet.
fn decoy_of(p: Policy) -> Policy {
    match p {
        Policy::Default => Policy::Fallthrough,
        Policy::Downgrading => Policy::Fallthrough,
        Policy::Fallthrough => Policy::Default,
    }
}

#[derive(Clone, Debug)]
struct Case {
    set_at: SetAt,
    api: Api,
    /// page whose fetch is scripted (0 for unpaged calls)
    page: usize,
    policy: Policy,
    idempotent: bool,
    cl0: Cl,
    script: Vec<Sym>,
}
impl Case {
    fn json(&self) -> Value {
        json!({"policy_set_at": self.set_at.name(), "api": self.api.name(), "page": self.page, "policy": self.policy.name(), "idempotent": self.idempotent, "consistency": self.cl0.name(),
               "script": self.script.iter().map(|s| s.name).collect::<Vec<_>>()})
    }
    fn from_json(v: &Value) -> Option<Case> {
        Some(Case {
            set_at: SetAt::ALL.into_iter().find(|m| Some(m.name()) == v["policy_set_at"].as_str()).unwrap_or(SetAt::StmtProfile),
            api: Api::from_name(v["api"].as_str()?)?,
            page: v["page"].as_u64()? as usize,
            policy: Policy::from_name(v["policy"].as_str()?)?,
            idempotent: v["idempotent"].as_bool()?,
            cl0: Cl::ALL.into_iter().find(|c| Some(c.name()) == v["consistency"].as_str())?,
            script: v["script"].as_array()?.iter().map(|s| sym(s.as_str()?)).collect::<Option<Vec<_>>>()?,
        })
    }
    fn has_rst(&self) -> bool {
        self.script.iter().any(|s| s.name == "rst")
    }
}

struct Plan {
    page: usize,
    script: Vec<Sym>,
    next_attempt: usize,
}

struct World {
    cluster: MockCluster,
    registry: Arc<Mutex<HashMap<i32, Plan>>>,
    session: Option<(Session, Stmts)>,
    recorders: Vec<Arc<RecordingPolicy>>,
    profiles: Vec<ExecutionProfileHandle>,
    decoys: Vec<Arc<RecordingPolicy>>,
    decoy_profiles: Vec<ExecutionProfileHandle>,
    /// the session's default profile handle (shared with the session: remapped per case)
    default_handle: ExecutionProfileHandle,
    next_id: i32,
    cases: usize,
}

impl World {
    async fn new() -> Result<World, String> {
        let cluster = build_cluster().await?;
        let registry: Arc<Mutex<HashMap<i32, Plan>>> = Default::default();
        let reg = registry.clone();
        cluster.handle(move |ctx| {
            let (id, page, cl) = ident(ctx.entry.frame()?)?;
            let mut g = reg.lock().unwrap();
            let p = g.get_mut(&id)?;
            if page != p.page {
                return None;
            }
            let k = p.next_attempt;
            p.next_attempt += 1;
            p.script.get(k).map(|s| s.reply(cl))
        });
        let recorders: Vec<Arc<RecordingPolicy>> = Policy::ALL.iter().map(|p| Arc::new(RecordingPolicy::new(*p))).collect();
        let profile_of = |r: &Arc<RecordingPolicy>| ExecutionProfile::builder().retry_policy(r.clone()).request_timeout(None).build();
        let profiles = recorders.iter().map(|r| profile_of(r).into_handle()).collect();
        let decoys: Vec<Arc<RecordingPolicy>> = Policy::ALL.iter().map(|p| Arc::new(RecordingPolicy::new(*p))).collect();
        let decoy_profiles = decoys.iter().map(|r| profile_of(r).into_handle()).collect();
        let default_handle = ExecutionProfile::builder().request_timeout(None).build().into_handle();
        Ok(World { cluster, registry, session: None, recorders, profiles, decoys, decoy_profiles, default_handle, next_id: 1, cases: 0 })
    }
    async fn session(&mut self) -> Result<&(Session, Stmts), String> {
        if self.session.is_none() {
            let sb = SessionBuilder::new().known_node(self.cluster.contact_point(0)).default_execution_profile_handle(self.default_handle.clone());
            let s = match tokio::time::timeout(LIVENESS, sb.build()).await {
                Ok(Ok(s)) => s,
                Ok(Err(e)) => return Err(format!("session did not come up: {e}")),
                Err(_) => return Err("session did not come up within the liveness deadline".into()),
            };
            wait_all_connected(&s).await?;
            let st = prepare_all(&s).await?;
            self.session = Some((s, st));
        }
        Ok(self.session.as_ref().unwrap())
    }
    /// Drop the session without leaving TIME_WAIT sockets behind: the mock resets every connection first (a
    /// client-side close would park each local port for a minute and thousands of sessions exhaust the range).
    async fn drop_session(&mut self) -> Result<(), String> {
        if let Some((s, st)) = self.session.take() {
            // no listener while the old session dies: its reconnect attempts are refused instead of accepted
            for n in 0..N_NODES {
                self.cluster.stop_listening(n).await;
            }
            for c in self.cluster.open_conns(None) {
                self.cluster.close_conn(c.id, mockcluster::CloseKind::Rst).await;
            }
            drop(st);
            drop(s);
            for c in self.cluster.open_conns(None) {
                self.cluster.close_conn(c.id, mockcluster::CloseKind::Rst).await;
            }
            for n in 0..N_NODES {
                self.cluster.start_listening(n).await?;
            }
        }
        Ok(())
    }
    async fn teardown(self) {
        self.cluster.shutdown().await;
        drop(self.session);
    }
}

#[derive(Default)]
struct Obs {
    violations: Vec<(String, String)>,
    /// the driver sent the attempt after the last scripted outcome: longer scripts are distinguishable
    extend: bool,
    frames: usize,
    decisions: Vec<&'static str>,
    result: String,
    nodes_used: usize,
    downgraded: bool,
    plan_variant: &'static str,
    trace: Value,
}

fn policy_index(p: Policy) -> usize {
    Policy::ALL.iter().position(|q| *q == p).unwrap()
}
fn cons_of(c: Cl) -> scylla::statement::Consistency {
    ALL_CONSISTENCIES[c.code() as usize]
}

/// Err = harness-side failure (session did not come up, ...), never a verdict.
async fn run_case(w: &mut World, case: &Case) -> Result<Obs, String> {
    let id = w.next_id;
    w.next_id += 1;
    w.cases += 1;
    let pi = policy_index(case.policy);
    w.session().await?;
    let from = w.cluster.log_len();
    w.registry.lock().unwrap().insert(id, Plan { page: case.page, script: case.script.clone(), next_attempt: 0 });
    let _ = w.recorders[pi].take();
    let di = policy_index(decoy_of(case.policy));
    let _ = w.decoys[di].take();
    let profile_with = |r: &Arc<RecordingPolicy>| ExecutionProfile::builder().retry_policy(r.clone()).request_timeout(None).build();
    let (session_profile, stmt_profile, stmt_policy): (ExecutionProfile, Option<ExecutionProfileHandle>, Option<Arc<dyn scylla::policies::retry::RetryPolicy>>) = match case.set_at {
        SetAt::StmtProfile => (profile_with(&w.decoys[di]), Some(w.profiles[pi].clone()), None),
        SetAt::SessionProfile => (profile_with(&w.recorders[pi]), None, None),
        SetAt::StmtPolicyOverSessionProfile => (profile_with(&w.decoys[di]), None, Some(w.recorders[pi].clone())),
        SetAt::StmtPolicyOverStmtProfile => (profile_with(&w.decoys[di]), Some(w.decoy_profiles[di].clone()), Some(w.recorders[pi].clone())),
    };
    w.default_handle.map_to_another_profile(session_profile);
    let cfg = CallCfg { api: case.api, id, idempotent: case.idempotent, consistency: Some(cons_of(case.cl0)), profile: stmt_profile, retry_policy: stmt_policy };
    let (session, stmts) = w.session.as_ref().unwrap();
    let out = tokio::time::timeout(LIVENESS, call(session, stmts, &cfg)).await;
    let rec = w.recorders[pi].take();
    let decoy_rec = w.decoys[di].take();
    w.registry.lock().unwrap().remove(&id);
    let log = w.cluster.log_since(from);
    if case.has_rst() {
        // the reset connection's pool refills on the driver's own clock: start the next case on a fresh session
        w.drop_session().await?;
    }
    let mut obs = Obs::default();
    let all = attempts_of(&log, id);
    let frames: Vec<&WireAttempt> = all.iter().filter(|a| a.page == case.page).collect();
    let others: Vec<&WireAttempt> = all.iter().filter(|a| a.page != case.page).collect();
    let pname = case.policy.name();
    let script_names: Vec<&str> = case.script.iter().map(|s| s.name).collect();
    obs.frames = frames.len();
    obs.extend = frames.len() > case.script.len();
    obs.nodes_used = frames.iter().map(|f| f.node).collect::<std::collections::BTreeSet<_>>().len();
    obs.trace = json!({
        "frames": frames.iter().map(|f| json!({"node": f.node, "cl": Cl::from_code(f.consistency).map(|c| c.name()), "op": f.opcode.name()})).collect::<Vec<_>>(),
        "other_pages": others.iter().map(|f| json!({"node": f.node, "page": f.page})).collect::<Vec<_>>(),
        "asked": rec.asks.iter().map(|a| json!({"error": a.error, "cl": a.cl.name(), "decision": format!("{:?}", a.decision)})).collect::<Vec<_>>(),
    });
    let mut viol: Vec<(String, String)> = Vec::new();
    macro_rules! v {
        ($k:expr, $w:expr $(,)?) => {
            viol.push(($k, $w))
        };
    }
    macro_rules! done {
        () => {{
            obs.violations = viol;
            return Ok(obs);
        }};
    }

    // ---- liveness
    let out = match out {
        Ok(o) => o,
        Err(_) => {
            v!("c06-mock:caller-hang".into(), format!("the {} call did not complete within {LIVENESS:?}; frames seen: {}", case.api.name(), obs.trace));
            done!();
        }
    };
    obs.result = match &out.err {
        None => format!("ok/{}rows", out.rows.len()),
        Some(e) => format!("err:{}", e.split(':').next().unwrap_or("")),
    };
    if frames.is_empty() {
        v!("c06-mock:no-frame".into(), format!("the call returned {:?} but no frame of the request reached the mock", obs.result));
        done!();
    }
    for f in &all {
        if f.opcode != case.api.opcode() {
            v!("c06-mock:wrong-opcode".into(), format!("{} sent a {} frame", case.api.name(), f.opcode.name()));
        }
    }

    // ---- frames vs the statement (independent of the recorder)
    let bound = case.policy.same_target_bound() as usize;
    for j in 1..frames.len() {
        let after = case.script.get(j - 1);
        match after {
            None => v!("frames:sent-again-after-success".into(), format!("attempt {j} was answered with success, yet frame {} of the same request arrived", j + 1)),
            Some(s) => {
                if !case.idempotent && !s.class.proves_not_applied() {
                    v!(
                        format!("frames:{pname}:nonidempotent-resent-after:{}", s.class.name()),
                        format!("NON-idempotent {} request: attempt {j} failed with {} (the statement may have been applied) and the driver put it on the wire again (node {} -> node {})", case.api.name(), s.name, frames[j - 1].node, frames[j].node),
                    );
                }
                if case.policy == Policy::Default && Cl::from_code(frames[j - 1].consistency).map(|c| c.is_serial()).unwrap_or(false) {
                    v!("frames:default:resent-at-serial".into(), format!("default policy: frame {j} went out at serial consistency, failed with {}, and the request was sent again", s.name));
                }
            }
        }
    }
    // plan length: the 3 nodes, plus the re-visit of a node that was reset earlier in this request (see below)
    let revisit = (1..frames.len()).any(|j| (0..j).any(|i| frames[i].node == frames[j].node && frames[j - 1].node != frames[j].node && case.script.get(i).map(|s| s.name == "rst").unwrap_or(false)));
    let plan_len = N_NODES + usize::from(revisit);
    if frames.len() > plan_len + bound {
        v!(format!("frames:{pname}:more-attempts-than-plan-plus-bound"), format!("{} frames for one request; plan length {plan_len} + same-node bound {bound}", frames.len()));
    }
    let same_node = (1..frames.len()).filter(|j| frames[*j].node == frames[j - 1].node).count();
    if same_node > bound {
        v!(format!("frames:{pname}:same-node-resends-exceed-bound"), format!("{same_node} re-sends to the node just tried; the policy's fixed bound is {bound}"));
    }

    // ---- the policy that is EFFECTIVE for the statement is the one consulted (statement-level overrides profile)
    if decoy_rec.sessions != 0 || !decoy_rec.asks.is_empty() {
        v!(
            format!("loop:policy-not-effective-for-the-statement-consulted:{}", case.set_at.name()),
            format!("{} with the {pname} policy configured at {}: the {} policy configured where it must be overridden was asked {} times ({:?}) and so governed the request", case.api.name(), case.set_at.name(), decoy_of(case.policy).name(), decoy_rec.asks.len(), decoy_rec.asks.iter().map(|a| (a.error.clone(), a.decision)).collect::<Vec<_>>()),
        );
        // the decisions were taken by the wrong policy: comparing the loop with the effective policy's (empty) record says nothing more
        done!();
    }
    // ---- the policy as asked by the loop, judged by the statement
    if rec.sessions != usize::from(!rec.asks.is_empty()) || rec.asks.iter().any(|a| a.session != 0) {
        v!("loop:retry-sessions-per-request".into(), format!("{} retry sessions were created for one request with {} failed attempts", rec.sessions, rec.asks.len()));
    }
    if rec.asks.len() > case.script.len() {
        v!("loop:policy-asked-without-failure".into(), format!("the policy was asked {} times, only {} failures were injected", rec.asks.len(), case.script.len()));
        done!();
    }
    let mut judge = SessionJudge::new(case.policy, case.idempotent);
    for (k, a) in rec.asks.iter().enumerate() {
        obs.decisions.push(a.decision.kind());
        let s = &case.script[k];
        if a.error != s.driver_name() {
            v!(format!("loop:policy-asked-with-wrong-error:{}", s.name), format!("attempt {} failed with {} on the wire; the policy was asked about {:?}", k + 1, s.name, a.error));
        }
        if a.idempotent != case.idempotent {
            v!("loop:policy-asked-with-wrong-idempotence".into(), format!("statement idempotent={}, policy was told {}", case.idempotent, a.idempotent));
        }
        if let Some(f) = frames.get(k) {
            if a.cl.code() != f.consistency {
                v!("loop:policy-asked-with-wrong-consistency".into(), format!("attempt {} went out at {:?}, the policy was told {}", k + 1, Cl::from_code(f.consistency).map(|c| c.name()), a.cl.name()));
            }
        }
        for c in judge.step(s.class, a.cl, a.decision) {
            v!(c.key, format!("{} [after {} at attempt {}]", c.text, s.name, k + 1));
        }
    }

    // ---- the loop: frames and result = reference interpretation of the decisions taken
    // Plan model: the 3 nodes. One client-side subtlety is modelled explicitly: DefaultPolicy ends its lazily evaluated
    // plan with "enabled nodes, alive or not", de-duplicated against the fallback part only. A token-aware first
    // target whose connection was reset in this very request can therefore come up once more as a 4th target -
    // without a connection (nothing is sent; if the plan then runs out the caller sees that pool error) or, if the
    // pool refilled meanwhile, with one (one more attempt, on a node reset earlier in this request). Which of the
    // three happens is a client-side race, so each is accepted where the script contains a reset.
    let mut steps: Vec<Step> = rec.asks.iter().map(|a| Step::Fail(a.decision)).collect();
    if rec.asks.len() == case.script.len() {
        steps.push(Step::Success);
    }
    let mut variants: Vec<(&'static str, usize, Vec<bool>)> = vec![("plan-of-3", N_NODES, vec![false; N_NODES])];
    if case.has_rst() {
        variants.push(("reset-node-revisited-without-connection", N_NODES + 1, vec![false, false, false, true]));
        variants.push(("reset-node-revisited-after-refill", N_NODES + 1, vec![false, false, false, false]));
    }
    let mut first: Option<Vec<(String, String)>> = None;
    let mut matched: Option<&'static str> = None;
    for (label, plan_len, no_conn) in &variants {
        let mut c: Vec<(String, String)> = Vec::new();
        let exp = retry::interpret(*plan_len, no_conn, case.cl0, &steps);
        let describe = || format!("script {script_names:?}, decisions {:?}: expected attempts (plan index, consistency) {:?} then {:?}; on the wire: {}", rec.asks.iter().map(|a| a.decision).collect::<Vec<_>>(), exp.attempts, exp.outcome, obs.trace["frames"]);
        'cmp: {
            if exp.outcome == LoopOutcome::ScriptExhausted {
                c.push(("loop:stopped-without-decision".into(), format!("attempt {} failed, the decisions so far demand another attempt, but the loop neither asked the policy about that failure nor went on; {}", rec.asks.len() + 1, describe())));
                break 'cmp;
            }
            if frames.len() != exp.attempts.len() {
                let key = if frames.len() > exp.attempts.len() { "loop:more-attempts-than-decided" } else { "loop:fewer-attempts-than-decided" };
                c.push((key.into(), format!("{} frames on the wire, the decisions taken allow exactly {}; {}", frames.len(), exp.attempts.len(), describe())));
            } else {
                for j in 0..frames.len() {
                    if frames[j].consistency != exp.attempts[j].1.code() {
                        c.push(("loop:consistency-on-wire-differs-from-decision".into(), format!("attempt {}: consistency {:?} on the wire; {}", j + 1, Cl::from_code(frames[j].consistency).map(|c| c.name()), describe())));
                    }
                    if j > 0 {
                        let same_expected = exp.attempts[j].0 == exp.attempts[j - 1].0;
                        let same_seen = frames[j].node == frames[j - 1].node;
                        if same_expected != same_seen {
                            let key = if same_expected { "loop:same-target-retry-went-elsewhere" } else { "loop:next-target-retry-stayed" };
                            c.push((key.into(), format!("attempt {} -> {}: node {} -> node {}; {}", j, j + 1, frames[j - 1].node, frames[j].node, describe())));
                        }
                    }
                    // a 4th target exists only as the re-visit of a node reset earlier in this request
                    if exp.attempts[j].0 == N_NODES && !(0..j).any(|i| frames[i].node == frames[j].node && case.script.get(i).map(|s| s.name == "rst").unwrap_or(false)) {
                        c.push(("loop:more-targets-than-plan".into(), format!("attempt {} went to a 4th target, node {}, which was not reset earlier in this request; {}", j + 1, frames[j].node, describe())));
                    }
                }
            }
            // result
            let (want_err, want_rows): (Option<&str>, Vec<usize>) = match exp.outcome {
                LoopOutcome::Success { .. } => (None, if case.api.is_paged() { vec![0, 1] } else { vec![] }),
                LoopOutcome::IgnoredWrite { .. } => (None, (0..case.page).collect()),
                LoopOutcome::LastAttemptError { attempt } => (Some(case.script[attempt].driver_name()), (0..case.page).collect()),
                LoopOutcome::PoolError { .. } => (Some("ConnectionPoolError"), (0..case.page).collect()),
                _ => (Some("?"), vec![]),
            };
            let got_err = out.err.as_deref().map(|e| e.split(':').next().unwrap_or(""));
            if got_err != want_err {
                let key = match (got_err, want_err) {
                    (None, Some(_)) => "loop:success-reported-for-failed-request",
                    (Some(_), None) => "loop:error-reported-for-successful-request",
                    _ => "loop:wrong-error-reported",
                };
                c.push((key.into(), format!("the caller got {:?}, decided outcome {:?} means {want_err:?}; {}", out.err, exp.outcome, describe())));
            }
            let got_pages: Vec<usize> = out.rows.iter().filter_map(|(a, b)| (*a == id).then(|| b.rsplit("page").next()?.parse().ok()).flatten()).collect();
            if got_pages != want_rows || out.rows.len() != want_rows.len() {
                c.push(("loop:rows-differ-from-pages-served".into(), format!("the caller was handed rows {:?}; pages {want_rows:?} were served before the request ended ({:?})", out.rows, exp.outcome)));
            }
            // the un-scripted page of a paged call is fetched exactly once iff the call got that far
            if case.api.is_paged() {
                let want_other = match (case.page, exp.outcome) {
                    (0, LoopOutcome::Success { .. }) => 1,
                    (0, _) => 0,
                    _ => 1,
                };
                if others.len() != want_other {
                    c.push(("loop:unscripted-page-fetch-count".into(), format!("page {} was fetched {} times, expected {want_other}", 1 - case.page, others.len())));
                }
            }
        }
        if c.is_empty() {
            matched = Some(*label);
            obs.downgraded = exp.attempts.iter().any(|(_, c)| *c != case.cl0);
            break;
        }
        if first.is_none() {
            first = Some(c);
        }
    }
    match matched {
        Some(label) => obs.plan_variant = label,
        None => viol.extend(first.unwrap_or_default()),
    }
    done!()
}

struct Cfg {
    max_len: usize,
    syms: Vec<Sym>,
    consistencies: Vec<(Cl, usize)>,
}

fn variants() -> Vec<(Api, usize)> {
    vec![(Api::QueryIns, 0), (Api::ExecIns, 0), (Api::Batch, 0), (Api::QueryIter, 0), (Api::ExecIter, 0), (Api::QueryIter, 1), (Api::ExecIter, 1)]
}

fn roots(cfg: &Cfg) -> Vec<(Case, usize)> {
    let mut out = Vec::new();
    for (cl, max_len) in &cfg.consistencies {
        for set_at in SetAt::ALL {
            // the non-default consistencies are run with one configuration place (the dimension is independent of them)
            if *cl != Cl::LocalQuorum && set_at != SetAt::StmtProfile {
                continue;
            }
            for (api, page) in variants() {
                for policy in Policy::ALL {
                    for idempotent in [false, true] {
                        out.push((Case { set_at, api, page, policy, idempotent, cl0: *cl, script: vec![] }, *max_len));
                    }
                }
            }
        }
    }
    out
}

fn main() {
    let r = Report::new("C06", "mock", "model_checking", "E-MOCK");
    std::panic::set_hook(Box::new(|_| {}));
    if let Err(e) = retry::self_test() {
        vcore::machinery_error(&format!("cqlref::retry self-test: {e}"));
    }
    if let Some(case) = r.replay_case() {
        let c = Case::from_json(&case).unwrap_or_else(|| vcore::machinery_error("replay case does not parse"));
        let rt = runtime(2);
        let res = rt.block_on(async {
            let mut w = World::new().await?;
            let o = run_case(&mut w, &c).await;
            w.teardown().await;
            o
        });
        match res {
            Ok(obs) => {
                println!("result: {}\ntrace: {}", obs.result, obs.trace);
                for (k, w) in obs.violations {
                    r.violation(&k, &w, case.clone());
                }
            }
            Err(e) => vcore::machinery_error(&e),
        }
        r.finish_replay();
    }
    let thorough = r.tier().is_thorough();
    let max_len = r.args.extra_value("--len").and_then(|s| s.parse().ok()).unwrap_or(r.tier().pick(3, 5));
    let nsyms = r.tier().pick(QUICK_SYMS, THOROUGH_SYMS);
    let cfg = Cfg {
        max_len,
        syms: SYMS[..nsyms].to_vec(),
        consistencies: if thorough {
            vec![(Cl::LocalQuorum, max_len), (Cl::Serial, max_len), (Cl::LocalSerial, max_len), (Cl::EachQuorum, max_len), (Cl::One, max_len)]
        } else {
            vec![(Cl::LocalQuorum, max_len), (Cl::Serial, max_len), (Cl::LocalSerial, 1)]
        },
    };
    let jobs = r.args.jobs.clamp(1, 16);
    let stop = AtomicBool::new(false);
    let mut level: Vec<(Case, usize)> = roots(&cfg);
    let mut depth = 0usize;
    let mut total_cases = 0u64;
    let distinct: Mutex<std::collections::BTreeSet<String>> = Default::default();
    while !level.is_empty() {
        let next: Mutex<Vec<(Case, usize)>> = Mutex::new(Vec::new());
        let idx = AtomicUsize::new(0);
        let rr = &r;
        total_cases += level.len() as u64;
        std::thread::scope(|s| {
            for _ in 0..jobs.min(level.len()) {
                s.spawn(|| {
                    let rt = runtime(2);
                    rt.block_on(async {
                        let mut world: Option<World> = None;
                        loop {
                            let i = idx.fetch_add(1, Ordering::Relaxed);
                            if i >= level.len() {
                                break;
                            }
                            if stop.load(Ordering::Relaxed) {
                                rr.counters.add("cases_skipped_after_first_violation", 1);
                                continue;
                            }
                            let (case, case_max) = &level[i];
                            // a fresh cluster every 1500 cases keeps the mock's log small
                            if world.as_ref().map(|w| w.cases >= 1500).unwrap_or(false) {
                                world.take().unwrap().teardown().await;
                            }
                            let mut res = Err(String::new());
                            for round in 0..2 {
                                if world.is_none() {
                                    world = Some(World::new().await.unwrap_or_else(|e| vcore::machinery_error(&e)));
                                }
                                res = run_case(world.as_mut().unwrap(), case).await;
                                if res.is_ok() {
                                    break;
                                }
                                // harness-side failure: once more on a fresh world before it is reported
                                if round == 0 {
                                    rr.counters.add("harness_retries_on_fresh_world", 1);
                                }
                                if let Some(w) = world.take() {
                                    w.teardown().await;
                                }
                            }
                            match res {
                                Err(e) => vcore::machinery_error(&format!("case {}: {e}", case.json())),
                                Ok(obs) => {
                                    rr.eval(1);
                                    rr.transitions.fetch_add(obs.frames as u64, Ordering::Relaxed);
                                    if obs.frames >= 2 || !case.script.is_empty() {
                                        rr.nontrivial(1);
                                    }
                                    rr.counters.add(&format!("frames_per_request_{}", obs.frames), 1);
                                    rr.counters.max("max_frames_per_request", obs.frames as u64);
                                    rr.counters.max("max_nodes_per_request", obs.nodes_used as u64);
                                    rr.counters.add(&format!("api_{}_page{}", case.api.name(), case.page), 1);
                                    rr.counters.add(&format!("policy_set_at_{}", case.set_at.name()), 1);
                                    if obs.downgraded {
                                        rr.counters.add("requests_resent_at_lower_consistency", 1);
                                    }
                                    if case.has_rst() {
                                        rr.counters.add("cases_with_connection_reset", 1);
                                    }
                                    if obs.plan_variant != "plan-of-3" && !obs.plan_variant.is_empty() {
                                        rr.counters.add(&format!("plan_{}", obs.plan_variant), 1);
                                    }
                                    if !case.idempotent && obs.frames >= 2 {
                                        rr.counters.add("nonidempotent_requests_resent_after_a_safe_failure", 1);
                                    }
                                    for d in &obs.decisions {
                                        rr.counters.add(&format!("decision_{d}"), 1);
                                    }
                                    distinct.lock().unwrap().insert(format!("{}|{:?}|{}", obs.frames, obs.decisions, obs.result));
                                    if !obs.violations.is_empty() {
                                        stop.store(true, Ordering::Relaxed);
                                    }
                                    for (k, w) in &obs.violations {
                                        rr.violation(k, &format!("{w} [case {}]", case.json()), case.json());
                                    }
                                    if i % 997 == 0 {
                                        rr.sample(json!({"case": case.json(), "result": obs.result, "trace": obs.trace}));
                                    }
                                    if obs.extend && case.script.len() < *case_max && obs.violations.is_empty() {
                                        let mut g = next.lock().unwrap();
                                        for s in &cfg.syms {
                                            let mut c = case.clone();
                                            c.script.push(s.clone());
                                            g.push((c, *case_max));
                                        }
                                    } else if obs.extend && obs.violations.is_empty() {
                                        rr.counters.add("scripts_at_length_bound_still_extendable", 1);
                                    }
                                }
                            }
                        }
                        if let Some(w) = world.take() {
                            w.teardown().await;
                        }
                    });
                    rt.shutdown_timeout(std::time::Duration::from_millis(200));
                });
            }
        });
        r.counters.add(&format!("cases_with_script_length_{depth}"), level.len() as u64);
        depth += 1;
        let mut n = next.into_inner().unwrap();
        // deterministic, simplest-first order for the next wave
        n.sort_by_key(|(c, _)| (c.script.iter().map(|s| s.name).collect::<Vec<_>>(), c.api, c.page, c.policy, c.idempotent, c.cl0, c.set_at));
        level = n;
        if stop.load(Ordering::Relaxed) {
            break;
        }
    }
    let d = distinct.into_inner().unwrap();
    r.states.store(d.len() as u64, Ordering::Relaxed);
    r.counters.add("distinct_observable_outcomes", d.len() as u64);
    r.note("cases", json!(total_cases));
    r.note("max_script_length", json!(cfg.max_len));
    r.note("script_tree_closed", json!(r.counters.get("scripts_at_length_bound_still_extendable") == 0 && !stop.load(Ordering::Relaxed)));
    r.note("alphabet", json!(cfg.syms.iter().map(|s| s.name).collect::<Vec<_>>()));
    r.note("initial_consistencies", json!(cfg.consistencies.iter().map(|(c, l)| format!("{} (scripts <= {l})", c.name())).collect::<Vec<_>>()));
    r.set_exhaustive(r.counters.get("cases_skipped_after_first_violation") == 0 && !stop.load(Ordering::Relaxed));
    r.set_rule("logical requests with at least one injected failure (distinct (place of configuration, api, scripted page, policy, idempotent flag, initial consistency, script) tuples)");
    r.assume("script tree: a script is extended exactly when the driver sent the attempt that would receive the next outcome; a script whose prefix ended the request is the same run as that prefix");
    r.assume("the retry policy under test is configured at one of {statement's profile handle, session default profile, statement-level set_retry_policy over the session profile, the same over the statement's profile handle}; every place that must be overridden carries a decoy recorder around a different policy, which must never be asked");
    r.assume("the built-in policies are reached through a forwarding recorder (a RetryPolicy that delegates every question to the built-in session); the frame-level clauses do not use the recorder");
    r.assume("plan length 3: three mock nodes with one pooled connection each, all connected when a request starts (a connection reset is followed by a fresh session); client-side stream-id exhaustion cannot be produced end-to-end");
    r.assume("trusts cqlref::retry (self-tested at start-up)");
    if r.violation_count() == 0 && (r.counters.get("nonidempotent_requests_resent_after_a_safe_failure") == 0 || r.counters.get("cases_with_connection_reset") == 0 || d.len() < 10) {
        vcore::machinery_error("vacuous: no non-idempotent re-send / no reset case / fewer than 10 distinct outcomes");
    }
    r.finish();
}
