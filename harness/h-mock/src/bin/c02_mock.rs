//! C02 leg "mock" (E-MOCK): a real Session, one node, ONE connection; n concurrent EXECUTEs with distinguishable
//! bound values; the mock parks every response and answers in every one of the n! orders, with and without one
//! caller abandoned at each stage {before its frame reached the mock, after the mock saw the frame but before its
//! response, after its response was released}; every response carries rows naming the request it answers.
//!
//! Oracle (holds under every client schedule):
//!  * a caller that completes Ok holds exactly the rows the mock sent for the request carrying that caller's value;
//!  * per connection the mock never sees a stream id on which it still owes a response (ids of abandoned callers
//!    included: their responses are released at their place in the order, i.e. late, while follow-up requests are
//!    already in flight);
//!  * every caller that was not abandoned completes (Ok: the server answered every request) within the liveness
//!    deadline, and so do the follow-up requests issued after the abandonment.
//!
//! Steering (not oracle): a "fence" is an un-gated request on the same connection. The router joins reader, writer
//! and orphaner in one task and polls all of them whenever it runs, so after a fence round trip every orphan notice
//! sent before the fence has been processed and every response released before it has been handed to its handler.
//! After an abandonment the harness sends follow-up X1 at once (racing the notice), then a fence, then follow-up X2
//! (notice certainly processed): both orders of "notice vs next allocation" are exercised in every such run.
use h_mock::connleg::*;
use mockcluster::LogKind;
use serde_json::{Value, json};
use std::future::Future;
use std::pin::Pin;
use std::sync::atomic::{AtomicBool, Ordering};
use std::time::Duration;
use tokio::task::JoinHandle;
use vcore::Report;

#[derive(Clone, Copy, Debug, PartialEq, Eq)]
enum Stage {
    Pre,
    Held,
    Answered,
}
#[derive(Clone, Copy, Debug, PartialEq, Eq)]
enum Mode {
    /// the caller is a spawned task; abandoning = JoinHandle::abort and waiting for the task to be gone
    Task,
    /// the caller future is polled by the harness exactly once and then dropped at the chosen stage
    Manual,
}
#[derive(Clone, Copy, Debug, PartialEq, Eq)]
enum Pace {
    /// all releases back to back
    Burst,
    /// wait for the answered caller to complete before the next release
    Step,
}
#[derive(Clone, Debug)]
struct Case {
    n: usize,
    order: Vec<usize>,
    abort: Option<(usize, Stage, Mode)>,
    pace: Pace,
    /// repetition index (the client-side schedule is sampled, not enumerated)
    rep: usize,
}
impl Case {
    fn json(&self) -> Value {
        json!({
            "n": self.n,
            "order": self.order,
            "abort": self.abort.map(|(v, s, m)| json!({"victim": v, "stage": format!("{s:?}"), "mode": format!("{m:?}")})),
            "pace": format!("{:?}", self.pace),
            "rep": self.rep,
        })
    }
    fn from_json(v: &Value) -> Case {
        let abort = v.get("abort").filter(|a| !a.is_null()).map(|a| {
            let stage = match a["stage"].as_str().unwrap_or("") {
                "Pre" => Stage::Pre,
                "Held" => Stage::Held,
                _ => Stage::Answered,
            };
            let mode = if a["mode"].as_str() == Some("Task") { Mode::Task } else { Mode::Manual };
            (a["victim"].as_u64().unwrap_or(0) as usize, stage, mode)
        });
        Case {
            n: v["n"].as_u64().unwrap_or(1) as usize,
            order: v["order"].as_array().map(|a| a.iter().map(|x| x.as_u64().unwrap_or(0) as usize).collect()).unwrap_or_default(),
            abort,
            pace: if v["pace"].as_str() == Some("Step") { Pace::Step } else { Pace::Burst },
            rep: v["rep"].as_u64().unwrap_or(0) as usize,
        }
    }
}

enum Caller {
    Task(JoinHandle<Outcome>),
    Manual(Pin<Box<dyn Future<Output = Outcome> + Send>>),
    Finished(Outcome),
    Abandoned,
}

#[derive(Default)]
struct Obs {
    violations: Vec<(String, String)>,
    flags: Vec<String>,
    trace: Vec<String>,
    reordered: bool,
}
impl Obs {
    fn v(&mut self, key: &str, what: String) {
        self.violations.push((key.to_string(), what));
    }
    fn flag(&mut self, f: &str) {
        self.flags.push(f.to_string());
    }
}

/// None = abandoned/cancelled; Err(()) = did not complete within the liveness deadline.
async fn finish(c: Caller) -> Result<Option<Outcome>, ()> {
    match c {
        Caller::Finished(o) => Ok(Some(o)),
        Caller::Abandoned => Ok(None),
        Caller::Task(h) => match tokio::time::timeout(LIVENESS, h).await {
            Ok(Ok(o)) => Ok(Some(o)),
            Ok(Err(e)) if e.is_cancelled() => Ok(None),
            Ok(Err(e)) => Ok(Some(Err(format!("caller task panicked: {e}")))),
            Err(_) => Err(()),
        },
        Caller::Manual(f) => match tokio::time::timeout(LIVENESS, f).await {
            Ok(o) => Ok(Some(o)),
            Err(_) => Err(()),
        },
    }
}

fn check_rows(obs: &mut Obs, who: &str, v: i32, o: &Outcome) {
    match o {
        Ok(rows) if *rows == expected_rows(0, v) => {}
        Ok(rows) => obs.v("c02-mock:foreign-rows", format!("{who} (bound value {v}) completed Ok with rows {rows:?}; the mock sent {:?} for that request", expected_rows(0, v))),
        Err(e) => obs.v("c02-mock:caller-error", format!("{who} (bound value {v}) failed although the server answered every request on a healthy connection: {e}")),
    }
}

struct Run<'a> {
    w: &'a World,
    obs: Obs,
    next_fence: i32,
    followups: Vec<(i32, JoinHandle<Outcome>)>,
}
impl Run<'_> {
    async fn fence(&mut self) -> Result<(), String> {
        let v = self.next_fence;
        self.next_fence += 1;
        self.w.fence(v).await
    }
    /// X1 at once, fence, X2 (see the module doc).
    async fn follow_up(&mut self) -> Result<(), String> {
        if !self.followups.is_empty() {
            return Ok(());
        }
        self.followups.push((100, tokio::spawn(self.w.call(100, true))));
        self.fence().await?;
        self.followups.push((101, tokio::spawn(self.w.call(101, true))));
        self.obs.trace.push("follow-ups X1, fence, X2".into());
        Ok(())
    }
    async fn release(&mut self, v: i32) -> Result<(), String> {
        let a = self.w.cluster.held().into_iter().find(|a| action_value(a) == Some(v)).ok_or_else(|| format!("response for value {v} is not parked"))?;
        self.w.release_in_order(&a).await?;
        self.obs.trace.push(format!("release {v}"));
        Ok(())
    }
}

/// Ok(obs) = the run reached its end or a verdict; Err = a harness-side wait did not see what it needed.
async fn run(case: &Case) -> Result<Obs, String> {
    let w = World::new(&WorldCfg::new(1)).await?;
    let r = drive(case, &w).await;
    let r = match r {
        Ok(mut obs) => {
            let log = w.cluster.log();
            for s in stream_reuse(&log) {
                obs.v("c02-mock:stream-id-reused-while-owed", s);
            }
            let conns: std::collections::BTreeSet<u64> = log.iter().filter(|e| entry_value(e).is_some()).map(|e| e.conn).collect();
            if conns.len() > 1 {
                obs.flag("test_frames_on_more_than_one_connection");
            }
            if log.iter().any(|e| matches!(e.kind, LogKind::Closed { .. })) && obs.violations.is_empty() {
                obs.flag("a_connection_closed_during_a_clean_run");
            }
            let streams = streams_of_values(&log);
            if let (Some((_, Stage::Answered, _)), Some(vs)) = (case.abort, case.abort.and_then(|(v, _, _)| streams.get(&(v as i32)))) {
                let vid = vs[0].1;
                if [100, 101].iter().any(|x| streams.get(x).map(|s| s[0].1 == vid).unwrap_or(false)) {
                    obs.flag("followup_reused_the_answered_victims_stream_id");
                }
            }
            let unexpected = w.cluster.unexpected();
            if !unexpected.is_empty() {
                Err(format!("mock saw an unscripted request: {}", unexpected[0].describe()))
            } else {
                Ok(obs)
            }
        }
        Err(e) => Err(format!("{e}\n{}", w.cluster.dump_log())),
    };
    w.teardown().await;
    r
}

async fn drive(case: &Case, w: &World) -> Result<Obs, String> {
    let cluster = &w.cluster;
    let n = case.n;
    cluster.hold(|a| action_value(a).map(|v| v < FENCE_BASE).unwrap_or(false));
    let mut run = Run { w, obs: Obs::default(), next_fence: FENCE_BASE, followups: Vec::new() };
    let mut callers: Vec<Option<Caller>> = Vec::new();
    let victim = case.abort.map(|(v, _, _)| v);
    let mut victim_arrived = true;

    // ---- launch, in index order, without waiting in between
    for i in 0..n {
        match case.abort {
            Some((v, Stage::Pre, Mode::Manual)) if v == i => {
                let mut f: Pin<Box<dyn Future<Output = Outcome> + Send>> = Box::pin(w.call(i as i32, true));
                match futures::poll!(f.as_mut()) {
                    std::task::Poll::Ready(o) => {
                        check_rows(&mut run.obs, "abandoned caller (completed at its first poll)", i as i32, &o);
                    }
                    std::task::Poll::Pending => {}
                }
                drop(f);
                callers.push(Some(Caller::Abandoned));
            }
            Some((v, Stage::Pre, Mode::Task)) if v == i => {
                let h = tokio::spawn(w.call(i as i32, true));
                h.abort();
                callers.push(Some(Caller::Task(h)));
            }
            Some((v, _, Mode::Manual)) if v == i => {
                let mut f: Pin<Box<dyn Future<Output = Outcome> + Send>> = Box::pin(w.call(i as i32, true));
                match futures::poll!(f.as_mut()) {
                    std::task::Poll::Ready(o) => callers.push(Some(Caller::Finished(o))),
                    std::task::Poll::Pending => callers.push(Some(Caller::Manual(f))),
                }
            }
            _ => callers.push(Some(Caller::Task(tokio::spawn(w.call(i as i32, true))))),
        }
    }
    if let Some((v, Stage::Pre, mode)) = case.abort {
        if mode == Mode::Task {
            match finish(callers[v].take().unwrap()).await {
                Ok(Some(o)) => check_rows(&mut run.obs, "abandoned caller (completed before the abort)", v as i32, &o),
                Ok(None) => {}
                Err(()) => return Err("aborted task did not go away".into()),
            }
            callers[v] = Some(Caller::Abandoned);
        }
        run.obs.trace.push(format!("abandon {v} before its frame is known to have arrived"));
        // follow-ups at once; the fence inside also decides whether the victim's frame was written at all: the
        // connection's submit channel and socket are FIFO, so once a later request was answered the victim's frame
        // has either arrived or never will.
        run.follow_up().await?;
        victim_arrived = cluster.log().iter().any(|e| entry_value(e) == Some(v as i32));
        run.obs.flag(if victim_arrived { "pre_abandoned_frame_still_reached_the_mock" } else { "pre_abandoned_frame_never_sent" });
    }

    // ---- all responses parked
    let expect = n - if victim_arrived { 0 } else { 1 };
    cluster.wait_held_count(&format!("{expect} test responses parked"), expect, |a| action_value(a).map(|v| (v as usize) < n).unwrap_or(false)).await?;
    let arrival: Vec<usize> = cluster.log().iter().filter_map(|e| entry_value(e)).filter(|v| (*v as usize) < n).map(|v| v as usize).collect();
    let released_order: Vec<usize> = case.order.iter().copied().filter(|i| victim_arrived || Some(*i) != victim).collect();
    run.obs.reordered = arrival != released_order;

    if let Some((v, Stage::Held, _)) = case.abort {
        match callers[v].take().unwrap() {
            Caller::Task(h) => {
                h.abort();
                match finish(Caller::Task(h)).await {
                    Ok(Some(o)) => check_rows(&mut run.obs, "abandoned caller (completed although its response is still parked)", v as i32, &o),
                    Ok(None) => {}
                    Err(()) => return Err("aborted task did not go away".into()),
                }
            }
            Caller::Finished(o) => check_rows(&mut run.obs, "abandoned caller (completed although its response is still parked)", v as i32, &o),
            other => drop(other),
        }
        callers[v] = Some(Caller::Abandoned);
        run.obs.trace.push(format!("abandon {v} while its response is parked"));
        run.follow_up().await?;
    }

    // ---- release in the chosen order
    for &i in &case.order {
        if Some(i) == victim && !victim_arrived {
            continue;
        }
        run.release(i as i32).await?;
        match case.abort {
            Some((v, Stage::Answered, mode)) if v == i => {
                match (mode, callers[v].take().unwrap()) {
                    (Mode::Manual, Caller::Manual(f)) => {
                        // the response is handed to the victim's handler (fence), the victim is never polled again
                        run.fence().await?;
                        drop(f);
                        run.obs.flag("answered_but_never_polled_then_dropped");
                    }
                    (_, Caller::Task(h)) => {
                        h.abort();
                        match finish(Caller::Task(h)).await {
                            Ok(Some(o)) => {
                                run.obs.flag("abort_after_answer_lost_the_race_caller_completed");
                                check_rows(&mut run.obs, "caller aborted after its response was released (it completed first)", v as i32, &o);
                            }
                            Ok(None) => run.obs.flag("abort_after_answer_won_the_race_caller_cancelled"),
                            Err(()) => return Err("aborted task did not go away".into()),
                        }
                    }
                    (_, Caller::Finished(o)) => check_rows(&mut run.obs, "caller (completed at its first poll)", v as i32, &o),
                    (_, other) => drop(other),
                }
                callers[v] = Some(Caller::Abandoned);
                run.obs.trace.push(format!("abandon {v} after its response was released"));
                run.follow_up().await?;
            }
            _ => {
                if case.pace == Pace::Step && !matches!(callers[i], Some(Caller::Abandoned)) {
                    match finish(callers[i].take().unwrap()).await {
                        Ok(Some(o)) => {
                            check_rows(&mut run.obs, &format!("caller {i}"), i as i32, &o);
                            callers[i] = Some(Caller::Finished(o));
                        }
                        Ok(None) => return Err(format!("caller {i} was cancelled by nobody")),
                        Err(()) => {
                            run.obs.v("c02-mock:caller-hang", format!("caller {i} did not complete within {LIVENESS:?} after its response was released"));
                            return Ok(run.obs);
                        }
                    }
                }
            }
        }
    }

    // ---- everybody who was not abandoned completes with its own rows
    for i in 0..n {
        match callers[i].take().unwrap() {
            Caller::Abandoned => {}
            Caller::Finished(o) => {
                if case.pace != Pace::Step {
                    check_rows(&mut run.obs, &format!("caller {i}"), i as i32, &o);
                }
            }
            c => match finish(c).await {
                Ok(Some(o)) => check_rows(&mut run.obs, &format!("caller {i}"), i as i32, &o),
                Ok(None) => return Err(format!("caller {i} was cancelled by nobody")),
                Err(()) => {
                    run.obs.v("c02-mock:caller-hang", format!("caller {i} did not complete within {LIVENESS:?} after its response was released"));
                    return Ok(run.obs);
                }
            },
        }
    }

    // ---- follow-ups (issued after the abandonment, or now): parked, released in reverse order, own rows
    run.follow_up().await?;
    if let Err(e) = cluster.wait_held_count("both follow-up responses parked", 2, |a| matches!(action_value(a), Some(100) | Some(101))).await {
        run.obs.v("c02-mock:caller-hang", format!("a follow-up request never reached the mock: {e}"));
        return Ok(run.obs);
    }
    run.release(101).await?;
    run.release(100).await?;
    let fu = std::mem::take(&mut run.followups);
    for (v, h) in fu {
        match finish(Caller::Task(h)).await {
            Ok(Some(o)) => check_rows(&mut run.obs, &format!("follow-up caller {v}"), v, &o),
            Ok(None) => return Err("follow-up cancelled by nobody".into()),
            Err(()) => {
                run.obs.v("c02-mock:caller-hang", format!("follow-up caller {v} did not complete within {LIVENESS:?} after its response was released"));
                return Ok(run.obs);
            }
        }
    }
    Ok(run.obs)
}

fn run_blocking(case: &Case) -> Result<Obs, String> {
    let rt = runtime();
    let r = rt.block_on(run(case));
    rt.shutdown_timeout(Duration::from_millis(200));
    r
}

fn cases(max_n: usize, reps: usize) -> Vec<Case> {
    let mut out = Vec::new();
    for rep in 0..reps {
        for n in 1..=max_n {
            for order in permutations(n) {
                for pace in [Pace::Burst, Pace::Step] {
                    out.push(Case { n, order: order.clone(), abort: None, pace, rep });
                    for victim in 0..n {
                        for stage in [Stage::Pre, Stage::Held, Stage::Answered] {
                            for mode in [Mode::Manual, Mode::Task] {
                                out.push(Case { n, order: order.clone(), abort: Some((victim, stage, mode)), pace, rep });
                            }
                        }
                    }
                }
            }
        }
    }
    out
}

fn main() {
    let r = Report::new("C02", "mock", "model_checking", "E-MOCK");
    std::panic::set_hook(Box::new(|_| {}));
    if let Some(case) = r.replay_case() {
        let c = Case::from_json(&case);
        match run_blocking(&c) {
            Ok(obs) => {
                println!("trace: {:?}\nflags: {:?}", obs.trace, obs.flags);
                for (k, w) in obs.violations {
                    r.violation(&k, &w, case.clone());
                }
            }
            Err(e) => vcore::machinery_error(&e),
        }
        r.finish_replay();
    }
    let max_n = r.args.extra_value("--n").and_then(|s| s.parse().ok()).unwrap_or(r.tier().pick(3, 4));
    let reps = r.args.extra_value("--reps").and_then(|s| s.parse().ok()).unwrap_or(3);
    let all = cases(max_n, reps);
    let stop = AtomicBool::new(false);
    let jobs = r.args.jobs.min(16);
    let rr = &r;
    vcore::par::for_range(jobs, all.len() as u64, |i| {
        if stop.load(Ordering::Relaxed) {
            rr.counters.add("cases_skipped_after_first_violation", 1);
            return;
        }
        let case = &all[i as usize];
        let out = match run_blocking(case) {
            Err(e) => {
                // a harness-side deadline is re-run once in isolation before it is reported
                match run_blocking(case) {
                    Err(e2) => Err(format!("{e}\n--- again: {e2}")),
                    ok => {
                        rr.counters.add("stalls_not_reproduced", 1);
                        ok
                    }
                }
            }
            ok => ok,
        };
        match out {
            Ok(obs) => {
                rr.eval(1);
                if case.rep == 0 && (case.abort.is_some() || obs.reordered) {
                    rr.nontrivial(1);
                }
                if obs.reordered {
                    rr.counters.add("runs_answered_in_an_order_other_than_arrival", 1);
                }
                for f in &obs.flags {
                    rr.counters.add(f, 1);
                }
                if let Some((_, s, m)) = case.abort {
                    rr.counters.add(&format!("abandon_{s:?}_{m:?}").to_lowercase(), 1);
                } else {
                    rr.counters.add("no_abandon", 1);
                }
                if !obs.violations.is_empty() {
                    stop.store(true, Ordering::Relaxed);
                }
                for (k, w) in obs.violations {
                    rr.violation(&k, &format!("{w} [case {}; steps {:?}]", case.json(), obs.trace), case.json());
                }
                if i % 97 == 0 {
                    rr.sample(json!({"case": case.json(), "steps": obs.trace, "flags": obs.flags}));
                }
            }
            Err(e) => {
                // the mock never saw what a correct driver sends in milliseconds: liveness, not machinery
                rr.eval(1);
                stop.store(true, Ordering::Relaxed);
                let first = e.lines().next().unwrap_or("").to_string();
                eprintln!("STALL case {}:\n{e}", case.json());
                if first.starts_with("fence request") {
                    rr.violation("c02-mock:caller-error", &format!("twice: {first} (an un-gated request on the healthy connection) [case {}]", case.json()), case.json());
                } else {
                    rr.violation("c02-mock:stall", &format!("run stalled twice: {first} [case {}]", case.json()), case.json());
                }
            }
        }
    });
    r.note("cases", json!(all.len()));
    r.note("repetitions_of_every_case_sampled_client_schedule", json!(reps));
    r.note("max_concurrent_requests", json!(max_n));
    r.set_exhaustive(r.counters.get("cases_skipped_after_first_violation") == 0);
    r.set_rule("runs in which the mock answered in an order other than the arrival order of the frames, or a caller was abandoned while the run went on (distinct (n, order, victim, stage, abandon mode, pace) tuples)");
    r.assume("client-internal task scheduling is whatever the OS produces (engine E-MOCK): whether an orphan notice is processed before the next stream-id allocation is steered by a fence round trip (X2) and left to the race (X1), not enumerated");
    r.assume("one node, pool of one connection, no client-side request timeout; bound values identify requests; rows name node and value");
    if r.counters.get("runs_answered_in_an_order_other_than_arrival") == 0 && max_n >= 2 && r.violation_count() == 0 {
        vcore::machinery_error("vacuous: no run was answered out of arrival order");
    }
    r.finish();
}
