//! Smoke test of mockcluster: 3-node cluster (1 Cassandra-like, 2 Scylla with 2 and 3 shards), a real Session
//! connects, reads metadata, prepares and executes; gates, faults and events are exercised once each.
//! Exit 0 = all expectations met. `--dump` prints the whole frame log.
use mockcluster::wire::{ColType, Event, col, val};
use mockcluster::{CloseKind, KeyspaceSpec, MockCluster, NodeSpec, Script, TableSpec};
use scylla::client::session_builder::SessionBuilder;
use std::time::{Duration, Instant};

fn check(ok: bool, what: &str) {
    if !ok {
        eprintln!("SMOKE-FAIL: {what}");
        std::process::exit(1);
    }
}

#[tokio::main(flavor = "multi_thread", worker_threads = 4)]
async fn main() {
    let dump = std::env::args().any(|a| a == "--dump");
    let t0 = Instant::now();
    let cluster = MockCluster::builder()
        .node(NodeSpec::new("dc1", "r1", vec![-6_000_000_000_000_000_000, 100]))
        .node(NodeSpec::new("dc1", "r2", vec![-3_000_000_000_000_000_000, 3_000_000_000_000_000_000]).scylla(2, 12))
        .node(NodeSpec::new("dc2", "r1", vec![0, 6_000_000_000_000_000_000]).scylla(3, 12))
        .keyspace(KeyspaceSpec::simple("ks", 2).table(TableSpec::new("t").pk("a", "int").col("b", "text")))
        .build()
        .await
        .unwrap_or_else(|e| vcore::machinery_error(&e));
    let cols = vec![col("ks", "t", "a", ColType::Int), col("ks", "t", "b", ColType::Text)];
    cluster.script(Script::new("INSERT INTO ks.t (a, b) VALUES (?, ?)").bind(cols.clone(), vec![0]));
    cluster.script(
        Script::new("SELECT a, b FROM ks.t WHERE a = ?")
            .bind(vec![cols[0].clone()], vec![0])
            .rows(cols.clone(), vec![vec![val::int(7), val::text("seven")], vec![val::int(8), val::null()]]),
    );

    let session = SessionBuilder::new().known_node(cluster.contact_point(0)).build().await.unwrap_or_else(|e| {
        eprintln!("{}", cluster.dump_log());
        vcore::machinery_error(&format!("session did not come up: {e}"))
    });
    let t_up = t0.elapsed();

    // metadata as the driver understood it
    let state = session.get_cluster_state();
    check(state.get_nodes_info().len() == 3, "driver sees 3 nodes");
    check(state.get_keyspace("ks").is_some(), "driver sees keyspace ks");
    check(state.get_keyspace("ks").unwrap().tables.contains_key("t"), "driver sees table ks.t");
    for i in 0..3 {
        check(state.get_nodes_info().iter().any(|n| n.host_id == cluster.host_id(i)), "host ids match");
    }

    // pools fill: node0 1 connection (+control), node1 2 shards, node2 3 shards
    for (node, want) in [(0usize, 2usize), (1, 2), (2, 3)] {
        cluster
            .wait_conns(&format!("node {node} has {want} ready connections"), mockcluster::DEADLINE, |cs| {
                (cs.iter().filter(|c| c.node == node && c.ready && c.open).count() >= want).then_some(())
            })
            .await
            .unwrap_or_else(|e| {
                eprintln!("{}", cluster.dump_log());
                vcore::machinery_error(&e)
            });
    }
    for node in [1usize, 2] {
        let nr = if node == 1 { 2 } else { 3 };
        let shards: std::collections::BTreeSet<u16> = cluster.open_conns(Some(node)).iter().filter(|c| c.ready).filter_map(|c| c.shard).collect();
        check(shards.len() == nr, &format!("node {node}: one connection per shard, got {shards:?}"));
    }

    // prepare + execute
    let from = cluster.log_len();
    let ins = session.prepare("INSERT INTO ks.t (a, b) VALUES (?, ?)").await.expect("prepare insert");
    let sel = session.prepare("SELECT a, b FROM ks.t WHERE a = ?").await.expect("prepare select");
    check(ins.get_variable_pk_indexes().len() == 1, "pk index arrived");
    session.execute_unpaged(&ins, (1i32, "one")).await.expect("execute insert");
    let rows = session.execute_unpaged(&sel, (7i32,)).await.expect("execute select").into_rows_result().expect("rows");
    let got: Vec<(i32, Option<String>)> = rows.rows::<(i32, Option<String>)>().unwrap().map(|r| r.unwrap()).collect();
    check(got == vec![(7, Some("seven".to_string())), (8, None)], &format!("rows decoded: {got:?}"));
    let execs = cluster.wait_count("2 EXECUTE frames", from, 2, |e| e.opcode() == Some(mockcluster::wire::Opcode::Execute) && e.is_user_frame()).await.unwrap();
    check(execs[0].is_stmt("INSERT INTO ks.t"), "EXECUTE resolves to its statement text");
    let bound = execs[0].frame().unwrap().request.params().unwrap().values.clone();
    check(bound.len() == 2 && bound[0].as_bytes() == Some(&1i32.to_be_bytes()[..]), "bound values decoded");

    // unscripted statement -> visible server error
    let e = session.query_unpaged("SELECT nothing FROM ks.nowhere", ()).await;
    check(e.is_err(), "unscripted statement fails");
    check(cluster.unexpected().len() >= 1, "unexpected request recorded");

    // USE: acknowledged keyspace is tracked per connection
    session.use_keyspace("ks", false).await.expect("use keyspace");
    let from = cluster.log_len();
    session.execute_unpaged(&ins, (2i32, "two")).await.expect("execute after use");
    let e = cluster.wait_entry("EXECUTE after USE", from, |e| e.is_user_frame()).await.unwrap();
    check(e.frame().unwrap().keyspace.as_deref() == Some("ks"), "frame after USE arrives on a connection that acknowledged ks");

    // gate: hold the response to the next user EXECUTE, observe the caller pending, release
    let rule = cluster.hold(|a| a.statement().map(|s| s.starts_with("SELECT a, b")).unwrap_or(false) && a.req_opcode() == Some(mockcluster::wire::Opcode::Execute));
    {
        let s2 = &session;
        let fut = async { s2.execute_unpaged(&sel, (7i32,)).await };
        tokio::pin!(fut);
        let held = tokio::select! {
            r = &mut fut => { check(false, &format!("held response but caller finished: {:?}", r.is_ok())); unreachable!() }
            h = cluster.wait_held("held SELECT response", |a| !a.is_accept()) => h.unwrap(),
        };
        cluster.unhold(rule);
        check(cluster.release(held.id), "release");
        check(fut.await.is_ok(), "caller completes after release");
    }

    // fault: RST one pool connection of node 2; the pool refills (new OPEN on that node)
    let victim = cluster.open_conns(Some(2)).into_iter().find(|c| c.registered.is_empty() && c.ready).unwrap();
    let from = cluster.log_len();
    check(cluster.close_conn(victim.id, CloseKind::Rst).await, "reset performed");
    cluster.wait_entry("refill after reset", from, |e| e.node == 2 && matches!(e.kind, mockcluster::LogKind::Open { .. })).await.unwrap();

    // event: add a 4th node and announce it on the control connection; the driver connects to it
    let n3 = cluster.add_node(NodeSpec::new("dc2", "r2", vec![1_000_000])).await.unwrap();
    let pushed = cluster.push_event(0, Event::new_node(cluster.ip(n3).into(), cluster.port())) + cluster.push_event(1, Event::new_node(cluster.ip(n3).into(), cluster.port())) + cluster.push_event(2, Event::new_node(cluster.ip(n3).into(), cluster.port()));
    check(pushed == 1, &format!("exactly one control connection got the event ({pushed})"));
    cluster
        .wait_conns("driver connects to the announced node", mockcluster::DEADLINE, |cs| cs.iter().any(|c| c.node == n3 && c.ready).then_some(()))
        .await
        .unwrap_or_else(|e| {
            eprintln!("{}", cluster.dump_log());
            vcore::machinery_error(&e)
        });

    let frames = cluster.frames().len();
    let total = cluster.log_len();
    if dump {
        println!("{}", cluster.dump_log());
    }
    cluster.shutdown().await;
    drop(session);
    println!("SMOKE-OK session_up_ms={} frames={} log_entries={} wall_ms={}", t_up.as_millis(), frames, total, t0.elapsed().as_millis());
    let _ = Duration::ZERO;
}
