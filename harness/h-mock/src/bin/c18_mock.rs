//! C18 leg `mock` (E-MOCK): "a timestamp set explicitly on a statement is sent unchanged in preference to a
//! generated one", through a real Session against the mock cluster, plus a PLAIN RUN (not a coverage claim) of
//! concurrent writes through one session with the real MonotonicTimestampGenerator.
//!   explicit: session generator {none, MonotonicTimestampGenerator, SimpleTimestampGenerator, harness recording
//!             generator} x request kind {QUERY, QUERY with values (prepared on the fly -> EXECUTE), EXECUTE, paged
//!             EXECUTE (2 pages), BATCH unprepared / prepared / mixed; the same through statements the node marks as
//!             LWT in its PREPARED answer (QUERY with values, EXECUTE, execute_single_page x2, execute_iter, BATCH);
//!             EXECUTE of a statement the node has evicted (UNPREPARED -> PREPARE -> re-sent EXECUTE: both frames)}
//!             and the CachingSession entry points (execute_unpaged, execute_iter, batch unprepared / mixed / prepared,
//!             prepare_batch + Session::batch) x statement timestamp {not set, 9 boundary values}:
//!             the frame(s) the node received carry the explicit value unchanged; without one, a timestamp is present
//!             iff a generator is configured, is one the recording generator handed out / exceeds every earlier value of
//!             the monotonic generator in this (sequential) caller (for LWT-marked statements the presence of a
//!             generated timestamp is not demanded - the property does not state it; a re-sent EXECUTE may repeat the value).
//!             Every explicit case is run with each statement carrier {the object set_timestamp was called on, a clone
//!             taken after set_timestamp, a clone on which set_timestamp is then called} (Statement, PreparedStatement, Batch).
//!   clone:    component level - for Statement / PreparedStatement (plain, LWT) / Batch / batch members x 9 timestamps x
//!             clone depth 1..3: get_timestamp() of the clone is the explicit one; the other setters (consistency, serial
//!             consistency, idempotence, tracing, page size, request timeout, cached-metadata flag) are compared too and
//!             listed in the evidence without being this property's verdict.
//!   run:      4 tasks x 50 writes (QUERY / EXECUTE / BATCH rotating) over 2 nodes through one session with the
//!             monotonic generator: 200 pairwise distinct timestamps at the nodes, strictly increasing along each task.
use h_mock::sess::{self, RecordingGen};
use mockcluster::wire::{BatchStmt, ColType, Opcode, Request, Response, col, val};
use mockcluster::{KeyspaceSpec, LogEntry, MockCluster, NodeSpec, Script, TableSpec, paginate};
use scylla::client::session::Session;
use scylla::client::session_builder::SessionBuilder;
use scylla::policies::timestamp_generator::{MonotonicTimestampGenerator, SimpleTimestampGenerator};
use scylla::serialize::row::SerializeRow;
use scylla::statement::batch::{Batch, BatchType};
use scylla::statement::prepared::PreparedStatement;
use scylla::statement::unprepared::Statement;
use serde_json::{Value, json};
use std::collections::{BTreeMap, BTreeSet};
use std::sync::Arc;
use vcore::Report;

const GENS: [&str; 4] = ["none", "monotonic", "simple", "recording"];
const KINDS: [&str; 19] = [
    "query",
    "query-values",
    "execute",
    "execute-paged",
    "batch-unprepared",
    "batch-prepared",
    "batch-mixed",
    // the same through statements the node marks as LWT in its PREPARED answer (PreparedStatement::is_confirmed_lwt)
    "query-values-lwt",
    "execute-lwt",
    "execute-single-page-lwt",
    "execute-paged-lwt",
    "batch-prepared-lwt",
    // the node has forgotten the statement: EXECUTE -> UNPREPARED -> PREPARE -> the re-sent EXECUTE
    "execute-unprepared-resend",
    // through a CachingSession over the same Session (unprepared statements are prepared through its cache; a batch is
    // rebuilt by prepare_batch when it contains an unprepared statement)
    "caching-execute",
    "caching-execute-paged",
    "caching-batch-unprepared",
    "caching-batch-mixed",
    "caching-batch-prepared",
    "caching-prepare-batch-mixed",
];
/// ScyllaDB's LWT_OPTIMIZATION_META_BIT_MASK
const LWT_MASK: u32 = 0x8000_0000;
const TS: [i64; 9] = [0, 1, -1, i64::MIN, i64::MAX, 1_700_000_000_000_000, 4_102_444_800_000_000, 1 << 32, -(1 << 53)];
const GEN_BASE: i64 = 77_000_000_000_000_000;

const Q_INSERT: &str = "INSERT INTO ks.t (a, b) VALUES (1, 'q')";
const P_INSERT: &str = "INSERT INTO ks.t (a, b) VALUES (?, ?)";
const P_SELECT: &str = "SELECT a, b FROM ks.t WHERE a = ?";
const L_INSERT: &str = "INSERT INTO ks.t (a, b) VALUES (?, ?) IF NOT EXISTS";
const L_UPDATE: &str = "UPDATE ks.t SET b = 'u' WHERE a = ? IF EXISTS";
const LIT_PREFIX: &str = "INSERT INTO ks.t (a, b) VALUES (";

#[derive(Clone, Debug)]
struct Case {
    generator: usize,
    kind: usize,
    /// index into TS, or None = the statement sets no timestamp
    ts: Option<usize>,
    /// index into HOWS: which object (the one set_timestamp was called on, or a clone) is executed
    how: usize,
}
impl Case {
    fn json(&self) -> Value {
        json!({"leg":"mock","part":"explicit","generator":GENS[self.generator],"kind":KINDS[self.kind],"explicit_timestamp":self.ts.map(|i| TS[i]),"carrier":HOWS[self.how]})
    }
}

struct Env {
    cluster: MockCluster,
    session: Arc<Session>,
    recording: Option<Arc<RecordingGen>>,
    insert: PreparedStatement,
    select: PreparedStatement,
    lwt_insert: PreparedStatement,
    /// LWT-marked and answering with 2 rows in pages (as a conditional statement's result set does)
    lwt_update: PreparedStatement,
    caching: scylla::client::caching_session::CachingSession,
}

async fn setup(generator: usize, nodes: usize) -> Env {
    let mut b = MockCluster::builder();
    for i in 0..nodes {
        let mut n = NodeSpec::new("dc1", "r1", vec![-5_000_000_000_000_000_000 + i as i64 * 4_000_000_000_000_000_000, 100 + i as i64]);
        n.lwt_mark = Some(LWT_MASK);
        b = b.node(n);
    }
    let cluster = b.keyspace(KeyspaceSpec::simple("ks", 1).table(TableSpec::new("t").pk("a", "int").col("b", "text"))).build().await.unwrap_or_else(|e| vcore::machinery_error(&e));
    let cols = vec![col("ks", "t", "a", ColType::Int), col("ks", "t", "b", ColType::Text)];
    cluster.script(Script::new(LIT_PREFIX).prefix()); // scripts are matched newest first: the exact ones below win
    cluster.script(Script::new(P_INSERT).bind(cols.clone(), vec![0]));
    let mut li = Script::new(L_INSERT).bind(cols.clone(), vec![0]);
    li.lwt = true;
    cluster.script(li);
    let rows = vec![vec![val::int(1), val::text("one")], vec![val::int(2), val::text("two")]];
    let cols2 = cols.clone();
    cluster.script(Script::new(P_SELECT).bind(vec![cols[0].clone()], vec![0]).result(cols.clone()).reply(move |ctx| match paginate(rows.clone(), None, ctx.params()) {
        Ok((page, next)) => Response::rows_paged(cols2.clone(), page, next).into(),
        Err(e) => mockcluster::Reply::error(mockcluster::wire::ErrorBody::invalid(&e)),
    }));
    let (rows3, cols3) = (vec![vec![val::int(1), val::text("one")], vec![val::int(2), val::text("two")]], cols.clone());
    let mut lu = Script::new(L_UPDATE).bind(vec![cols[0].clone()], vec![0]).result(cols.clone()).reply(move |ctx| match paginate(rows3.clone(), None, ctx.params()) {
        Ok((page, next)) => Response::rows_paged(cols3.clone(), page, next).into(),
        Err(e) => mockcluster::Reply::error(mockcluster::wire::ErrorBody::invalid(&e)),
    });
    lu.lwt = true;
    cluster.script(lu);
    let mut sb = SessionBuilder::new().known_node(cluster.contact_point(0));
    let mut recording = None;
    match GENS[generator] {
        "none" => {}
        "monotonic" => sb = sb.timestamp_generator(Arc::new(MonotonicTimestampGenerator::new())),
        "simple" => sb = sb.timestamp_generator(Arc::new(SimpleTimestampGenerator::new())),
        _ => {
            let g = Arc::new(RecordingGen::new(GEN_BASE));
            recording = Some(g.clone());
            sb = sb.timestamp_generator(g);
        }
    }
    let session = sb.build().await.unwrap_or_else(|e| vcore::machinery_error(&format!("session: {e}\n{}", cluster.dump_log())));
    cluster
        .wait_conns("a pool connection per node", mockcluster::DEADLINE, |cs| (0..nodes).all(|n| cs.iter().any(|c| c.node == n && c.open && c.ready && c.registered.is_empty())).then_some(()))
        .await
        .unwrap_or_else(|e| vcore::machinery_error(&e));
    let insert = session.prepare(P_INSERT).await.unwrap_or_else(|e| vcore::machinery_error(&format!("prepare: {e}")));
    let mut select = session.prepare(P_SELECT).await.unwrap_or_else(|e| vcore::machinery_error(&format!("prepare: {e}")));
    select.set_page_size(1);
    let lwt_insert = session.prepare(L_INSERT).await.unwrap_or_else(|e| vcore::machinery_error(&format!("prepare: {e}")));
    let mut lwt_update = session.prepare(L_UPDATE).await.unwrap_or_else(|e| vcore::machinery_error(&format!("prepare: {e}")));
    lwt_update.set_page_size(1);
    if !lwt_insert.is_confirmed_lwt() || !lwt_update.is_confirmed_lwt() || insert.is_confirmed_lwt() || select.is_confirmed_lwt() {
        vcore::machinery_error("the LWT mark of the PREPARED answers did not reach PreparedStatement::is_confirmed_lwt as scripted");
    }
    let session = Arc::new(session);
    let caching = scylla::client::caching_session::CachingSessionBuilder::new_shared(session.clone()).max_capacity(2).build();
    Env { cluster, session, recording, insert, select, lwt_insert, lwt_update, caching }
}

fn request_timestamp(e: &LogEntry) -> Option<Option<i64>> {
    match &e.frame()?.request {
        Request::Query { params, .. } | Request::Execute { params, .. } => Some(params.timestamp),
        Request::Batch { timestamp, .. } => Some(*timestamp),
        _ => None,
    }
}

/// The three ways a caller ends up holding the statement it executes.
const HOWS: [&str; 3] = ["original", "clone-taken-after-set_timestamp", "clone-then-set_timestamp-on-the-clone"];
trait Carrier: Clone {
    fn set_ts(&mut self, ts: Option<i64>);
    fn get_ts(&self) -> Option<i64>;
}
impl Carrier for Statement {
    fn set_ts(&mut self, ts: Option<i64>) {
        self.set_timestamp(ts)
    }
    fn get_ts(&self) -> Option<i64> {
        self.get_timestamp()
    }
}
impl Carrier for PreparedStatement {
    fn set_ts(&mut self, ts: Option<i64>) {
        self.set_timestamp(ts)
    }
    fn get_ts(&self) -> Option<i64> {
        self.get_timestamp()
    }
}
impl Carrier for Batch {
    fn set_ts(&mut self, ts: Option<i64>) {
        self.set_timestamp(ts)
    }
    fn get_ts(&self) -> Option<i64> {
        self.get_timestamp()
    }
}
fn carry<T: Carrier>(mut x: T, how: usize, ts: Option<i64>) -> T {
    match how {
        0 => {
            x.set_ts(ts);
            x
        }
        1 => {
            x.set_ts(ts);
            let c = x.clone();
            drop(x);
            c
        }
        _ => {
            let mut c = x.clone();
            drop(x);
            c.set_ts(ts);
            c
        }
    }
}

async fn drive(env: &Env, c: &Case) -> Result<(), String> {
    let ts = c.ts.map(|i| TS[i]);
    let s = &env.session;
    match KINDS[c.kind] {
        "query" => {
            let mut st = Statement::new(Q_INSERT);
            let st = carry(st, c.how, ts);
            s.query_unpaged(st, ()).await.map(|_| ()).map_err(|e| e.to_string())
        }
        "query-values" => {
            let mut st = Statement::new(P_INSERT);
            let st = carry(st, c.how, ts);
            s.query_unpaged(st, (5i32, "five")).await.map(|_| ()).map_err(|e| e.to_string())
        }
        "caching-execute" => {
            let mut st = Statement::new(P_INSERT);
            let st = carry(st, c.how, ts);
            env.caching.execute_unpaged(st, (9i32, "nine")).await.map(|_| ()).map_err(|e| e.to_string())
        }
        "caching-execute-paged" => {
            use futures::StreamExt;
            let mut st = Statement::new(P_SELECT);
            st.set_page_size(1);
            let st = carry(st, c.how, ts);
            let pager = env.caching.execute_iter(st, (1i32,)).await.map_err(|e| e.to_string())?;
            let mut rows = pager.rows_stream::<(i32, String)>().map_err(|e| e.to_string())?;
            let mut n = 0;
            while let Some(row) = rows.next().await {
                row.map_err(|e| e.to_string())?;
                n += 1;
            }
            if n == 2 { Ok(()) } else { Err(format!("{n} rows instead of 2")) }
        }
        k @ ("caching-batch-unprepared" | "caching-batch-mixed" | "caching-batch-prepared" | "caching-prepare-batch-mixed") => {
            let mut b = Batch::new(BatchType::Logged);
            let mut values: Vec<Box<dyn SerializeRow + Send + Sync>> = Vec::new();
            if k != "caching-batch-prepared" {
                b.append_statement(Statement::new(Q_INSERT));
                values.push(Box::new(()));
            }
            if k != "caching-batch-unprepared" {
                b.append_statement(env.insert.clone());
                values.push(Box::new((7i32, "seven")));
            }
            if k.ends_with("mixed") {
                b.append_statement(Statement::new(P_INSERT));
                values.push(Box::new((8i32, "eight")));
            }
            let b = carry(b, c.how, ts);
            if k == "caching-prepare-batch-mixed" {
                let prepared = env.caching.prepare_batch(&b).await.map_err(|e| e.to_string())?;
                s.batch(&prepared, values).await.map(|_| ()).map_err(|e| e.to_string())
            } else {
                env.caching.batch(&b, values).await.map(|_| ()).map_err(|e| e.to_string())
            }
        }
        "query-values-lwt" => {
            let mut st = Statement::new(L_INSERT);
            let st = carry(st, c.how, ts);
            s.query_unpaged(st, (5i32, "five")).await.map(|_| ()).map_err(|e| e.to_string())
        }
        k @ ("execute" | "execute-lwt" | "execute-unprepared-resend") => {
            let mut ps = if k == "execute-lwt" { env.lwt_insert.clone() } else { env.insert.clone() };
            let ps = carry(ps, c.how, ts);
            if k == "execute-unprepared-resend" {
                env.cluster.evict_prepared(0, Some(&mockcluster::prepared_id(P_INSERT)));
            }
            s.execute_unpaged(&ps, (6i32, "six")).await.map(|_| ()).map_err(|e| e.to_string())
        }
        "execute-single-page-lwt" => {
            let mut ps = env.lwt_update.clone();
            let ps = carry(ps, c.how, ts);
            let (_, state) = s.execute_single_page(&ps, (1i32,), scylla::response::PagingState::start()).await.map_err(|e| e.to_string())?;
            match state {
                scylla::response::PagingStateResponse::HasMorePages { state } => s.execute_single_page(&ps, (1i32,), state).await.map(|_| ()).map_err(|e| e.to_string()),
                scylla::response::PagingStateResponse::NoMorePages => Err("the node had a second page".into()),
            }
        }
        k @ ("execute-paged" | "execute-paged-lwt") => {
            use futures::StreamExt;
            let mut ps = if k == "execute-paged" { env.select.clone() } else { env.lwt_update.clone() };
            let ps = carry(ps, c.how, ts);
            let pager = s.execute_iter(ps, (1i32,)).await.map_err(|e| e.to_string())?;
            let mut st = pager.rows_stream::<(i32, String)>().map_err(|e| e.to_string())?;
            let mut n = 0;
            while let Some(row) = st.next().await {
                row.map_err(|e| e.to_string())?;
                n += 1;
            }
            if n == 2 { Ok(()) } else { Err(format!("{n} rows instead of 2")) }
        }
        k => {
            let mut b = Batch::new(BatchType::Unlogged);
            let mut values: Vec<Box<dyn SerializeRow + Send + Sync>> = Vec::new();
            if k != "batch-prepared" && k != "batch-prepared-lwt" {
                b.append_statement(Statement::new(Q_INSERT));
                values.push(Box::new(()));
            }
            if k != "batch-unprepared" {
                b.append_statement(if k == "batch-prepared-lwt" { env.lwt_insert.clone() } else { env.insert.clone() });
                values.push(Box::new((7i32, "seven")));
            }
            if k == "batch-mixed" {
                b.append_statement(Statement::new(P_INSERT)); // unprepared with values: prepared on the fly
                values.push(Box::new((8i32, "eight")));
            }
            let b = carry(b, c.how, ts);
            s.batch(&b, values).await.map(|_| ()).map_err(|e| e.to_string())
        }
    }
}

/// `last_mono`: largest timestamp the monotonic generator is known to have handed out earlier in this sequential caller.
async fn check_explicit(r: &Report, env: &Env, c: &Case, last_mono: &mut i64) {
    let from = env.cluster.log_len();
    let g0 = env.recording.as_ref().map(|g| g.handed_len()).unwrap_or(0);
    let res = drive(env, c).await;
    let frames: Vec<Arc<LogEntry>> = env.cluster.log_since(from).into_iter().filter(|e| e.is_user_frame() && e.opcode() != Some(Opcode::Prepare)).collect();
    let shown: Vec<String> = frames.iter().map(|e| format!("{} ts={:?}", e.describe(), request_timestamp(e))).collect();
    r.eval(1);
    if let Err(e) = res {
        r.violation(&format!("explicit:{}:call-failed", KINDS[c.kind]), &format!("{}: call failed: {e}; frames {shown:?}", c.json()), c.json());
        return;
    }
    let kind = KINDS[c.kind];
    let lwt = kind.ends_with("-lwt");
    let resend = kind == "execute-unprepared-resend";
    let want_frames = if kind.contains("paged") || kind.contains("single-page") || resend { 2 } else { 1 };
    if frames.len() != want_frames {
        r.violation(&format!("explicit:{}:frame-count", KINDS[c.kind]), &format!("{}: {} request frames instead of {want_frames}: {shown:?}", c.json(), frames.len()), c.json());
        return;
    }
    let handed = env.recording.as_ref().map(|g| g.handed_since(g0)).unwrap_or_default();
    let mut seen = BTreeSet::new();
    for e in &frames {
        let got = request_timestamp(e).flatten();
        r.counters.add("frames_checked", 1);
        let complaint = match (c.ts.map(|i| TS[i]), GENS[c.generator]) {
            (Some(t), _) => {
                r.counters.add("frames_with_explicit_timestamp", 1);
                (got != Some(t)).then(|| format!("the statement's explicit timestamp is {t}, the frame carries {got:?}"))
            }
            (None, "none") => got.map(|t| format!("no timestamp was set and no generator is configured, the frame carries {t}")),
            // LWT-marked statement without an explicit timestamp: the property does not say whether a generated one is
            // sent (the unchanged driver sends one); if one is there it must still come from the generator
            (None, g) if lwt && got.is_none() && g != "none" => {
                r.counters.add("lwt_frames_without_generated_timestamp", 1);
                None
            }
            (None, "recording") => match got {
                Some(t) if handed.contains(&t) && (seen.insert(t) || resend) => None,
                other => Some(format!("the frame carries {other:?}; the configured generator handed out {handed:?} during the call (each at most once)")),
            },
            (None, "monotonic") => match got {
                Some(t) if t > *last_mono || (resend && t == *last_mono) => {
                    *last_mono = t;
                    None
                }
                Some(t) => Some(format!("generated timestamp {t} does not exceed the earlier {last_mono} of the same sequential caller")),
                None => Some("a generator is configured and no explicit timestamp set, the frame carries no timestamp".into()),
            },
            (None, _) => got.is_none().then(|| "a generator is configured and no explicit timestamp set, the frame carries no timestamp".to_string()),
        };
        if got.is_some() && c.ts.is_none() {
            r.counters.add("frames_with_generated_timestamp", 1);
        }
        if let Some(what) = complaint {
            let key = if c.ts.is_some() { "explicit-changed" } else { "generated" };
            r.violation(&format!("explicit:{}:{key}", KINDS[c.kind]), &format!("{}: {what}; frames {shown:?}", c.json()), c.json());
            return;
        }
    }
    if c.ts.is_some() && !handed.is_empty() {
        r.counters.add("generator_consulted_despite_explicit", 1); // harmless: reported, not a violation
    }
}

fn explicit_cases(generator: usize) -> Vec<Case> {
    let mut v = Vec::new();
    for kind in 0..KINDS.len() {
        v.push(Case { generator, kind, ts: None, how: 0 });
        for how in 0..HOWS.len() {
            for t in 0..TS.len() {
                v.push(Case { generator, kind, ts: Some(t), how });
            }
        }
        v.push(Case { generator, kind, ts: None, how: 1 }); // generated again after explicit ones
    }
    v
}

/// Component level: `clone()` of every statement carrier keeps what the setters stored. The timestamp getter is C18's
/// ("an explicit timestamp is sent unchanged" - the connection reads it from whatever copy it is handed); the other
/// getters are compared too and reported in the evidence, but are not this property's verdict.
fn check_clone_getters(r: &Report, env: &Env) {
    use scylla::statement::{Consistency, SerialConsistency};
    use std::time::Duration;
    let mut others: Vec<String> = Vec::new();
    fn ts_check<T: Carrier>(r: &Report, name: &str, base: &T) {
        for t in TS {
            for depth in 1..=3 {
                let mut x = base.clone();
                x.set_ts(Some(t));
                let mut c = x.clone();
                for _ in 1..depth {
                    c = c.clone();
                }
                r.eval(1);
                r.counters.add("clone_timestamp_getter_checks", 1);
                if c.get_ts() != Some(t) {
                    let case = json!({"leg":"mock","part":"clone","carrier":name,"explicit_timestamp":t,"clone_depth":depth});
                    r.violation(&format!("clone:{name}:timestamp"), &format!("{name}: set_timestamp(Some({t})) then clone() x{depth}: get_timestamp() = {:?}", c.get_ts()), case);
                    return;
                }
            }
        }
        let mut x = base.clone();
        x.set_ts(Some(5));
        x.set_ts(None);
        if x.clone().get_ts().is_some() {
            r.violation(&format!("clone:{name}:timestamp"), &format!("{name}: set_timestamp(None) then clone(): a timestamp appeared"), json!({"leg":"mock","part":"clone","carrier":name}));
        }
    }
    ts_check(r, "Statement", &Statement::new(P_INSERT));
    ts_check(r, "PreparedStatement", &env.insert);
    ts_check(r, "PreparedStatement-lwt", &env.lwt_insert);
    let mut b = Batch::new(BatchType::Logged);
    b.append_statement(env.insert.clone());
    b.append_statement(Statement::new(Q_INSERT));
    ts_check(r, "Batch", &b);
    // batch members keep their own settings when the batch (or the member) is cloned
    for t in TS {
        let mut m = env.insert.clone();
        m.set_timestamp(Some(t));
        let mut st = Statement::new(Q_INSERT);
        st.set_timestamp(Some(t));
        let mut b = Batch::new(BatchType::Unlogged);
        b.append_statement(m.clone());
        b.append_statement(st);
        let b2 = b.clone();
        for (i, member) in b2.statements.iter().enumerate() {
            let got = match member {
                scylla::statement::batch::BatchStatement::Query(q) => q.get_timestamp(),
                scylla::statement::batch::BatchStatement::PreparedStatement(p) => p.get_timestamp(),
                _ => Some(t),
            };
            r.eval(1);
            r.counters.add("clone_timestamp_getter_checks", 1);
            if got != Some(t) {
                r.violation("clone:batch-member:timestamp", &format!("batch member {i} had set_timestamp(Some({t})); after append_statement(clone) + Batch::clone its get_timestamp() = {got:?}"), json!({"leg":"mock","part":"clone","carrier":"batch-member","explicit_timestamp":t}));
                return;
            }
        }
    }
    // the other setters (not C18's verdict)
    macro_rules! other {
        ($name:expr, $obj:expr, $set:expr, $get:expr) => {{
            let mut x = $obj.clone();
            $set(&mut x);
            let want = $get(&x);
            let got = $get(&x.clone());
            r.counters.add("clone_other_getter_checks", 1);
            if format!("{want:?}") != format!("{got:?}") {
                others.push(format!("{}: {want:?} became {got:?}", $name));
            }
        }};
    }
    let ps = &env.select;
    for c in sess::ALL_CONSISTENCIES {
        other!("PreparedStatement consistency", ps, |x: &mut PreparedStatement| x.set_consistency(c), |x: &PreparedStatement| x.get_consistency());
        other!("Statement consistency", Statement::new(P_SELECT), |x: &mut Statement| x.set_consistency(c), |x: &Statement| x.get_consistency());
        other!("Batch consistency", b, |x: &mut Batch| x.set_consistency(c), |x: &Batch| x.get_consistency());
    }
    for sc in [None, Some(SerialConsistency::Serial), Some(SerialConsistency::LocalSerial)] {
        other!("PreparedStatement serial consistency", ps, |x: &mut PreparedStatement| x.set_serial_consistency(sc), |x: &PreparedStatement| x.get_serial_consistency());
        other!("Statement serial consistency", Statement::new(P_SELECT), |x: &mut Statement| x.set_serial_consistency(sc), |x: &Statement| x.get_serial_consistency());
        other!("Batch serial consistency", b, |x: &mut Batch| x.set_serial_consistency(sc), |x: &Batch| x.get_serial_consistency());
    }
    for flag in [false, true] {
        other!("PreparedStatement idempotence", ps, |x: &mut PreparedStatement| x.set_is_idempotent(flag), |x: &PreparedStatement| x.get_is_idempotent());
        other!("Statement idempotence", Statement::new(P_SELECT), |x: &mut Statement| x.set_is_idempotent(flag), |x: &Statement| x.get_is_idempotent());
        other!("Batch idempotence", b, |x: &mut Batch| x.set_is_idempotent(flag), |x: &Batch| x.get_is_idempotent());
        other!("PreparedStatement tracing", ps, |x: &mut PreparedStatement| x.set_tracing(flag), |x: &PreparedStatement| x.get_tracing());
        other!("Statement tracing", Statement::new(P_SELECT), |x: &mut Statement| x.set_tracing(flag), |x: &Statement| x.get_tracing());
        other!("Batch tracing", b, |x: &mut Batch| x.set_tracing(flag), |x: &Batch| x.get_tracing());
        other!("PreparedStatement use_cached_result_metadata", ps, |x: &mut PreparedStatement| x.set_use_cached_result_metadata(flag), |x: &PreparedStatement| x.get_use_cached_result_metadata());
    }
    for page in [1, 7, i32::MAX] {
        other!("PreparedStatement page size", ps, |x: &mut PreparedStatement| x.set_page_size(page), |x: &PreparedStatement| x.get_page_size());
        other!("Statement page size", Statement::new(P_SELECT), |x: &mut Statement| x.set_page_size(page), |x: &Statement| x.get_page_size());
    }
    for to in [None, Some(Duration::from_millis(1)), Some(Duration::from_secs(3600))] {
        other!("PreparedStatement request timeout", ps, |x: &mut PreparedStatement| x.set_request_timeout(to), |x: &PreparedStatement| x.get_request_timeout());
        other!("Statement request timeout", Statement::new(P_SELECT), |x: &mut Statement| x.set_request_timeout(to), |x: &Statement| x.get_request_timeout());
        other!("Batch request timeout", b, |x: &mut Batch| x.set_request_timeout(to), |x: &Batch| x.get_request_timeout());
    }
    let _ = Consistency::One;
    if !others.is_empty() {
        eprintln!("NOTE (not a C18 verdict): clone() changed other statement settings: {others:?}");
    }
    r.note("clone_other_getter_mismatches", json!(others));
}

fn run_explicit(r: &Report, generator: usize, cases: Vec<Case>) {
    sess::block_on(2, async {
        let env = setup(generator, 1).await;
        if generator == 0 || cases.is_empty() {
            check_clone_getters(r, &env);
        }
        let mut last = i64::MIN;
        for c in &cases {
            check_explicit(r, &env, c, &mut last).await;
        }
        env.cluster.shutdown().await;
    });
}

// ------------------------------------------------------------------------------------------------ plain concurrent run

const TASKS: usize = 4;
const WRITES: usize = 50;

fn tag_of(e: &LogEntry) -> Option<i32> {
    let lit = |text: &str| text.strip_prefix(LIT_PREFIX).and_then(|s| s.split(',').next()).and_then(|s| s.trim().parse::<i32>().ok());
    let first = |vals: &[mockcluster::wire::Val]| vals.first().and_then(|v| v.as_bytes()).and_then(|b| <[u8; 4]>::try_from(b).ok()).map(i32::from_be_bytes);
    match &e.frame()?.request {
        Request::Query { text, .. } => lit(text),
        Request::Execute { params, .. } => first(&params.values),
        Request::Batch { statements, .. } => match statements.first()? {
            BatchStmt::Query { text, .. } => lit(text),
            BatchStmt::Prepared { values, .. } => first(values),
        },
        _ => None,
    }
}

fn run_concurrent(r: &Report) {
    sess::block_on(4, async {
        let env = setup(1, 2).await;
        let from = env.cluster.log_len();
        let mut handles = Vec::new();
        for t in 0..TASKS {
            let session = env.session.clone();
            let insert = env.insert.clone();
            handles.push(tokio::spawn(async move {
                for i in 0..WRITES {
                    let tag = (t * 1000 + i) as i32;
                    let res = match i % 3 {
                        0 => session.query_unpaged(format!("{LIT_PREFIX}{tag}, 'w')"), ()).await.map(|_| ()),
                        1 => session.execute_unpaged(&insert, (tag, "w")).await.map(|_| ()),
                        _ => {
                            let mut b = Batch::new(BatchType::Logged);
                            b.append_statement(insert.clone());
                            b.append_statement(Statement::new(format!("{LIT_PREFIX}{tag}, 'b')")));
                            session.batch(&b, ((tag, "w"), ())).await.map(|_| ())
                        }
                    };
                    if let Err(e) = res {
                        return Err(format!("write {tag}: {e}"));
                    }
                }
                Ok(())
            }));
        }
        let case = json!({"leg":"mock","part":"run","tasks":TASKS,"writes":WRITES});
        for h in handles {
            match tokio::time::timeout(mockcluster::DEADLINE, h).await {
                Ok(Ok(Ok(()))) => {}
                Ok(Ok(Err(e))) => return r.violation("run:write-failed", &e, case.clone()),
                Ok(Err(e)) => return r.violation("run:task-panicked", &format!("{e}"), case.clone()),
                Err(_) => return r.violation("run:hang", "a writer task did not finish within the liveness deadline", case.clone()),
            }
        }
        let frames: Vec<Arc<LogEntry>> = env.cluster.log_since(from).into_iter().filter(|e| e.is_user_frame() && e.opcode() != Some(Opcode::Prepare)).collect();
        r.eval(frames.len() as u64);
        let mut by_ts: BTreeMap<i64, i32> = BTreeMap::new();
        let mut per_task: BTreeMap<usize, Vec<(i32, i64)>> = BTreeMap::new();
        let nodes: BTreeSet<usize> = frames.iter().map(|e| e.node).collect();
        for e in &frames {
            let (Some(tag), Some(ts)) = (tag_of(e), request_timestamp(e).flatten()) else {
                return r.violation("run:no-timestamp", &format!("a write arrived without a timestamp although the monotonic generator is configured: {}", e.describe()), case.clone());
            };
            if let Some(other) = by_ts.insert(ts, tag) {
                return r.violation("run:duplicate-timestamp", &format!("writes {other} and {tag} arrived with the same timestamp {ts}"), case.clone());
            }
            per_task.entry(tag as usize / 1000).or_default().push((tag, ts));
        }
        if frames.len() != TASKS * WRITES {
            return r.violation("run:frame-count", &format!("{} write frames for {} writes", frames.len(), TASKS * WRITES), case.clone());
        }
        for (t, mut v) in per_task {
            v.sort();
            for w in v.windows(2) {
                if w[1].1 <= w[0].1 {
                    return r.violation("run:not-increasing", &format!("task {t}: write {} got timestamp {} after write {} got {}", w[1].0, w[1].1, w[0].0, w[0].1), case.clone());
                }
            }
        }
        r.counters.add("run_distinct_timestamps", by_ts.len() as u64);
        r.counters.add("run_nodes_that_received_writes", nodes.len() as u64);
        r.note("plain_run", json!(format!("{TASKS} tasks x {WRITES} writes through one session (2 nodes): {} pairwise distinct timestamps - a plain run under whatever schedule the OS produced, not a coverage claim", by_ts.len())));
        env.cluster.shutdown().await;
    });
}

fn main() {
    let r = Report::new("C18", "mock", "model_checking", "E-MOCK");
    sess::watchdog(std::time::Duration::from_secs(r.tier().pick(600, 3600)));
    vcore::quiet_panics();
    if let Some(case) = r.replay_case() {
        if case["part"] == "run" {
            run_concurrent(&r);
        } else if case["part"] == "clone" {
            run_explicit(&r, 0, vec![]);
        } else {
            let g = GENS.iter().position(|x| Some(*x) == case["generator"].as_str()).unwrap_or(0);
            let k = KINDS.iter().position(|x| Some(*x) == case["kind"].as_str()).unwrap_or(0);
            let ts = case["explicit_timestamp"].as_i64().and_then(|t| TS.iter().position(|x| *x == t));
            let how = HOWS.iter().position(|x| Some(*x) == case["carrier"].as_str()).unwrap_or(0);
            run_explicit(&r, g, vec![Case { generator: g, kind: k, ts, how }]);
        }
        r.finish_replay();
    }
    let rr = &r;
    let mut total = 0u64;
    let mut nontriv = 0u64;
    std::thread::scope(|s| {
        for g in 0..GENS.len() {
            let cases = explicit_cases(g);
            total += cases.len() as u64;
            nontriv += cases.iter().filter(|c| c.ts.is_some() && g != 0).count() as u64;
            if g == 1 {
                rr.sample(cases[1].json());
                rr.sample(cases[cases.len() - 2].json());
            }
            s.spawn(move || run_explicit(rr, g, cases));
        }
        s.spawn(move || run_concurrent(rr));
    });
    r.note("explicit_cases", json!(total));
    r.nontrivial(nontriv);
    r.set_rule("cases with an explicit statement timestamp AND a generator configured on the session (the two sources compete)");
    r.set_exhaustive(true);
    r.assume("explicit part: exhaustive over 4 generator settings x 7 request kinds x {no timestamp, 9 boundary timestamps}; sequential calls on one connection");
    r.assume("concurrent part is a plain run (4 tasks x 50 writes): OS-scheduled, listed as such, no coverage claim; interleavings of the generator itself are decided by the loom leg");
    r.finish();
}
